"""C14 — applying the sustain pedal holds exactly the notes the pedal holds (DESIGN 6.14)."""
import inspect
import math
from fractions import Fraction as F

from harness import nswire
from harness.common import corpus_cases, rat

PID = 'C14'
MODULES = ['NoteSeqVerif.Props.C14']
EXE = 'drv_c14'
THEOREMS = [
    'NSV.C14.sustain_spec', 'NSV.C14.sustain_pointwise',
    'NSV.C14.sustain_never_shortens', 'NSV.C14.sustain_drums_untouched',
    'NSV.C14.sustain_other_instruments_untouched', 'NSV.C14.sustain_no_pedal_identity',
    'NSV.C14.sustain_total_covers', 'NSV.C14.sustain_rejects_quantized',
    'NSV.C14.sustain_frame',
    'NSV.C14.heldEnd_press_after_end', 'NSV.C14.sustain_press_after_end_not_held',
]


def generate(chk):
    """Generated/C14.lean: the event-order constants and the default controller number."""
    from note_seq import sequences_lib as sl
    names = [('SUSTAIN_ON', '_SUSTAIN_ON'), ('SUSTAIN_OFF', '_SUSTAIN_OFF'), ('NOTE_ON', '_NOTE_ON'), ('NOTE_OFF', '_NOTE_OFF')]
    try:
        vals = [(lean, py, getattr(sl, py)) for lean, py in names]
        for _, py, v in vals:
            if not isinstance(v, int) or isinstance(v, bool) or v < 0:
                raise ValueError('%s = %r is not a natural number' % (py, v))
        dflt = inspect.signature(sl.apply_sustain_control_changes).parameters['sustain_control_number'].default
        if not isinstance(dflt, int):
            raise ValueError('default sustain_control_number = %r' % (dflt,))
    except Exception as e:  # pylint: disable=broad-except
        chk.translit['sustain constants'] = 'BROKEN: %s' % e
        chk.broken.append('translator:C14 (%s)' % e)
        return
    txt = ('/-! GENERATED from /repo on every run by harness/c14.py — do not edit. -/\n'
           'namespace NSV.C14.Gen\n'
           + ''.join('/-- `sequences_lib.%s` -/\ndef %s : Nat := %d\n' % (py, lean, v) for lean, py, v in vals)
           + '/-- default of `apply_sustain_control_changes(…, sustain_control_number=…)` -/\n'
           + 'def DEFAULT_SUSTAIN_CONTROL_NUMBER : Int := %s\n' % (str(dflt) if dflt >= 0 else '(%d)' % dflt)
           + 'end NSV.C14.Gen\n')
    chk.regenerate('NoteSeqVerif/Generated/C14.lean', txt)
    chk.translit['sustain constants'] = 'regenerated from source: ' + ', '.join('%s=%d' % (py, v) for _, py, v in vals)


# ----------------------------------------------------------------------------- generators
PEDAL_VALUES = [0, 0, 63, 63, 64, 64, 127, 127, 1, 100]


NEAR_DELTAS = [1e-12, 1e-10, 1e-9, 1e-8, 1e-7, 2e-7, 3e-7, 4e-7, 4.9e-7, 5e-7, 5.1e-7, 7e-7, 9e-7, 9.9e-7, 1e-6, 1.5e-6, 2e-6]
EXTREME_TIMES = [0.0, 5e-324, 2.2250738585072014e-308, 1e-300, 1e-9, 1e-6, 0.5, 1.0, 4.0, 86400.0, 1e9, 2.0 ** 53, 1e15, 1e300,
                 1.7976931348623157e308]


def nudge(rng, t):
    """a time NEAR t but different from it: 1-3 ulps, a 1e-12..1e-6 relative step or an absolute step
    between a picosecond and two microseconds (so that exact comparison, comparison after rounding to
    milli/microseconds and comparison within a tolerance all give different answers)."""
    r = rng.random()
    if r < 0.3:
        u = t
        for _ in range(rng.choice([1, 1, 2, 3])):
            u = math.nextafter(u, math.inf if rng.random() < 0.5 else 0.0)
    elif r < 0.45:
        u = t * (1 + rng.choice([-1, 1]) * rng.choice([1e-12, 1e-9, 1e-7, 1e-6]))
    else:
        u = t + rng.choice([-1, 1]) * rng.choice(NEAR_DELTAS)
    if u >= 0 and u != t and u != math.inf:
        return u
    return math.nextafter(t, math.inf) if t < 1e308 else math.nextafter(t, 0.0)


def _pool(rng):
    """a small pool of times (dyadic grid, two-decimal and arbitrary doubles): every start, end and
    pedal time is drawn from it, so coincidences are the rule, not the exception.  A third of the pools
    also contain NEAR-coincident twins (1-3 ulps ... 2 microseconds apart) of their own members; a few
    pools consist of the extreme ends of the double range."""
    k = rng.random()
    if rng.random() < 0.04:
        return sorted(rng.sample(EXTREME_TIMES, rng.choice([3, 4, 6, 8])))
    size = rng.choice([3, 4, 6, 8, 10])
    pool = set()
    while len(pool) < size:
        r = rng.random()
        if k < 0.5 or r < 0.5:
            pool.add(rng.randrange(0, 33) / 8.0)
        elif r < 0.75:
            pool.add(round(rng.uniform(0, 4), 2))
        else:
            pool.add(rng.uniform(0, 4))
    if rng.random() < 0.35:
        base = sorted(pool)
        for _ in range(rng.choice([1, 1, 2, 3, 5])):
            pool.add(nudge(rng, rng.choice(base)))
    return sorted(pool)


def _note(ns, rng, inst, pitch, a, b, drum=False):
    n = ns.notes.add()
    n.pitch, n.start_time, n.end_time, n.instrument, n.is_drum = pitch, a, b, inst, drum
    n.velocity = rng.choice([80, 80, 100, 1, 127])
    n.program = rng.choice([0, 0, 5])
    if rng.random() < 0.2:
        n.voice, n.part = rng.randrange(4), rng.randrange(3)
        n.numerator, n.denominator = rng.choice([(0, 0), (1, 4)])
        n.pitch_name = rng.choice([0, 2])
    return n


def _pedals(ns, rng, ninst, pool, ctl):
    r = rng
    k = r.choice([0, 1, 2, 3, 4, 6, 9, 14])
    insts = list(range(ninst)) + ([ninst] if r.random() < 0.2 else [])   # sometimes an instrument without notes
    for _ in range(k):
        c = ns.control_changes.add()
        k2 = r.random()
        c.time = r.choice(pool) if k2 < 0.8 else nudge(r, r.choice(pool)) if k2 < 0.9 else r.uniform(0, min(pool[-1], 1e6) + 1.0)
        c.control_number = ctl if r.random() < 0.75 else r.choice([64, 66, 67, 7, 1, 0])
        c.control_value = r.choice(PEDAL_VALUES) if r.random() < 0.8 else r.randrange(128)
        c.instrument = r.choice(insts)
        c.program = r.choice([0, 5])
        c.is_drum = r.random() < 0.05
    if r.random() < 0.3 and len(ns.control_changes) > 1:
        items = list(ns.control_changes)
        r.shuffle(items)
        ns.ClearField('control_changes')
        ns.control_changes.extend(items)


def _finish(ns, rng, pool):
    ends = [n.end_time for n in ns.notes] + [0.0]
    k = rng.random()
    if k < 0.55:
        ns.total_time = max(ends)
    elif k < 0.85:
        ns.total_time = max(ends) + rng.choice([0.5, 1.0, 2.0, rng.random()])
    else:
        ns.total_time = rng.choice([0.0, max(ends) / 2, rng.choice(pool)])
    if rng.random() < 0.25:
        t = ns.tempos.add()
        t.qpm = 120.0
        ns.ticks_per_quarter = 220
    if rng.random() < 0.15:
        ns.id = 'id%d' % rng.randrange(100)
        ns.sequence_metadata.title = 'T'
    if rng.random() < 0.3:
        items = list(ns.notes)
        rng.shuffle(items)
        ns.ClearField('notes')
        ns.notes.extend(items)


def gen_valid(rng):
    """<= 4 instruments; per (instrument, pitch) a chain of non-overlapping notes over the pool (touching
    ends/starts, zero-length notes, gaps); drum notes mixed in freely; pedal events on pool times."""
    from note_seq.protobuf import music_pb2
    ns = music_pb2.NoteSequence()
    pool = _pool(rng)
    ninst = rng.choice([1, 1, 2, 3, 4])
    pitches = rng.sample([60, 61, 62, 64, 36, 0, 127], rng.choice([1, 2, 3]))
    for inst in range(ninst):
        for pitch in pitches:
            if rng.random() < 0.3:
                continue
            cur, used = None, set()
            while rng.random() < 0.8:
                opts = [t for t in pool if (cur is None or t >= cur) and t not in used]
                if not opts:
                    break
                a = rng.choice(opts[:3]) if rng.random() < 0.7 else rng.choice(opts)
                later = [t for t in pool if t > a]
                r = rng.random()
                if r < 0.12:
                    b = a                                   # zero-length note
                elif not later or r > 0.92:
                    b = a + rng.choice([0.125, 0.5, rng.random()])   # end off the pool
                elif r < 0.55:
                    b = later[0]
                else:
                    b = rng.choice(later)
                _note(ns, rng, inst, pitch, a, b)
                used.add(a)
                cur = b      # the next note of this pitch may start exactly at b (touching), never at a again
    for _ in range(rng.choice([0, 0, 1, 2, 4])):
        a, b = sorted([rng.choice(pool), rng.choice(pool)])
        _note(ns, rng, rng.randrange(ninst), rng.choice(pitches + [38]), a, b if rng.random() < 0.8 else b + 1.5, drum=True)
    ctl = 64 if rng.random() < 0.9 else rng.choice([66, 7, 0, 127])
    _pedals(ns, rng, ninst, pool, ctl)
    _finish(ns, rng, pool)
    if rng.random() < 0.1:        # instrument numbers from the far ends of the int32 range instead of 0..4
        ids = rng.sample([0, 1, 9, 15, 255, 65536, 2 ** 31 - 1], 5)
        for x in list(ns.notes) + list(ns.control_changes):
            x.instrument = ids[x.instrument]
    return ctl, ns


def gen_overlap(rng):
    """beyond the theorem's precondition: same-pitch notes that overlap, start together, are identical
    twins or have zero length at a shared time — exercises the re-strike rule, the deletion of a note
    collapsed to zero length and the by-value `remove`/`in` of the Python."""
    from note_seq.protobuf import music_pb2
    ns = music_pb2.NoteSequence()
    pool = _pool(rng)[:rng.choice([3, 4, 6])]
    ninst = rng.choice([1, 1, 2, 3])
    pitches = rng.sample([60, 61, 62, 0, 127], rng.choice([1, 1, 2]))
    for _ in range(rng.choice([2, 3, 4, 6, 9, 12])):
        a, b = sorted([rng.choice(pool), rng.choice(pool)])
        if a == b and rng.random() < 0.5:
            b = a + 0.25
        n = _note(ns, rng, rng.randrange(ninst), rng.choice(pitches), a, b, drum=rng.random() < 0.1)
        if rng.random() < 0.6:
            n.velocity, n.program, n.voice, n.part, n.numerator, n.denominator, n.pitch_name = 80, 0, 0, 0, 0, 0, 0
        if rng.random() < 0.15:       # an identical twin
            ns.notes.add().CopyFrom(n)
    ctl = 64
    _pedals(ns, rng, ninst, pool, ctl)
    if rng.random() < 0.5:            # make sure the pedal is down early on some instrument
        c = ns.control_changes.add()
        c.time, c.control_number, c.control_value, c.instrument = pool[0], 64, rng.choice([64, 127]), rng.randrange(ninst)
    _finish(ns, rng, pool)
    return ctl, ns


def gen_malformed(rng):
    """notes that end before they start, negative times, controller values outside 0..127, quantized
    input, generic NSGen sequences with every container populated."""
    k = rng.random()
    if k < 0.4:
        ns = nswire.NSGen(rng, max_notes=rng.choice([0, 3, 8, 14]), instruments=rng.choice([1, 2, 4]), dyadic=rng.random() < 0.5).make(
            sub=True, well_formed=rng.random() < 0.7)
        for c in ns.control_changes:
            if rng.random() < 0.5 and ns.notes:
                n = rng.choice(ns.notes)
                c.time = rng.choice([n.start_time, n.end_time])
        ctl = 64
    else:
        ctl, ns = (gen_valid if rng.random() < 0.5 else gen_overlap)(rng)
        for n in ns.notes:
            r = rng.random()
            if r < 0.2:
                n.start_time, n.end_time = n.end_time, n.start_time
            elif r < 0.3:
                n.start_time -= 2.0
            elif r < 0.35:
                n.end_time -= 2.0
        for c in ns.control_changes:
            if rng.random() < 0.25:
                c.control_value = rng.choice([-1, -64, 128, 200, 64 + 256, 1000])
            if rng.random() < 0.1:
                c.time = -c.time
    if rng.random() < 0.3:
        if rng.random() < 0.5:
            ns.quantization_info.steps_per_quarter = rng.choice([4, 1, -1, 0])
        else:
            ns.quantization_info.steps_per_second = rng.choice([100, 1, -3])
        for n in ns.notes:
            n.quantized_start_step, n.quantized_end_step = int(min(n.start_time * 4, 1e6)), int(min(n.end_time * 4, 1e6))
    return ctl, ns


# ----------------------------------------------------------------------------- oracle
def precondition(ns):
    """the quantifier of the property: pitched notes do not end before they start, and no two
    pitched notes of one pitch on one instrument overlap (nor start together)."""
    groups = {}
    for n in ns.notes:
        if n.is_drum:
            continue
        if n.end_time < n.start_time:
            return False
        groups.setdefault((n.instrument, n.pitch), []).append((F(n.start_time), F(n.end_time)))
    for g in groups.values():
        g.sort()
        for (a, b), (c, d) in zip(g, g[1:]):
            if a == c or b > c:
                return False
    return True


def held_ends(ns, ctl=64, downs=None):
    """from the property text: for each note (storage order) the time it must end at."""
    pedal = {}       # instrument -> [(time, is_release)] in effect order
    times = []
    for c in ns.control_changes:
        if c.control_number != ctl:
            continue
        pedal.setdefault(c.instrument, []).append((F(c.time), not c.control_value >= 64))
        times.append(F(c.time))
    for v in pedal.values():
        v.sort()         # at equal times a press (False) comes before a release (True)
    for n in ns.notes:
        if not n.is_drum:
            times += [F(n.start_time), F(n.end_time)]
    last = max(times) if times else F(0)
    out = []
    if downs is None:
        downs = []
    for i, n in enumerate(ns.notes):
        end = F(n.end_time)
        if n.is_drum:
            out.append(end)
            downs.append(False)
            continue
        down = False
        for t, release in pedal.get(n.instrument, []):
            if t <= end:
                down = not release
        downs.append(down)
        if not down:
            out.append(end)
            continue
        until = [last]
        until += [t for t, release in pedal[n.instrument] if release and t > end]
        until += [F(m.start_time) for j, m in enumerate(ns.notes)
                  if j != i and not m.is_drum and m.instrument == n.instrument and m.pitch == n.pitch and F(m.start_time) >= end]
        out.append(min(until))
    return last, out


def hold_reasons(ns, ctl, want):
    """which clause of the statement decides each held note (evidence histogram only)."""
    f = set()
    downs = []
    last, _ = held_ends(ns, ctl, downs)
    for i, (n, w) in enumerate(zip(ns.notes, want)):
        end = F(n.end_time)
        if n.is_drum:
            continue
        rel = any(c.control_number == ctl and c.instrument == n.instrument and c.control_value < 64 and F(c.time) == w and w > end
                  for c in ns.control_changes)
        strike = any(j != i and not m.is_drum and m.instrument == n.instrument and m.pitch == n.pitch and F(m.start_time) == w and w >= end
                     for j, m in enumerate(ns.notes))
        if downs[i]:
            f.add('ends-with-pedal-down')
        if w != end:
            f.add('held')
            if rel:
                f.add('held-until-release')
            if strike:
                f.add('held-until-restrike')
            if w == last:
                f.add('held-until-last-event')
            if rel and strike:
                f.add('release-and-restrike-coincide')
        elif strike and downs[i]:
            f.add('restrike-exactly-at-note-end')
    return f


def _apply(sl, ctl, ns):
    try:
        return (sl.apply_sustain_control_changes(ns, ctl) if ctl != 64 else sl.apply_sustain_control_changes(ns)), None
    except Exception as e:  # pylint: disable=broad-except
        return None, e


def history(sl, ctl, ns, before, out, err):
    """"returns a copy": the result is a new object that shares nothing with the argument or with an
    earlier result, and the same call on the same (unchanged) argument gives the same answer again --
    also after the caller has used (modified in place) what the first call returned."""
    if out is ns:
        return 'the argument itself was returned, not a copy'
    first = out.SerializeToString(deterministic=True) if out is not None else None
    if out is not None:
        # the caller uses the result: every note and pedal event is changed in place, containers emptied
        for o in out.notes:
            o.end_time, o.start_time, o.pitch, o.instrument = o.end_time + 1.0, o.start_time + 0.5, (o.pitch + 1) % 128, (o.instrument + 1) % 1000
        for c in out.control_changes:
            c.time, c.control_value, c.instrument = c.time + 0.25, 127 - min(max(c.control_value, 0), 127), (c.instrument + 1) % 1000
        out.total_time += 3.0
        del out.notes[:]
        if ns.SerializeToString(deterministic=True) != before:
            return 'modifying the RESULT in place changed the argument (shared storage)'
    out2, err2 = _apply(sl, ctl, ns)
    if ns.SerializeToString(deterministic=True) != before:
        return 'input modified by the second call'
    if (err is None) != (err2 is None) or (err is not None and type(err) is not type(err2)):
        return 'same call twice: first %s, then %s' % (type(err).__name__ if err else 'a result', type(err2).__name__ if err2 else 'a result')
    if out2 is not None:
        if out2 is out or out2 is ns:
            return 'second call returned an object already handed out'
        if out2.SerializeToString(deterministic=True) != first:
            return 'same call twice on the same input: the second result differs from the first (after the first result was modified in place)'
    return None


def oracle_case(sl, ctl, ns, hist=True):
    """evaluate the property statement on the real code; returns (what fails | None, features)."""
    feats = set()
    before = ns.SerializeToString(deterministic=True)
    out, err = _apply(sl, ctl, ns)
    if ns.SerializeToString(deterministic=True) != before:
        return 'input modified', feats
    if hist:
        keep = None
        if out is not None:
            keep = type(ns)()
            keep.CopyFrom(out)
        r = history(sl, ctl, ns, before, out, err)
        if r:
            return r, feats
        feats.add('history:twice+result-modified-between')
        out = keep
    quantized = ns.quantization_info.steps_per_quarter > 0 or ns.quantization_info.steps_per_second > 0
    if quantized:
        feats.add('quantized-rejected')
        return (None if isinstance(err, sl.QuantizationStatusError) else
                'quantized input: expected QuantizationStatusError, got %s' % (type(err).__name__ if err else 'a result')), feats
    if not precondition(ns):
        feats.add('outside-precondition')
        return None, feats
    if err is not None:
        return 'unexpected %s: %s' % (type(err).__name__, err), feats
    last, want = held_ends(ns, ctl)
    if len(out.notes) != len(ns.notes):
        return 'number of notes changed: %d -> %d' % (len(ns.notes), len(out.notes)), feats
    for i, (n, o, w) in enumerate(zip(ns.notes, out.notes, want)):
        if F(o.end_time) != w:
            return 'note %d (inst %d pitch %d %r-%r%s) ends at %r, the pedal holds it until %r' % (
                i, n.instrument, n.pitch, n.start_time, n.end_time, ' drum' if n.is_drum else '', o.end_time, float(w)), feats
    feats |= hold_reasons(ns, ctl, want)
    chk = type(ns)()
    chk.CopyFrom(out)
    for n, o in zip(ns.notes, chk.notes):
        o.end_time = n.end_time
    chk.total_time = ns.total_time
    if chk.SerializeToString(deterministic=True) != before:
        return 'something other than note ends and total_time changed', feats
    pedal_down_events = any(c.control_number == ctl and c.control_value >= 64 for c in ns.control_changes)
    if not pedal_down_events:
        feats.add('no-pedal-down')
        if out.SerializeToString(deterministic=True) != before:
            return 'no pedal-down event, but the result differs from the input', feats
    if all(n.end_time <= ns.total_time for n in ns.notes):
        feats.add('total-covers-input')
        for o in out.notes:
            if o.end_time > out.total_time:
                return 'total_time %r no longer covers a note end %r' % (out.total_time, o.end_time), feats
    return None, feats


def features(ns, ctl, impl_line):
    """coincidences / branches the case exercises (for the evidence histogram)."""
    f = set()
    starts = {(n.instrument, n.start_time) for n in ns.notes if not n.is_drum}
    ends = {(n.instrument, n.end_time) for n in ns.notes if not n.is_drum}
    down = {}
    evs = sorted(((c.time, 0 if c.control_value >= 64 else 1, c.instrument, c.control_value)
                  for c in ns.control_changes if c.control_number == ctl))
    seen_t = {}
    for t, typ, inst, v in evs:
        if (inst, t) in ends:
            f.add('pedal@note-end')
        if (inst, t) in starts:
            f.add('pedal@note-start')
        if (inst, t) in seen_t and seen_t[(inst, t)] != typ:
            f.add('on+off-same-time')
        seen_t[(inst, t)] = typ
        if typ == 0 and down.get(inst):
            f.add('repeated-on')
        if typ == 1 and not down.get(inst):
            f.add('off-without-on')
        down[inst] = typ == 0
        if v in (63, 64):
            f.add('value-%d' % v)
        if v < 0 or v > 127:
            f.add('value-out-of-range')
    # near-coincidences: two events of one instrument less than 2 microseconds, but not zero, apart
    per = {}
    for n in ns.notes:
        if not n.is_drum:
            per.setdefault(n.instrument, []).extend([(n.start_time, 'note-on'), (n.end_time, 'note-off')])
    for t, typ, inst, v in evs:
        per.setdefault(inst, []).append((t, 'pedal-on' if typ == 0 else 'pedal-off'))
    for lst in per.values():
        lst.sort()
        for (t0, k0), (t1, k1) in zip(lst, lst[1:]):
            if t0 != t1 and t1 - t0 < 2e-6:
                f.add('near-coincident(<2us)')
                if k0 != k1:
                    f.add('near-coincident:' + '/'.join(sorted([k0, k1])))
                if t1 - t0 <= 4 * math.ulp(t1):
                    f.add('near-coincident(<=4ulp)')
                if round(t0, 6) == round(t1, 6) or round(t0, 3) == round(t1, 3) and t1 - t0 < 1e-6:
                    f.add('near-coincident:same-after-rounding')
    if any(n.pitch in (0, 127) for n in ns.notes):
        f.add('pitch-0-or-127')
    if any(t != 0 and (t < 1e-100 or t > 1e12) for lst in per.values() for t, _ in lst):
        f.add('extreme-times')
    if any(n.is_drum for n in ns.notes):
        f.add('drums')
    if any(c.control_number != ctl for c in ns.control_changes):
        f.add('other-controllers')
    if len({n.instrument for n in ns.notes}) > 1:
        f.add('multi-instrument')
    if any(n.start_time == n.end_time for n in ns.notes if not n.is_drum):
        f.add('zero-length-note')
    if ends & starts:
        f.add('end@start-same-instrument')
    if impl_line.startswith('err'):
        f.add('result:' + impl_line)
    else:
        f.add('result:ok')
        nout = int(impl_line.split()[11])
        if nout < len(ns.notes):
            f.add('note-deleted')
    return f


def _call(sl, ctl, ns):
    if ctl == 64:
        return nswire.result_line(sl.apply_sustain_control_changes, ns)
    return nswire.result_line(sl.apply_sustain_control_changes, ns, ctl)


def spec_line(ns, ctl):
    """what the Lean `spec` request must answer, computed by the independent Python oracle."""
    wf = all(n.is_drum or n.start_time <= n.end_time for n in ns.notes)
    last, want = held_ends(ns, ctl)
    return wf, precondition(ns), last, want


def shrink(sl, ctl, ns):
    """greedy minimisation of a failing input: drop notes / control changes / other containers while the
    oracle still reports a failure on the real code."""
    def fails(x):
        return oracle_case(sl, ctl, x)[0] is not None
    cur = type(ns)()
    cur.CopyFrom(ns)
    for f in ('tempos', 'time_signatures', 'key_signatures', 'text_annotations', 'pitch_bends', 'section_annotations',
              'section_groups', 'sequence_metadata', 'source_info', 'instrument_infos', 'part_infos', 'id', 'filename',
              'subsequence_info', 'ticks_per_quarter'):
        t = type(ns)()
        t.CopyFrom(cur)
        t.ClearField(f)
        if fails(t):
            cur = t
    changed = True
    while changed:
        changed = False
        for field in ('notes', 'control_changes'):
            k = 0
            while k < len(getattr(cur, field)):
                t = type(ns)()
                t.CopyFrom(cur)
                del getattr(t, field)[k]
                if fails(t):
                    cur, changed = t, True
                else:
                    k += 1
    return cur


def run(chk):
    import warnings
    warnings.filterwarnings('ignore')
    from absl import logging as absl_logging
    absl_logging.set_verbosity(absl_logging.ERROR)
    from note_seq import sequences_lib as sl
    generate(chk)
    chk.prove(MODULES, THEOREMS, [EXE], extra_trusted=[
        'protobuf semantics: deepcopy, repeated-field remove() and message == compare by value; object identity of repeated-field elements',
        'CPython list.sort stability and tuple comparison; float comparisons (no float arithmetic occurs in this operation)'])
    chk.rule = ('generated NoteSequences: "valid" = <=4 instruments, per (instrument,pitch) chains of non-overlapping notes over a small time pool '
                '(touching, zero-length, gaps), drums mixed in, pedal events (values 0/63/64/127/any, repeated ons, offs without on, other controllers, '
                'instruments without notes) on the notes\' own start/end times; "overlap" = overlapping / co-starting / identical same-pitch notes; '
                '"malformed" = reversed notes, negative times, controller values outside 0..127, quantized input, generic NSGen sequences. '
                'Each input goes through the real function and the compiled Lean model (whole result compared exactly) and through the '
                'independent oracle; the Lean specification is also compared with the oracle. '
                'non-trivial = distinct input on which at least one note end or total_time changed, or an error was raised')

    def batches():
        cs = [('corpus', obj.get('ctl', 64), nswire.decode(obj['sequence'])) for _, obj in corpus_cases(PID)]
        yield cs
        for stream, gen, n in (('valid', gen_valid, chk.n(4000, 120000)), ('overlap', gen_overlap, chk.n(2000, 60000)),
                               ('malformed', gen_malformed, chk.n(1000, 30000))):
            rng = chk.subrng(stream)
            done = 0
            while done < n:
                k = min(5000, n - done)
                yield [(stream,) + gen(rng) for _ in range(k)]
                done += k

    sampled = set()
    for cases in batches():
        reqs, impl = [], []
        for stream, ctl, ns in cases:
            enc = nswire.encode(ns)
            reqs.append('sustain %d %s' % (ctl, enc))
            impl.append(_call(sl, ctl, ns))
            reqs.append('spec %d %s' % (ctl, enc))
            wf, pre, last, want = spec_line(ns, ctl)
            impl.append('spec %s %s %s %d%s' % ('1' if wf else '0', '1' if pre else '0', rat(last), len(want),
                                                ''.join(' ' + rat(w) for w in want)))
        model = chk.driver(EXE, reqs)
        for i, (stream, ctl, ns) in enumerate(cases):
            a, b = impl[2 * i], model[2 * i]
            seq = reqs[2 * i].split(' ', 2)[2]
            changed = a.startswith('err') or a.split(' ', 1)[1] != seq
            chk.count(stream, reqs[2 * i][:3000], changed and b != 'bad-op', sorted(features(ns, ctl, a)))
            if a != b:
                chk.disagree(stream, {'ctl': ctl, 'sequence': seq}, a[:1500], b[:1500])
            # The Lean specification and the Python oracle must be the same reading of the statement.
            # Lean's NoSamePitchOverlap does not look at start<=end: that flag is compared on well-formed input only;
            # "another note" is by value in Lean and by position here: they coincide when the precondition holds
            # (then no two pitched notes are equal), so the held ends are compared there, `last` always.
            sa, sb = impl[2 * i + 1].split(), model[2 * i + 1].split()
            if sa[1] == '0':
                sa[2] = sb[2] = '-'
            if sa[1:3] != ['1', '1']:
                sa, sb = sa[:4], sb[:4]
            chk.count('spec-vs-oracle', None, False, 'held-ends-compared' if len(sa) > 4 else 'flags-and-last-only')
            if sa != sb:
                chk.disagree('spec-vs-oracle', {'ctl': ctl, 'sequence': seq}, ' '.join(sa)[:1500], ' '.join(sb)[:1500])
            if stream not in sampled and changed:
                sampled.add(stream)
                chk.sample({'stream': stream, 'request': reqs[2 * i][:400] + ' …', 'impl': a[:300] + ' …',
                            'model_equal': a == b, 'spec': model[2 * i + 1][:200]})
        # oracle on the implementation (independent of the model)
        for i, (stream, ctl, ns) in enumerate(cases):
            r, feats = oracle_case(sl, ctl, ns)
            chk.count('oracle', None, False, sorted(feats))
            if r:
                if len(chk.failures) < 3:
                    small = shrink(sl, ctl, ns)
                    r2 = oracle_case(sl, ctl, small)[0]
                    chk.fail(r2 or r, {'ctl': ctl, 'sequence': nswire.encode(small), 'shrunk_from': reqs[2 * i].split(' ', 2)[2]})
                else:
                    chk.fail(r, {'ctl': ctl, 'sequence': reqs[2 * i].split(' ', 2)[2]})
        if len(chk.failures) > 20:
            break


def replay(chk, obj):
    import warnings
    warnings.filterwarnings('ignore')
    from note_seq import sequences_lib as sl
    ctl = obj.get('ctl', 64)
    ns = nswire.decode(obj['sequence'])
    print('replay C14: %d notes, %d control changes, controller %d' % (len(ns.notes), len(ns.control_changes), ctl))
    r, feats = oracle_case(sl, ctl, ns)
    if 'outside-precondition' in feats:
        print('(input has overlapping same-pitch notes or reversed notes: outside the property\'s quantifier)')
    print('PROPERTY FAILS: %s' % r if r else 'property holds on this input')
    return 1 if r else 0
