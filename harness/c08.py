"""C08 — decoding the labels an encoder produced reconstructs the event sequence (DESIGN 6.8).

Correspondence: the real encoder/decoder classes of /repo against the compiled Lean model
(`drv_c08`), request by request, compared as exact strings.  Oracle: the property statement
evaluated directly on the real classes (written from the property text / docstrings)."""
import collections
import itertools

from harness.common import lean_int, lean_list, wl

PID = 'C08'
MODULES = ['NoteSeqVerif.Props.C08']
EXE = 'drv_c08'
THEOREMS = [
    'NSV.C08.lookback_decode_label',
    'NSV.C08.lookback_label_in_range',
    'NSV.C08.lookback_label_precedence',
    'NSV.C08.lookback_label_farthest',
    'NSV.C08.lookback_input_blocks',
    'NSV.C08.lookback_input_blocks_total',
    'NSV.C08.lookback_input_size_exact',
    'NSV.C08.counterBit_pm',
    'NSV.C08.repFlag_01',
    'NSV.C08.counterBit_testBit',
    'NSV.C08.oneHotVec_get',
    'NSV.C08.oneHotVec_count',
    'NSV.C08.oneHotVec_length',
    'NSV.C08.lookback_generation_loop_total',
    'NSV.C08.labels_to_num_steps_eq',
    'NSV.C08.lookback_roundtrip',
    'NSV.C08.onehot_decode_label',
    'NSV.C08.onehot_label_in_range',
    'NSV.C08.onehot_input_block',
    'NSV.C08.onehot_input_size_exact',
    'NSV.C08.onehot_index_input',
    'NSV.C08.onehot_generation_loop_total',
    'NSV.C08.encode_aligned',
    'NSV.C08.encode_total',
    'NSV.C08.lookback_encode_total',
    'NSV.C08.cond_input_size_exact',
    'NSV.C08.cond_encode_aligned',
    'NSV.C08.cond_encode_length_mismatch',
    'NSV.C08.keymelody_decode_label',
    'NSV.C08.keymelody_label_in_range',
    'NSV.C08.keymelody_label_precedence',
    'NSV.C08.keymelody_generation_loop_total',
    'NSV.C08.keymelody_input_size_exact',
    'NSV.C08.note_keys_wellformed',
    'NSV.C08.optimalNumSegments_divides',
    'NSV.C08.npInit_spec',
    'NSV.C08.noteperf_label_in_range',
    'NSV.C08.noteperf_decode_label',
    'NSV.C08.noteperf_encode_decode',
    'NSV.C08.noteperf_input_blocks',
    'NSV.C08.noteperf_num_steps',
    'NSV.C08.noteperf_generation_total',
    'NSV.C08.pianoroll_label_in_range',
    'NSV.C08.pianoroll_decode_label',
    'NSV.C08.pianoroll_encode_decode',
    'NSV.C08.pianoroll_input_size_exact',
    'NSV.C08.melody_valid',
    'NSV.C08.melody_decode_total',
    'NSV.C08.melody_lookback_decode_label',
    'NSV.C08.melody_lookback_generation_total',
    'NSV.C08.modulo_valid',
    'NSV.C08.modulo_decode_label',
    'NSV.C08.modulo_input_size_exact',
]


# ----------------------------------------------------------------------------- generated constants
def generate(chk):
    # the melody / performance one-hot instances are C09's source-regenerated definitions: refresh them too
    try:
        from harness import c09
        c09.generate(chk)
    except Exception as e:  # pylint: disable=broad-except
        chk.translit['C09 definitions used by C08'] = 'could not be regenerated: %s' % e
    from note_seq import constants as c, encoder_decoder as ed, performance_lib as pl
    from note_seq import performance_encoder_decoder as ped
    PE = pl.PerformanceEvent
    try:
        d = ped.NotePerformanceEventSequenceEncoderDecoder(num_velocity_bins=1, max_shift_steps=3, max_duration_steps=4)
        # default_event_label = _encode_event(default tuple) with per-segment sizes 2,2 and min pitch 0:
        # recover the literal (shift, pitch, velocity, duration) of the default event
        lab = d.default_event_label
        dflt = [lab[0] * d.shift_steps_per_segment + lab[1], lab[2], lab[3] + 1,
                lab[4] * d.duration_steps_per_segment + lab[5] + 1]
    except Exception as e:  # pylint: disable=broad-except
        chk.broken.append('generator:C08 (%s)' % e)
        return
    ints = [('MELODY_NO_EVENT', c.MELODY_NO_EVENT), ('MELODY_NOTE_OFF', c.MELODY_NOTE_OFF),
            ('NUM_SPECIAL_MELODY_EVENTS', c.NUM_SPECIAL_MELODY_EVENTS),
            ('MIN_MELODY_EVENT', c.MIN_MELODY_EVENT), ('MAX_MELODY_EVENT', c.MAX_MELODY_EVENT),
            ('MIN_MIDI_PITCH', c.MIN_MIDI_PITCH), ('MAX_MIDI_PITCH', c.MAX_MIDI_PITCH)]
    txt = '/-! GENERATED from /repo on every run by harness/c08.py — do not edit. -/\nnamespace NSV.C08.Gen\n'
    for k, v in ints:
        txt += 'def %s : Int := %s\n' % (k, lean_int(v))
    txt += 'def NOTES_PER_OCTAVE : Nat := %d\n' % c.NOTES_PER_OCTAVE
    txt += 'def DEFAULT_STEPS_PER_BAR : Int := %s\n' % lean_int(c.DEFAULT_STEPS_PER_BAR)
    txt += 'def DEFAULT_LOOKBACK_DISTANCES : List Int := %s\n' % lean_list(lean_int(x) for x in ed.DEFAULT_LOOKBACK_DISTANCES)
    txt += 'def NOTE_KEYS : List (List Nat) := %s\n' % lean_list(lean_list(str(x) for x in row) for row in c.NOTE_KEYS)
    for k in ('NOTE_ON', 'NOTE_OFF', 'TIME_SHIFT', 'VELOCITY', 'DURATION'):
        txt += 'def %s : Nat := %d\n' % (k, getattr(PE, k))
    txt += 'def MAX_NUM_VELOCITY_BINS : Int := %s\n' % lean_int(pl.MAX_NUM_VELOCITY_BINS)
    for k in ('MODULO_PITCH_ENCODER_WIDTH', 'MODULO_VELOCITY_ENCODER_WIDTH', 'MODULO_TIME_SHIFT_ENCODER_WIDTH'):
        txt += 'def %s : Int := %s\n' % (k, lean_int(getattr(ped, k)))
    txt += 'def NOTEPERF_DEFAULT_EVENT : List Int := %s\n' % lean_list(lean_int(x) for x in dflt)
    txt += 'end NSV.C08.Gen\n'
    chk.regenerate('NoteSeqVerif/Generated/C08.lean', txt)


# ----------------------------------------------------------------------------- real encoders
def _mods():
    from note_seq import encoder_decoder as ed, melody_encoder_decoder as med, performance_lib as pl
    from note_seq import performance_encoder_decoder as ped, pianoroll_encoder_decoder as pred
    return ed, med, pl, ped, pred


_TAB = {}


def tab_class():
    """a table-driven OneHotEncoding: events 0..k-1, encode = perm[e], variable step sizes.  The
    generic sequence encoders are parametric in the OneHotEncoding, so this is a legitimate instance."""
    if 'c' not in _TAB:
        ed = _mods()[0]

        class TabEncoding(ed.OneHotEncoding):
            def __init__(self, k, default, steps, perm):
                self.k, self.d, self.steps, self.perm = k, default, list(steps), list(perm)

            @property
            def num_classes(self):
                return self.k

            @property
            def default_event(self):
                return self.d

            def encode_event(self, event):
                if isinstance(event, bool) or not isinstance(event, int) or not 0 <= event < self.k:
                    raise ValueError('bad event %r' % (event,))
                return self.perm[event]

            def decode_event(self, index):
                if index not in self.perm:
                    raise ValueError('bad index %r' % (index,))
                return self.perm.index(index)

            def event_to_num_steps(self, event):
                return self.steps[event]
        _TAB['c'] = TabEncoding
    return _TAB['c']


def make_onehot(spec):
    ed, med, pl, ped, pred = _mods()
    if spec[0] == 'tab':
        return tab_class()(spec[1], spec[2], spec[3], spec[4])
    if spec[0] == 'mel':
        return med.MelodyOneHotEncoding(spec[1], spec[2])
    if spec[0] == 'perf':
        return ped.PerformanceOneHotEncoding(spec[1], spec[2], spec[3], spec[4])
    raise ValueError(spec)


def make_generic(onehot, kind):
    ed = _mods()[0]
    oh = make_onehot(onehot)
    if kind[0] == 'oh':
        return ed.OneHotEventSequenceEncoderDecoder(oh)
    if kind[0] == 'ohi':
        return ed.OneHotIndexEventSequenceEncoderDecoder(oh)
    return ed.LookbackEventSequenceEncoderDecoder(oh, list(kind[1]), kind[2])


def to_events(onehot, evs):
    """wire events -> what the real classes take"""
    if onehot[0] == 'perf':
        PE = _mods()[2].PerformanceEvent
        return [PE(t, v) for (t, v) in evs]
    return list(evs)


def spec_wire(onehot, kind):
    if onehot[0] == 'tab':
        s = 'tab %d %d %s %s' % (onehot[1], onehot[2], ' '.join(map(str, onehot[3])), ' '.join(map(str, onehot[4])))
    else:
        s = ' '.join(map(str, onehot))
    if kind[0] == 'lb':
        s += ' lb %s %d' % (wl(kind[1]), kind[2])
    else:
        s += ' ' + kind[0]
    return s


def evs_wire(onehot, evs):
    if onehot[0] == 'perf':
        return ' '.join([str(len(evs))] + ['%d %d' % (t, v) for (t, v) in evs])
    return wl(evs)


# ----------------------------------------------------------------------------- canonical strings
_F = {0.0: '0', 1.0: '1', -1.0: '-1'}


def fvec(v):
    v = list(v)
    if not v:
        return '[]'
    out = []
    for x in v:
        s = _F.get(x)
        if s is None:
            fx = float(x)
            s = str(int(fx)) if fx == int(fx) else repr(fx)
        out.append(s)
    return ','.join(out)


def sh_ev(onehot_kind, e):
    if onehot_kind == 'perf':
        return '%d:%d' % (e.event_type, e.event_value)
    return str(e)


def ex(f, show):
    try:
        return show(f())
    except Exception as e:  # pylint: disable=broad-except
        return '!' + type(e).__name__


def triple(enc, evs, p, show_ev, show_lab=str, show_in=fvec, cite_events=True):
    try:
        lab = enc.events_to_label(evs, p)
        ls = show_lab(lab)
        ds = ex(lambda: enc.class_index_to_event(lab, evs[:p] if cite_events else None), show_ev)
    except Exception as e:  # pylint: disable=broad-except
        ls, ds = '!' + type(e).__name__, '-'
    return ls + '|' + ds + '|' + ex(lambda: enc.events_to_input(evs, p), show_in)


def sh_encode(f, show_lab=str, show_in=fvec):
    try:
        ins, labs = f()
    except Exception as e:  # pylint: disable=broad-except
        return '!' + type(e).__name__
    return ' '.join([str(len(ins)), str(len(labs))] + [show_in(a) + '|' + show_lab(b) for a, b in zip(ins, labs)])


def gen_loop(enc, primer, labels, show_ev, extend=False):
    """the generation loop on the real encoder: class_index_to_event then append.  With extend=True it is
    driven through the real `extend_event_sequences` with a one-hot softmax (np.random.choice is then
    deterministic)."""
    def run():
        evs = list(primer)
        if extend:
            import numpy as np
            n = enc.num_classes
            for l in labels:
                sm = np.zeros((1, 1, n))
                sm[0][0][l] = 1.0
                chosen = enc.extend_event_sequences([evs], sm)
                assert list(chosen) == [l]
        else:
            for l in labels:
                evs.append(enc.class_index_to_event(l, evs))
        return evs
    return ex(run, lambda evs: ' '.join([str(len(evs))] + [show_ev(e) for e in evs]))


# ----------------------------------------------------------------------------- the oracle
class Bad(Exception):
    pass


BRANCH = collections.Counter()   # which label branches / boundary coincidences the valid streams actually hit


def note_branch(ds, evs, p, m, virtual):
    BRANCH['virtual-prehistory' if virtual else 'lookback-repeat' if m else 'plain-class'] += 1
    if len(set(m)) >= 2:
        BRANCH['two-or-more-lookbacks-match'] += 1
    if any(p == d for d in ds):
        BRANCH['position==distance'] += 1
    if any(p < d for d in ds):
        BRANCH['history-shorter-than-a-distance'] += 1


def need(cond, msg):
    if not cond:
        raise Bad(msg)


def expected_lookback_label(nplain, ds, evs, p, is_default, plain):
    """documented precedence, index form: the greatest lookback index whose distance matches (the last
    distance also matches a default event against the virtual all-default prehistory); plain class last."""
    m = [i for i, d in enumerate(ds) if p - d >= 0 and evs[p] == evs[p - d]]
    virtual = bool(ds and p < ds[-1] and is_default(evs[p]))
    if virtual:
        m.append(len(ds) - 1)
    note_branch(ds, evs, p, m, virtual)
    if m:
        return nplain + max(m), m
    return plain(evs[p]), m


def one_hot_block(v, lo, n, what):
    blk = list(v[lo:lo + n])
    need(len(blk) == n, '%s: block truncated' % what)
    need(sorted(blk) == [0.0] * (n - 1) + [1.0], '%s: not exactly one 1 (%r)' % (what, blk))
    return blk.index(1.0)


def oracle_generic(case):
    """property clauses for the one-hot / one-hot-index / lookback encoders on valid events"""
    onehot, kind = case['onehot'], case['kind']
    enc = make_generic(onehot, kind)
    oh = enc._one_hot_encoding  # pylint: disable=protected-access
    evs = to_events(onehot, case['events'])
    nc, isz, n1 = enc.num_classes, enc.input_size, oh.num_classes
    ds = list(kind[1]) if kind[0] == 'lb' else []
    for p in range(len(evs)):
        lab = enc.events_to_label(evs, p)
        need(isinstance(lab, int) and 0 <= lab < nc, 'label %r of position %d outside [0,%d)' % (lab, p, nc))
        dec = enc.class_index_to_event(lab, evs[:p])
        need(dec == evs[p], 'position %d: label %d decodes to %r, event is %r' % (p, lab, dec, evs[p]))
        exp, m = expected_lookback_label(n1, ds, evs, p, lambda e: e == oh.default_event, oh.encode_event)
        need(lab == exp, 'position %d: label %d, documented precedence selects %d' % (p, lab, exp))
        if m and all(a < b for a, b in zip(ds, ds[1:])):
            need(ds[lab - n1] == max(ds[i] for i in m), 'position %d: not the farthest matching lookback' % p)
        v = enc.events_to_input(evs, p)
        need(len(v) == isz, 'position %d: input has %d entries, input_size = %d' % (p, len(v), isz))
        if kind[0] == 'ohi':
            need(list(v) == [oh.encode_event(evs[p])], 'position %d: one-hot index input %r' % (p, v))
            continue
        need(one_hot_block(v, 0, n1, 'current-event block') == oh.encode_event(evs[p]), 'position %d: wrong current event' % p)
        if kind[0] == 'lb':
            for k, d in enumerate(ds):
                q = p - d + 1
                e = oh.default_event if q < 0 else evs[q]
                need(one_hot_block(v, (k + 1) * n1, n1, 'lookback block %d' % k) == oh.encode_event(e),
                     'position %d: lookback block %d encodes the wrong event' % (p, k))
            off = (len(ds) + 1) * n1
            for b in range(kind[2]):
                need(v[off + b] == (1.0 if ((p + 1) >> b) & 1 else -1.0), 'position %d: counter bit %d = %r' % (p, b, v[off + b]))
            off += kind[2]
            for k, d in enumerate(ds):
                need(v[off + k] == (1.0 if p - d >= 0 and evs[p] == evs[p - d] else 0.0), 'position %d: repeat flag %d' % (p, k))
    ins, labs = enc.encode(evs)
    need(len(ins) == len(labs) == max(len(evs) - 1, 0), 'encode returned %d inputs / %d labels for %d events' % (len(ins), len(labs), len(evs)))
    for i in range(len(ins)):
        need(list(ins[i]) == list(enc.events_to_input(evs, i)) and labs[i] == enc.events_to_label(evs, i + 1),
             'encode pair %d is not (input at %d, label at %d)' % (i, i, i + 1))
    labels = case.get('labels')
    if labels is not None:
        out = []
        for l in labels:
            e = enc.class_index_to_event(l, out)
            oh.encode_event(e)  # every generated event must be a valid event
            out.append(e)
        steps = enc.labels_to_num_steps(labels)
        need(steps == sum(oh.event_to_num_steps(e) for e in out), 'labels_to_num_steps = %r, generated sequence has %r steps'
             % (steps, sum(oh.event_to_num_steps(e) for e in out)))
        if case.get('extend') and kind[0] != 'ohi':
            # the real generation helper must do exactly "class_index_to_event against the history, then append"
            import numpy as np
            primer = evs[:case.get('primer', 0)]
            want, got = list(primer), list(primer)
            for l in labels:
                want.append(enc.class_index_to_event(l, want))
                sm = np.zeros((1, 1, nc))
                sm[0][0][l] = 1.0
                need(list(enc.extend_event_sequences([got], sm)) == [l], 'extend_event_sequences chose another class than the certain one')
            need(got == want, 'extend_event_sequences produced %r, decoding each label against its history gives %r' % (got, want))


def oracle_cond(case):
    ed = _mods()[0]
    c, t = case['control'], case['target']
    cenc, tenc = make_generic(c['onehot'], c['kind']), make_generic(t['onehot'], t['kind'])
    enc = ed.ConditionalEventSequenceEncoderDecoder(cenc, tenc)
    cev, tev = to_events(c['onehot'], case['control_events']), to_events(t['onehot'], case['events'])
    need(enc.input_size == cenc.input_size + tenc.input_size and enc.num_classes == tenc.num_classes, 'sizes')
    ins, labs = enc.encode(cev, tev)
    need(len(ins) == len(labs) == max(len(tev) - 1, 0), 'encode returned %d pairs for %d events' % (len(ins), len(tev)))
    for i in range(len(ins)):
        need(len(ins[i]) == enc.input_size, 'input %d has %d entries, input_size %d' % (i, len(ins[i]), enc.input_size))
        need(list(ins[i]) == list(cenc.events_to_input(cev, i + 1)) + list(tenc.events_to_input(tev, i)),
             'input %d is not control@%d ++ target@%d' % (i, i + 1, i))
        need(labs[i] == tenc.events_to_label(tev, i + 1), 'label %d is not the target label at %d' % (i, i + 1))
        need(enc.class_index_to_event(labs[i], tev[:i + 1]) == tev[i + 1], 'label %d does not decode to target event %d' % (i, i + 1))


def oracle_key(case):
    ed, med, pl, ped, pred = _mods()
    mn, mx, ds, bits = case['cfg']
    enc = med.KeyMelodyEncoderDecoder(mn, mx, list(ds), bits)
    evs = list(case['events'])
    nc, isz, rng_ = enc.num_classes, enc.input_size, mx - mn

    def plain(e):
        return rng_ + 1 if e == -1 else rng_ if e == -2 else e - mn
    for p in range(len(evs)):
        lab = enc.events_to_label(evs, p)
        need(isinstance(lab, int) and 0 <= lab < nc, 'label %r of position %d outside [0,%d)' % (lab, p, nc))
        dec = enc.class_index_to_event(lab, evs[:p])
        need(dec == evs[p], 'position %d: label %d decodes to %r, event is %r' % (p, lab, dec, evs[p]))
        exp, _ = expected_lookback_label(rng_ + 2, ds, evs, p, lambda e: e == -2, plain)
        need(lab == exp, 'position %d: label %d, documented precedence selects %d' % (p, lab, exp))
        v = enc.events_to_input(evs, p)
        need(len(v) == isz, 'position %d: input has %d entries, input_size = %d' % (p, len(v), isz))
    ins, labs = enc.encode(evs)
    need(len(ins) == len(labs) == max(len(evs) - 1, 0), 'encode returned %d pairs for %d events' % (len(ins), len(evs)))
    for i in range(len(ins)):
        need(list(ins[i]) == list(enc.events_to_input(evs, i)) and labs[i] == enc.events_to_label(evs, i + 1), 'encode pair %d misaligned' % i)
    labels = case.get('labels')
    if labels is not None:
        out = []
        for l in labels:
            e = enc.class_index_to_event(l, out)
            need(e in (-2, -1) or mn <= e < mx, 'generated event %r outside the melody range' % e)
            out.append(e)
        need(enc.labels_to_num_steps(labels) == len(out), 'labels_to_num_steps != generated length')


def np_events(pl, evs):
    PE = pl.PerformanceEvent
    return [(PE(PE.TIME_SHIFT, a), PE(PE.NOTE_ON, b), PE(PE.VELOCITY, c), PE(PE.DURATION, d)) for (a, b, c, d) in evs]


def oracle_np(case):
    ed, med, pl, ped, pred = _mods()
    bins, ms, md, lo, hi = case['cfg']
    enc = ped.NotePerformanceEventSequenceEncoderDecoder(bins, ms, md, lo, hi)
    need(enc.shift_steps_segments * enc.shift_steps_per_segment == ms + 1
         and enc.duration_steps_segments * enc.duration_steps_per_segment == md, 'segments x per-segment != steps')
    evs = np_events(pl, case['events'])
    ncs, isz = enc.num_classes, enc.input_size
    need(isz == sum(ncs), 'input_size')
    for p in range(len(evs)):
        lab = enc.events_to_label(evs, p)
        need(len(lab) == 6 and all(0 <= l < n for l, n in zip(lab, ncs)), 'label %r of position %d outside %r' % (lab, p, ncs))
        dec = enc.class_index_to_event(lab, evs[:p])
        need(dec == evs[p], 'position %d: label %r decodes to %r, event is %r' % (p, lab, dec, evs[p]))
        v = enc.events_to_input(evs, p)
        need(len(v) == isz, 'position %d: input has %d entries, input_size = %d' % (p, len(v), isz))
        off = 0
        for k, n in enumerate(ncs):
            need(one_hot_block(v, off, n, 'block %d' % k) == lab[k], 'position %d: block %d' % (p, k))
            off += n
    ins, labs = enc.encode(evs)
    need(len(ins) == len(labs) == max(len(evs) - 1, 0), 'encode returned %d pairs for %d events' % (len(ins), len(evs)))
    for i in range(len(ins)):
        need(list(ins[i]) == list(enc.events_to_input(evs, i)) and labs[i] == enc.events_to_label(evs, i + 1), 'encode pair %d misaligned' % i)
    labels = case.get('labels')
    if labels is not None:
        out = [enc.class_index_to_event(tuple(l), None) for l in labels]
        for l, e in zip(labels, out):
            need(tuple(enc.events_to_label([e], 0)) == tuple(l), 'label %r decodes to %r which encodes to something else' % (l, e))
        steps = sum(e[0].event_value for e in out) + (out[-1][3].event_value if out else 0)
        need(enc.labels_to_num_steps([tuple(l) for l in labels]) == steps, 'labels_to_num_steps != shifts + last duration')


def oracle_pr(case):
    ed, med, pl, ped, pred = _mods()
    n = case['n']
    enc = pred.PianorollEncoderDecoder(n)
    evs = [tuple(e) for e in case['events']]
    for p in range(len(evs)):
        lab = enc.events_to_label(evs, p)
        need(0 <= lab < enc.num_classes, 'label %r outside [0, 2^%d)' % (lab, n))
        need(enc.class_index_to_event(lab, evs[:p]) == evs[p], 'position %d: label %d does not decode to %r' % (p, lab, evs[p]))
        v = enc.events_to_input(evs, p)
        need(len(v) == enc.input_size, 'input size')
        need([i for i, x in enumerate(v) if x == 1.0] == list(evs[p]) and all(x in (0.0, 1.0) for x in v), 'position %d: input %r' % (p, list(v)))
    ins, labs = enc.encode(evs)
    need(len(ins) == len(labs) == max(len(evs) - 1, 0), 'encode length')
    for l in case.get('labels') or []:
        e = enc.class_index_to_event(l, [])
        need(list(e) == sorted(set(e)) and all(0 <= x < n for x in e), 'decoded event %r not a strictly increasing tuple below %d' % (e, n))
        need(enc.events_to_label([e], 0) == l, 'label %d decodes to %r which encodes to something else' % (l, e))
    if case.get('labels') is not None:
        need(enc.labels_to_num_steps(case['labels']) == len(case['labels']), 'labels_to_num_steps')


def oracle_mod(case):
    ed, med, pl, ped, pred = _mods()
    bins, ms = case['cfg']
    enc = ped.ModuloPerformanceEventSequenceEncoderDecoder(bins, ms)
    PE = pl.PerformanceEvent
    evs = [PE(t, v) for (t, v) in case['events']]
    for p in range(len(evs)):
        lab = enc.events_to_label(evs, p)
        need(0 <= lab < enc.num_classes, 'label %r outside [0,%d)' % (lab, enc.num_classes))
        need(enc.class_index_to_event(lab, evs[:p]) == evs[p], 'position %d: label %d does not decode to the event' % (p, lab))
        need(len(enc.events_to_input(evs, p)) == enc.input_size, 'input size')
    ins, labs = enc.encode(evs)
    need(len(ins) == len(labs) == max(len(evs) - 1, 0), 'encode length')
    labels = case.get('labels')
    if labels is not None:
        out = []
        for l in labels:
            out.append(enc.class_index_to_event(l, out))
        need(enc.labels_to_num_steps(labels) == sum(e.event_value for e in out if e.event_type == PE.TIME_SHIFT),
             'labels_to_num_steps != time shifts of the generated sequence')


ORACLES = {'g': oracle_generic, 'cond': oracle_cond, 'key': oracle_key, 'np': oracle_np, 'pr': oracle_pr, 'mod': oracle_mod}


def run_oracle(case):
    """None if the property holds on this (valid) case, else a description of the failure"""
    try:
        ORACLES[case['family']](case)
        return None
    except Bad as e:
        return str(e)
    except Exception as e:  # pylint: disable=broad-except
        return 'implementation raised %s: %s on a valid input' % (type(e).__name__, e)


# ----------------------------------------------------------------------------- generators
def rand_dists(rng, maxd=12):
    k = rng.random()
    if k < 0.08:
        return []
    n = rng.choice([1, 1, 2, 2, 2, 3, 4])
    if k < 0.2:
        ds = [rng.randrange(1, maxd + 1) for _ in range(n)]          # duplicates allowed
    else:
        ds = rng.sample(range(1, maxd + 1), min(n, maxd))
    if rng.random() < 0.6:
        ds.sort()
    if rng.random() < 0.15:
        ds.append(rng.choice([50, 150, 1000]))                         # longer than any history
    if rng.random() < 0.1 and ds:
        ds.insert(0, rng.choice([50, 150]))                            # far distance first (unsorted)
    return ds


def rand_seq(rng, alphabet, default, ds, n):
    """structure-aware: copies from a lookback distance, runs of the default event, fresh symbols"""
    evs = []
    for p in range(n):
        k = rng.random()
        src = [d for d in ds if 0 < d <= p]
        if k < 0.45 and src:
            evs.append(evs[p - rng.choice(src)])
        elif k < 0.6:
            evs.append(default)
        else:
            evs.append(rng.choice(alphabet))
    return evs


def rand_len(rng):
    return rng.choice([0, 1, 2, 3, 5, 8, 13, 20, 40, 100, rng.randrange(0, 101)])


def rand_onehot(rng):
    k = rng.random()
    if k < 0.45:
        n = rng.choice([1, 2, 3, 3, 4, 6])
        perm = list(range(n))
        rng.shuffle(perm)
        oh = ['tab', n, rng.randrange(n), [rng.choice([0, 1, 1, 2, 5]) for _ in range(n)], perm]
        return oh, list(range(n)), oh[2]
    if k < 0.8:
        mn = rng.choice([0, 48, 60, rng.randrange(0, 120)])
        mx = rng.choice([128, mn + 1, mn + 12, rng.randrange(mn + 1, 129)])
        mx = min(max(mx, mn + 1), 128)
        pitches = rng.sample(range(mn, mx), min(mx - mn, rng.choice([1, 2, 4])))
        return ['mel', mn, mx], [-2, -1] + pitches + [mn, mx - 1], -2
    bins = rng.choice([0, 0, 1, 8, 32, 127])
    ms = rng.choice([1, 2, 10, 100])
    lo = rng.choice([0, 21, 60])
    hi = rng.choice([lo, lo + 5, 108, 127])
    alpha = [(1, lo), (1, hi), (2, lo), (2, hi), (3, 1), (3, ms)] + ([(4, 1), (4, bins)] if bins else [])
    return ['perf', bins, ms, lo, hi], alpha, (3, ms)


def rand_kind(rng):
    k = rng.random()
    if k < 0.15:
        return ['oh']
    if k < 0.25:
        return ['ohi']
    return ['lb', rand_dists(rng), rng.choice([0, 1, 3, 5, 7])]


def rand_generic(rng, with_labels=True):
    oh, alpha, dflt = rand_onehot(rng)
    kind = rand_kind(rng)
    ds = kind[1] if kind[0] == 'lb' else []
    evs = rand_seq(rng, alpha, dflt, ds, rand_len(rng))
    case = {'family': 'g', 'onehot': oh, 'kind': kind, 'events': evs}
    if with_labels:
        nc = make_generic(oh, kind).num_classes
        n1 = nc - len(ds)
        case['labels'] = [rng.randrange(n1, nc) if (ds and rng.random() < 0.5) else rng.randrange(nc)
                          for _ in range(rng.choice([0, 1, 2, 5, 20, 60]))]
    return case


# ----------------------------------------------------------------------------- requests per case
def generic_requests(case, ops=('all', 'encode', 'sizes', 'gen')):
    """[(request line, impl answer)] for a generic case"""
    oh, kind = case['onehot'], case['kind']
    enc = make_generic(oh, kind)
    evs = to_events(oh, case['events'])
    spec = 'g ' + spec_wire(oh, kind)
    show = lambda e: sh_ev(oh[0], e)  # noqa: E731
    out = []
    if 'all' in ops:
        out.append(('%s all %s' % (spec, evs_wire(oh, case['events'])),
                    ' '.join(triple(enc, evs, p, show) for p in range(len(evs)))))
    if 'encode' in ops:
        out.append(('%s encode %s' % (spec, evs_wire(oh, case['events'])), sh_encode(lambda: enc.encode(evs))))
    if 'sizes' in ops:
        out.append(('%s sizes' % spec, '%d %d %s' % (enc.input_size, enc.num_classes, ex(lambda: enc.default_event_label, str))))
    if 'gen' in ops and case.get('labels') is not None:
        labels = case['labels']
        primer = evs[:case.get('primer', 0)]
        out.append(('%s gen %s %s' % (spec, evs_wire(oh, case['events'][:len(primer)]), wl(labels)),
                    gen_loop(enc, primer, labels, show, extend=case.get('extend', False)) + ' | '
                    + ex(lambda: enc.labels_to_num_steps(labels), str)))
    return out


def key_requests(case, ops=('all', 'encode', 'sizes', 'gen')):
    med = _mods()[1]
    mn, mx, ds, bits = case['cfg']
    enc = med.KeyMelodyEncoderDecoder(mn, mx, list(ds), bits)
    evs = list(case['events'])
    spec = 'key %d %d %s %d' % (mn, mx, wl(ds), bits)
    out = []
    if 'all' in ops:
        out.append(('%s all %s' % (spec, wl(evs)), ' '.join(triple(enc, evs, p, str) for p in range(len(evs)))))
    if 'encode' in ops:
        out.append(('%s encode %s' % (spec, wl(evs)), sh_encode(lambda: enc.encode(evs))))
    if 'sizes' in ops:
        out.append(('%s sizes' % spec, '%d %d %d' % (enc.input_size, enc.num_classes, enc.default_event_label)))
    if 'gen' in ops and case.get('labels') is not None:
        labels = case['labels']
        out.append(('%s gen 0 %s' % (spec, wl(labels)),
                    gen_loop(enc, [], labels, str) + ' | ' + ex(lambda: enc.labels_to_num_steps(labels), str)))
    return out


def sh_np_ev(e):
    return ':'.join(str(x.event_value) for x in e)


def sh_lab6(l):
    return ':'.join(str(int(x)) for x in l)


def np_requests(case):
    ed, med, pl, ped, pred = _mods()
    bins, ms, md, lo, hi = case['cfg']
    spec = 'np %d %d %d %d %d' % (bins, ms, md, lo, hi)
    try:
        enc = ped.NotePerformanceEventSequenceEncoderDecoder(bins, ms, md, lo, hi)
    except Exception as e:  # pylint: disable=broad-except
        return [(spec + ' init', '!' + type(e).__name__)]
    out = [(spec + ' init', '%d %d %d %d %s %d' % (enc.shift_steps_segments, enc.shift_steps_per_segment, enc.duration_steps_segments,
                                                   enc.duration_steps_per_segment, wl(enc.num_classes), enc.input_size))]
    raw = case['events']
    evs = np_events(pl, raw)
    evw = ' '.join([str(len(raw))] + ['%d %d %d %d' % tuple(e) for e in raw])
    out.append(('%s all %s' % (spec, evw), ' '.join(triple(enc, evs, p, sh_np_ev, sh_lab6, cite_events=False) for p in range(len(evs)))))
    out.append(('%s encode %s' % (spec, evw), sh_encode(lambda: enc.encode(evs), sh_lab6)))
    labels = case.get('labels')
    if labels is not None:
        def gen():
            return [enc.class_index_to_event(tuple(l), None) for l in labels]
        out.append(('%s steps %s' % (spec, ' '.join([str(len(labels))] + [' '.join(map(str, l)) for l in labels])),
                    ex(lambda: enc.labels_to_num_steps([tuple(l) for l in labels]), str) + ' | '
                    + ex(gen, lambda es: ' '.join([str(len(es))] + [sh_np_ev(e) for e in es]))))
    for l in case.get('cites', []):
        out.append(('%s cite %s' % (spec, ' '.join(map(str, l))), ex(lambda l=l: enc.class_index_to_event(tuple(l), None), sh_np_ev)))
    return out


def sh_tuple(e):
    e = list(e)
    return ' '.join([str(len(e))] + [str(int(x)) for x in e])


def pr_requests(case):
    pred = _mods()[4]
    n = case['n']
    enc = pred.PianorollEncoderDecoder(n)
    spec = 'pr %d' % n
    evs = [tuple(e) for e in case['events']]
    evw = ' '.join([str(len(evs))] + [wl(e) for e in evs])
    out = [('%s all %s' % (spec, evw), ' '.join(triple(enc, evs, p, sh_tuple) for p in range(len(evs)))),
           ('%s encode %s' % (spec, evw), sh_encode(lambda: enc.encode(evs)))]
    for l in case.get('cites', []):
        out.append(('%s cite %d' % (spec, l), ex(lambda l=l: enc.class_index_to_event(l, []), sh_tuple)))
    for e in case.get('raw_events', []):
        lab = ex(lambda e=e: enc.events_to_label([tuple(e)], 0), str) if all(x >= 0 for x in e) else '-'
        out.append(('%s ev %s' % (spec, wl(e)), lab + '|' + ex(lambda e=e: enc.events_to_input([tuple(e)], 0), fvec)))
    return out


def mod_cells(enc, v):
    """describe each slot of a modulo input by position: 0, 1 or the lookup-table entry it holds (never by
    comparing cos/sin values with a recomputation: the slot must hold the implementation's own table entry)"""
    m = enc._modulo_encoding  # pylint: disable=protected-access
    tables = [m._note_table, m._pitch_class_table, m._time_shift_table] + ([m._velocity_table] if hasattr(m, '_velocity_table') else [])
    v = list(v)
    out, i = [], 0
    # the valid bit is the only exact 1.0 that starts a block; blocks follow the event ranges
    widths = [w for (_, _, _, w) in m._event_ranges]
    starts, s = [], 0
    for w in widths:
        starts.append(s)
        s += w
    active = [k for k, st in enumerate(starts) if v[st] == 1.0]
    cells = ['0'] * len(v)
    for k in active:
        st = starts[k]
        cells[st] = '1'
        ty = m._event_ranges[k][0]
        pairs = [(0, st + 1), (1, st + 3)] if ty in (1, 2) else [((2 if ty == 3 else 3), st + 1)]
        for t, at in pairs:
            tb = tables[t]
            hit = [r for r in range(len(tb)) if v[at] == tb[r][0] and v[at + 1] == tb[r][1]]
            if hit:
                cells[at], cells[at + 1] = 't%d:%d:0' % (t, hit[0]), 't%d:%d:1' % (t, hit[0])
            else:
                cells[at], cells[at + 1] = repr(v[at]), repr(v[at + 1])
    for i, x in enumerate(v):
        if cells[i] == '0' and x != 0.0:
            cells[i] = repr(x)
    return ','.join(cells)


def mod_requests(case):
    ed, med, pl, ped, pred = _mods()
    bins, ms = case['cfg']
    enc = ped.ModuloPerformanceEventSequenceEncoderDecoder(bins, ms)
    PE = pl.PerformanceEvent
    evs = [PE(t, v) for (t, v) in case['events']]
    spec = 'mod %d %d' % (bins, ms)
    show = lambda e: '%d:%d' % (e.event_type, e.event_value)  # noqa: E731
    out = [(spec + ' sizes', '%d %d %s' % (enc.input_size, enc.num_classes, ex(lambda: enc.default_event_label, str))),
           ('%s all %s' % (spec, evs_wire(['perf'], case['events'])),
            ' '.join(triple(enc, evs, p, show, show_in=lambda v: mod_cells(enc, v)) for p in range(len(evs))))]
    labels = case.get('labels')
    if labels is not None:
        out.append(('%s gen %s' % (spec, wl(labels)), gen_loop(enc, [], labels, show) + ' | ' + ex(lambda: enc.labels_to_num_steps(labels), str)))
    return out


def cond_requests(case):
    ed = _mods()[0]
    c, t = case['control'], case['target']
    cenc, tenc = make_generic(c['onehot'], c['kind']), make_generic(t['onehot'], t['kind'])
    enc = ed.ConditionalEventSequenceEncoderDecoder(cenc, tenc)
    cev, tev = to_events(c['onehot'], case['control_events']), to_events(t['onehot'], case['events'])
    spec = 'cond %s %s' % (spec_wire(c['onehot'], c['kind']), spec_wire(t['onehot'], t['kind']))
    sw = '%s %s' % (evs_wire(c['onehot'], case['control_events']), evs_wire(t['onehot'], case['events']))
    out = [('%s encode %s' % (spec, sw), sh_encode(lambda: enc.encode(cev, tev))),
           ('%s sizes %s' % (spec, sw), '%d %d %s' % (enc.input_size, enc.num_classes, ex(lambda: enc.default_event_label, str)))]
    for p in case.get('positions', []):
        out.append(('%s input %s %d' % (spec, sw, p), ex(lambda p=p: enc.events_to_input(cev, tev, p), fvec)))
    return out


REQUESTS = {'g': generic_requests, 'key': key_requests, 'np': np_requests, 'pr': pr_requests, 'mod': mod_requests,
            'cond': cond_requests}


# ----------------------------------------------------------------------------- more generators
def rand_key(rng):
    mn = rng.choice([0, 1, 48, 60, rng.randrange(0, 120)])
    mx = min(128, max(mn + 1, rng.choice([mn + 1, mn + 12, mn + 36, 128, rng.randrange(mn + 1, 129)])))
    ds = rand_dists(rng)
    bits = rng.choice([0, 1, 4, 7])
    pitches = rng.sample(range(mn, mx), min(mx - mn, rng.choice([1, 3, 6]))) + [mn, mx - 1]
    evs = rand_seq(rng, [-2, -1, -1] + pitches * 2, -2, ds, rand_len(rng))
    nc = mx - mn + 2 + len(ds)
    labels = [rng.randrange(nc - len(ds), nc) if (ds and rng.random() < 0.5) else rng.randrange(nc)
              for _ in range(rng.choice([0, 1, 3, 10, 40]))]
    return {'family': 'key', 'cfg': [mn, mx, ds, bits], 'events': evs, 'labels': labels}


def composite(rng, lo=4, hi=1200):
    while True:
        n = rng.choice([4, 6, 8, 9, 10, 12, 15, 16, 25, 49, 100, 121, 1000, 1001, rng.randrange(lo, hi)])
        if any(n % i == 0 for i in range(2, n)):
            return n


def rand_np(rng):
    ms, md = composite(rng) - 1, composite(rng)
    bins = rng.choice([1, 2, 8, 32, 127])
    lo = rng.choice([0, 21, 60])
    hi = rng.choice([lo, lo + 11, 108, 127])
    hi = max(lo, min(hi, 127))

    def ev():
        return [rng.choice([0, ms, rng.randrange(0, ms + 1)]), rng.choice([lo, hi, rng.randrange(lo, hi + 1)]),
                rng.choice([1, bins, rng.randrange(1, bins + 1)]), rng.choice([1, md, rng.randrange(1, md + 1)])]
    evs = [ev() for _ in range(rng.choice([0, 1, 2, 5, 12]))]
    return {'family': 'np', 'cfg': [bins, ms, md, lo, hi], 'events': evs, '_rng': None}


def np_labels(rng, case):
    ped = _mods()[3]
    enc = ped.NotePerformanceEventSequenceEncoderDecoder(*case['cfg'])
    ncs = enc.num_classes
    case['labels'] = [[rng.choice([0, n - 1, rng.randrange(n)]) for n in ncs] for _ in range(rng.choice([0, 1, 3, 8]))]
    case.pop('_rng', None)
    return case


def rand_pr(rng):
    n = rng.choice([0, 1, 2, 5, 8, 12, 88])
    evs = []
    for _ in range(rng.choice([0, 1, 2, 6])):
        evs.append(sorted(rng.sample(range(n), rng.randrange(0, min(n, 6) + 1))) if n else [])
    labels = [rng.choice([0, 2 ** n - 1, rng.randrange(2 ** n)]) for _ in range(rng.choice([0, 1, 4]))]
    return {'family': 'pr', 'n': n, 'events': evs, 'labels': labels, 'cites': labels}


def rand_mod(rng):
    bins = rng.choice([0, 0, 1, 8, 32, 127])
    ms = rng.choice([1, 2, 10, 100, 1000])
    alpha = [(1, 0), (1, 127), (2, 0), (2, 127), (1, rng.randrange(128)), (2, rng.randrange(128)), (3, 1), (3, ms),
             (3, rng.randrange(1, ms + 1))] + ([(4, 1), (4, bins), (4, rng.randrange(1, bins + 1))] if bins else [])
    evs = [rng.choice(alpha) for _ in range(rng.choice([0, 1, 3, 10, 30]))]
    nc = 256 + ms + bins
    labels = [rng.randrange(nc) for _ in range(rng.choice([0, 1, 5, 30]))]
    return {'family': 'mod', 'cfg': [bins, ms], 'events': evs, 'labels': labels}


def rand_cond(rng):
    coh, calpha, cd = rand_onehot(rng)
    toh, talpha, td = rand_onehot(rng)
    ck, tk = rand_kind(rng), rand_kind(rng)
    n = rng.choice([0, 1, 2, 3, 8, 20])
    cev = rand_seq(rng, calpha, cd, ck[1] if ck[0] == 'lb' else [], n)
    tev = rand_seq(rng, talpha, td, tk[1] if tk[0] == 'lb' else [], n)
    return {'family': 'cond', 'control': {'onehot': coh, 'kind': ck}, 'target': {'onehot': toh, 'kind': tk},
            'control_events': cev, 'events': tev, 'positions': [p for p in (0, n // 2, n - 2) if 0 <= p < n - 1]}


# ----------------------------------------------------------------------------- malformed stream
def malformed_requests(rng):
    """inputs outside the theorems' hypotheses: the model must still follow the code (same exception class)"""
    ed, med, pl, ped, pred = _mods()
    out = []
    k = rng.random()
    if k < 0.45:
        oh, alpha, dflt = rand_onehot(rng)
        kind = rand_kind(rng)
        if kind[0] == 'lb' and rng.random() < 0.5:
            kind = ['lb', [rng.choice([0, -1, -2, 1, 2, 3]) for _ in range(rng.choice([1, 2, 3]))], rng.choice([-1, 0, 2])]
        if oh[0] == 'tab' and rng.random() < 0.3:
            oh = list(oh)
            oh[4] = [rng.randrange(-oh[1], oh[1] + 2) for _ in range(oh[1])]     # not a permutation / out of range
        ds = kind[1] if kind[0] == 'lb' else []
        n = rng.choice([0, 1, 2, 4, 9])
        raw = rand_seq(rng, alpha, dflt, [d for d in ds if d > 0], n)
        bad_ev = {'tab': oh[1] + rng.choice([0, 1]) if rng.random() < 0.5 else -1, 'mel': rng.choice([-3, 128, oh[1] - 1 if oh[0] == 'mel' else 0, oh[2] if oh[0] == 'mel' else 0]),
                  'perf': (rng.choice([4, 5]), 1)}[oh[0]]
        if raw and rng.random() < 0.5:
            raw[rng.randrange(len(raw))] = bad_ev
        enc = make_generic(oh, kind)
        try:
            evs = to_events(oh, raw)
        except ValueError:
            return []
        spec = 'g ' + spec_wire(oh, kind)
        show = lambda e: sh_ev(oh[0], e)  # noqa: E731
        for p in {-n - 1, -n, -1, 0, n - 1, n, n + 3, rng.randrange(-3, n + 3)}:
            out.append(('%s pos %s %d' % (spec, evs_wire(oh, raw), p), triple(enc, evs, p, show)))
        nc = enc.num_classes
        for ci in {-1, 0, nc - 1, nc, nc + 1, rng.randrange(-2, nc + 3)}:
            out.append(('%s cite %s %d' % (spec, evs_wire(oh, raw), ci), ex(lambda ci=ci: enc.class_index_to_event(ci, evs), show)))
        out.append(('%s encode %s' % (spec, evs_wire(oh, raw)), sh_encode(lambda: enc.encode(evs))))
        labels = [rng.randrange(-1, nc + 2) for _ in range(rng.choice([1, 3, 6]))]
        out.append(('%s gen %s %s' % (spec, evs_wire(oh, raw), wl(labels)),
                    gen_loop(enc, evs, labels, show) + ' | ' + ex(lambda: enc.labels_to_num_steps(labels), str)))
    elif k < 0.7:
        case = rand_key(rng)
        mn, mx, ds, bits = case['cfg']
        if rng.random() < 0.4:
            ds = [rng.choice([0, -1, 1, 2]) for _ in range(rng.choice([1, 2]))]
        bits = rng.choice([bits, -1])
        raw = list(case['events'])[:12]
        n = len(raw)
        if raw and rng.random() < 0.6:
            raw[rng.randrange(n)] = rng.choice([-3, 128, mn - 1, mx, 0, 200])
        enc = med.KeyMelodyEncoderDecoder(mn, mx, list(ds), bits)
        spec = 'key %d %d %s %d' % (mn, mx, wl(ds), bits)
        for p in {-n - 1, -1, 0, n - 1, n, n + 2, rng.randrange(-3, n + 3)}:
            out.append(('%s pos %s %d' % (spec, wl(raw), p), triple(enc, raw, p, str)))
        nc = enc.num_classes
        for ci in {-1, nc, nc + 1, rng.randrange(-2, nc + 3)}:
            out.append(('%s cite %s %d' % (spec, wl(raw), ci), ex(lambda ci=ci: enc.class_index_to_event(ci, raw), str)))
        out.append(('%s encode %s' % (spec, wl(raw)), sh_encode(lambda: enc.encode(raw))))
    elif k < 0.85:
        # note-performance: prime / tiny step counts, out-of-range events and labels
        ms = rng.choice([0, 1, 2, 4, 6, 10, 12, 99, 3, 5])
        md = rng.choice([0, 1, 2, 3, 5, 7, 11, 13, 4, 6, 100])
        bins = rng.choice([0, 1, 8, 127, 128])
        lo, hi = rng.choice([(0, 127), (21, 108), (60, 59), (-3, 130)])
        evs = []
        for _ in range(rng.choice([1, 3])):
            ev = [rng.randrange(0, ms + 3), rng.randrange(max(lo, 0), min(hi, 127) + 1) if max(lo, 0) <= min(hi, 127) else 60,
                  rng.randrange(1, 128), rng.randrange(1, md + 3)]
            evs.append(ev)
        case = {'family': 'np', 'cfg': [bins, ms, md, lo, hi], 'events': evs}
        try:
            enc = ped.NotePerformanceEventSequenceEncoderDecoder(bins, ms, md, lo, hi)
            ncs = enc.num_classes
            case['cites'] = [[rng.randrange(-1, n + 2) for n in ncs] for _ in range(4)]
            case['labels'] = [[rng.randrange(0, n + 1) for n in ncs] for _ in range(2)]
        except Exception:  # pylint: disable=broad-except
            pass
        out += np_requests(case)
    else:
        n = rng.choice([0, 1, 3, 8])
        case = {'family': 'pr', 'n': n, 'events': [], 'cites': [-1, -2, 2 ** n, 2 ** n + 1, 2 ** n - 1, 0],
                'raw_events': [[rng.randrange(-n - 1, n + 2) for _ in range(rng.choice([1, 2, 3]))] for _ in range(4)] + [[0, 0] if n else []]}
        out += pr_requests(case)
        bins, ms = rng.choice([0, 8]), rng.choice([1, 10, 150])
        enc = ped.ModuloPerformanceEventSequenceEncoderDecoder(bins, ms)
        PE = pl.PerformanceEvent
        raw = [(3, ms + 1), (3, ms), (4, 1), (4, bins + 1), (5, 3), (1, 127)]
        evs = [PE(t, v) for (t, v) in raw]
        show = lambda e: '%d:%d' % (e.event_type, e.event_value)  # noqa: E731
        out.append(('mod %d %d all %s' % (bins, ms, evs_wire(['perf'], raw)),
                    ' '.join(triple(enc, evs, p, show, show_in=lambda v: mod_cells(enc, v)) for p in range(len(evs)))))
        nc = enc.num_classes
        labels = [rng.randrange(-1, nc + 2) for _ in range(4)]
        out.append(('mod %d %d gen %s' % (bins, ms, wl(labels)), gen_loop(enc, [], labels, show) + ' | ' + ex(lambda: enc.labels_to_num_steps(labels), str)))
    return out


# ----------------------------------------------------------------------------- exhaustive small scope
def dist_lists():
    return [[]] + [list(p) for r in (1, 2, 3) for p in itertools.permutations([1, 2, 3], r)]


def exhaustive_cases(maxlen):
    oh = ['tab', 3, 0, [1, 1, 1], [0, 1, 2]]
    for ds in dist_lists():
        kind = ['lb', ds, 2]
        for L in range(1, maxlen + 1):
            for evs in itertools.product(range(3), repeat=L):
                yield {'family': 'g', 'onehot': oh, 'kind': kind, 'events': list(evs)}


# ----------------------------------------------------------------------------- main
def case_key(case):
    return repr(sorted((k, v) for k, v in case.items() if not k.startswith('_')))


def hist_of(case):
    f = case['family']
    h = [f]
    if f == 'g':
        h = ['g:%s:%s' % (case['onehot'][0], case['kind'][0])]
        if case['kind'][0] == 'lb':
            ds = case['kind'][1]
            h.append('dists:' + ('empty' if not ds else 'ascending' if all(a < b for a, b in zip(ds, ds[1:])) else 'unsorted-or-dup'))
            if ds and max(ds) > len(case['events']):
                h.append('dist>len')
    if 'events' in case:
        n = len(case['events'])
        h.append('len:' + ('0' if n == 0 else '1' if n == 1 else '2-8' if n <= 8 else '9-40' if n <= 40 else '41-100'))
    return h


def run(chk):
    generate(chk)
    chk.prove(MODULES, THEOREMS, [EXE], extra_trusted=[
        'C09 theorems melody_encode_decode / melody_decode_encode (imported to discharge the OneHot hypotheses for the melody instance)',
        'cos/sin values of the modulo-performance input are not modelled (only slot positions and table rows)',
        'numpy semantics used by the encoders (np.hstack, fancy-index assignment, bincount) are modelled, not verified'])
    chk.rule = ('one evaluation = one (encoder configuration, event sequence[, label sequence]) request answered identically by the '
                'real classes and the Lean model: for every position the label, the label decoded against the prefix, and the '
                'full input vector; plus encode(), sizes and the generation loop. non-trivial = distinct request whose answer '
                'contains at least one non-error result')
    batch = []      # (stream, request, impl answer, case-or-None)

    def add_case(stream, case, oracle=True, **kw):
        try:
            reqs = REQUESTS[case['family']](case, **kw)
        except Exception as e:  # pylint: disable=broad-except
            # the harness itself could not drive the real code on a *valid* case: that is a property failure
            chk.fail('implementation raised %s: %s while being driven on a valid input' % (type(e).__name__, e), pub(case))
            return
        for (rq, ans) in reqs:
            batch.append((stream, rq, ans, case))
        if oracle:
            chk.count('oracle', None)
            bad = run_oracle(case)
            if bad:
                chk.fail(bad, pub(case))

    def flush():
        if not batch:
            return
        model = chk.driver(EXE, [b[1] for b in batch])
        for (stream, rq, ans, case), m in zip(batch, model):
            nontriv = any(not t.startswith('!') and t not in ('-', 'bad-op') for part in m.split() for t in part.split('|'))
            chk.count(stream, rq, nontrivial=nontriv, hist=(hist_of(case) if case else None))
            if ans != m:
                chk.disagree(stream, rq, first_diff(ans, m), first_diff(m, ans))
                if case is not None and stream != 'malformed':
                    bad = run_oracle(case)
                    if bad:
                        chk.fail(bad, pub(case))
            elif len(chk.samples) < 5 and len(rq) < 200 and nontriv and stream not in {s.get('stream') for s in chk.samples}:
                chk.sample({'stream': stream, 'request': rq, 'impl': ans[:300], 'model': m[:300]})
        del batch[:]

    # corpus first
    from harness.common import corpus_cases
    for name, obj in corpus_cases(PID):
        add_case('corpus', obj.get('input', obj))
    # fixed regression cases of the two repaired defects (F-C08-1 / F-C08-2) and docstring examples
    for case in fixed_cases():
        add_case('fixed', case)
    for e in chk.known:
        case = known_case(e)
        if case is not None:
            chk.count('known-findings', e['id'], True)
            bad = run_oracle(case)
            if bad:
                chk.fail('%s: %s' % (e['id'], bad), pub(case), finding=e['id'])
    flush()

    rng = chk.subrng('generic')
    for i in range(chk.n(250, 10000)):
        case = rand_generic(rng)
        if i % 7 == 0 and len(case.get('labels', [])) <= 20 and case['kind'][0] != 'ohi':
            case['extend'] = True
        if i % 5 == 0 and case['events']:
            case['primer'] = rng.randrange(len(case['events']) + 1)
        add_case('generic-random', case)
        if len(batch) > 4000:
            flush()
    flush()
    rng = chk.subrng('key')
    for _ in range(chk.n(120, 5000)):
        add_case('keymelody', rand_key(rng))
        if len(batch) > 2000:
            flush()
    flush()
    rng = chk.subrng('np')
    for _ in range(chk.n(150, 6000)):
        add_case('noteperf', np_labels(rng, rand_np(rng)))
    flush()
    rng = chk.subrng('pr')
    for _ in range(chk.n(150, 6000)):
        add_case('pianoroll', rand_pr(rng))
    flush()
    rng = chk.subrng('mod')
    for _ in range(chk.n(80, 3000)):
        add_case('modulo', rand_mod(rng))
    flush()
    rng = chk.subrng('cond')
    for _ in range(chk.n(120, 6000)):
        add_case('conditional', rand_cond(rng))
        if len(batch) > 3000:
            flush()
    flush()
    # conditional: unequal lengths must raise ValueError in both
    rng = chk.subrng('cond-bad')
    for _ in range(chk.n(20, 200)):
        case = rand_cond(rng)
        case['control_events'] = case['control_events'] + case['control_events'][:1] if case['control_events'] and rng.random() < 0.5 else case['control_events'][:-1] if case['control_events'] else case['control_events']
        case['positions'] = []
        add_case('malformed', case, oracle=False)
    rng = chk.subrng('malformed')
    for _ in range(chk.n(300, 12000)):
        reqs = malformed_requests(rng)
        for (rq, ans) in reqs:
            batch.append(('malformed', rq, ans, None))
        if len(batch) > 4000:
            flush()
    flush()
    # exhaustive small scope (property quantifier): all sequences over 3 symbols x lookbacks from {1,2,3}
    maxlen = chk.n(5, 8)
    chk.notes['exhaustive_scope'] = 'all sequences of length 1..%d over 3 symbols x %d distance lists (subsets and permutations of {1,2,3})' % (maxlen, len(dist_lists()))
    for case in exhaustive_cases(maxlen):
        add_case('lookback-exhaustive', case, ops=('all',))
        if len(batch) > 20000:
            flush()
    flush()
    chk.notes['label_branches_hit_by_valid_streams'] = dict(BRANCH)
    chk.exhaustive = chk.thorough


def first_diff(a, b):
    """shorten a long answer around the first difference with `b`"""
    if len(a) < 400:
        return a
    i = next((k for k in range(min(len(a), len(b))) if a[k] != b[k]), min(len(a), len(b)))
    return '…' + a[max(0, i - 150):i + 150] + '…'


def pub(case):
    return {k: v for k, v in case.items() if not k.startswith('_')}


def fixed_cases():
    tri = ['tab', 3, 0, [1, 1, 1], [0, 1, 2]]
    return [
        # F-C08-2 (fixed): KeyMelody with an empty lookback list
        {'family': 'key', 'cfg': [48, 84, [], 7], 'events': [60, -2, -2, -1, 62, 62], 'labels': [12, 36, 37, 0]},
        # F-C08-1 (fixed): NotePerformance labels_to_num_steps([])
        {'family': 'np', 'cfg': [32, 99, 100, 0, 127], 'events': [[0, 60, 1, 1], [99, 127, 32, 100]], 'labels': []},
        {'family': 'np', 'cfg': [32, 99, 100, 0, 127], 'events': [], 'labels': [[0, 0, 60, 0, 0, 0], [9, 9, 127, 31, 9, 9]]},
        # docstring configuration: 38 classes, lookbacks [16, 32], 5 counter bits
        {'family': 'g', 'onehot': ['mel', 48, 84], 'kind': ['lb', [16, 32], 5],
         'events': ([60, -2, -2, -2, 62, -2, -1, -2] * 2 + [-2] * 16) * 2 + [60, -2, 62], 'labels': [38, 39, 0, 1, 14, 39, 38]},
        {'family': 'g', 'onehot': tri, 'kind': ['lb', [3, 1], 3], 'events': [0, 0, 1, 1, 2, 0, 1, 1], 'labels': [3, 4, 4, 3, 1, 2, 3]},
        {'family': 'g', 'onehot': tri, 'kind': ['lb', [], 0], 'events': [0, 1, 2], 'labels': [0, 1, 2]},
        {'family': 'g', 'onehot': tri, 'kind': ['lb', [200], 3], 'events': [0, 0, 1, 0], 'labels': [3, 3, 1, 3]},
        {'family': 'key', 'cfg': [48, 84, [16, 32], 7], 'events': [-2] * 3 + [60, -2, 64, -1] + [-2] * 9 + [60, -2, 64, -1], 'labels': [39, 38, 36, 37, 0]},
        {'family': 'key', 'cfg': [0, 128, [2, 1], 3], 'events': [0, 0, -2, 0, 127, -1, -1], 'labels': [131, 130, 0, 127, 128, 129]},
    ]


def known_case(entry):
    """the concrete input a known_findings.json entry of C08 stands for"""
    m = entry.get('match', {})
    if m.get('labels') == [] and 'NotePerformance' in entry.get('what', ''):
        return {'family': 'np', 'cfg': [8, 1000, 1000, 0, 127], 'events': [], 'labels': []}
    if m.get('lookback_distances') == []:
        return {'family': 'key', 'cfg': [48, 84, [], 7], 'events': [60, -2, -2, -1, 62, -2], 'labels': [36, 37, 12]}
    return None


def replay(chk, obj):
    case = obj.get('input', obj)
    print('replay', case)
    if 'family' not in case:
        print('not a C08 case')
        return 0
    bad = run_oracle(case)
    print('PROPERTY FAILS: %s' % bad if bad else 'property holds on this input')
    return 1 if bad else 0
