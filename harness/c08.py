"""C08 — decoding the labels an encoder produced reconstructs the event sequence (DESIGN 6.8).

Correspondence: the real encoder/decoder classes of /repo against the compiled Lean model
(`drv_c08`), request by request, compared as exact strings.  Oracle: the property statement
evaluated directly on the real classes (written from the property text / docstrings)."""
import collections
import itertools

from harness.common import lean_int, lean_list, wl

PID = 'C08'
MODULES = ['NoteSeqVerif.Props.C08', 'NoteSeqVerif.Props.C08Wrap']
EXE = 'drv_c08'
THEOREMS = [
    'NSV.C08.lookback_decode_label',
    'NSV.C08.lookback_label_in_range',
    'NSV.C08.lookback_label_precedence',
    'NSV.C08.lookback_label_farthest',
    'NSV.C08.lookback_input_blocks',
    'NSV.C08.lookback_input_blocks_total',
    'NSV.C08.lookback_input_size_exact',
    'NSV.C08.counterBit_pm',
    'NSV.C08.repFlag_01',
    'NSV.C08.counterBit_testBit',
    'NSV.C08.oneHotVec_get',
    'NSV.C08.oneHotVec_count',
    'NSV.C08.oneHotVec_length',
    'NSV.C08.lookback_generation_loop_total',
    'NSV.C08.labels_to_num_steps_eq',
    'NSV.C08.lookback_roundtrip',
    'NSV.C08.onehot_decode_label',
    'NSV.C08.onehot_label_in_range',
    'NSV.C08.onehot_input_block',
    'NSV.C08.onehot_input_size_exact',
    'NSV.C08.onehot_index_input',
    'NSV.C08.onehot_generation_loop_total',
    'NSV.C08.encode_aligned',
    'NSV.C08.encode_total',
    'NSV.C08.lookback_encode_total',
    'NSV.C08.cond_input_size_exact',
    'NSV.C08.cond_encode_aligned',
    'NSV.C08.cond_encode_length_mismatch',
    'NSV.C08.keymelody_decode_label',
    'NSV.C08.keymelody_label_in_range',
    'NSV.C08.keymelody_label_precedence',
    'NSV.C08.keymelody_generation_loop_total',
    'NSV.C08.keymelody_input_size_exact',
    'NSV.C08.note_keys_wellformed',
    'NSV.C08.optimalNumSegments_divides',
    'NSV.C08.npInit_spec',
    'NSV.C08.noteperf_label_in_range',
    'NSV.C08.noteperf_decode_label',
    'NSV.C08.noteperf_encode_decode',
    'NSV.C08.noteperf_input_blocks',
    'NSV.C08.noteperf_num_steps',
    'NSV.C08.noteperf_generation_total',
    'NSV.C08.pianoroll_label_in_range',
    'NSV.C08.pianoroll_decode_label',
    'NSV.C08.pianoroll_encode_decode',
    'NSV.C08.pianoroll_input_size_exact',
    'NSV.C08.melody_valid',
    'NSV.C08.melody_decode_total',
    'NSV.C08.melody_lookback_decode_label',
    'NSV.C08.melody_lookback_generation_total',
    'NSV.C08.modulo_valid',
    'NSV.C08.modulo_decode_label',
    'NSV.C08.modulo_input_size_exact',
    # Props/C08Wrap.lean: the conditional wrapper (every public method), the base-class helpers, labels_to_num_steps
    'NSV.C08.conditional_labels_to_num_steps',
    'NSV.C08.conditional_events_to_label',
    'NSV.C08.conditional_class_index_to_event',
    'NSV.C08.conditional_num_classes',
    'NSV.C08.conditional_default_label',
    'NSV.C08.conditional_input_size',
    'NSV.C08.conditional_events_to_input',
    'NSV.C08.conditional_input_size_exact',
    'NSV.C08.conditional_encode_aligned',
    'NSV.C08.conditional_encode_length_mismatch',
    'NSV.C08.conditional_extend',
    'NSV.C08.conditional_extend_loop',
    'NSV.C08.conditional_inputs_batch',
    'NSV.C08.extend_spec',
    'NSV.C08.extend_loop_is_generation_loop',
    'NSV.C08.inputs_batch_full',
    'NSV.C08.inputs_batch_last',
    'NSV.C08.base_labels_to_num_steps',
    'NSV.C08.onehot_labels_to_num_steps',
    'NSV.C08.lookback_labels_to_num_steps',
    'NSV.C08.perf_event_num_steps',
    'NSV.C08.perf_labels_to_num_steps',
    'NSV.C08.modulo_labels_to_num_steps',
    'NSV.C08.modulo_decode_total',
    'NSV.C08.noteperf_labels_to_num_steps',
    'NSV.C08.conditional_lookback_decode_label',
    'NSV.C08.conditional_lookback_num_steps',
    'NSV.C08.conditional_onehot_num_steps',
    'NSV.C08.conditional_keymelody_num_steps',
]


# ----------------------------------------------------------------------------- generated constants
def generate(chk):
    # the melody / performance one-hot instances are C09's source-regenerated definitions: refresh them too
    try:
        from harness import c09
        c09.generate(chk)
    except Exception as e:  # pylint: disable=broad-except
        chk.translit['C09 definitions used by C08'] = 'could not be regenerated: %s' % e
    from note_seq import constants as c, encoder_decoder as ed, performance_lib as pl
    from note_seq import performance_encoder_decoder as ped
    PE = pl.PerformanceEvent
    try:
        d = ped.NotePerformanceEventSequenceEncoderDecoder(num_velocity_bins=1, max_shift_steps=3, max_duration_steps=4)
        # default_event_label = _encode_event(default tuple) with per-segment sizes 2,2 and min pitch 0:
        # recover the literal (shift, pitch, velocity, duration) of the default event
        lab = d.default_event_label
        dflt = [lab[0] * d.shift_steps_per_segment + lab[1], lab[2], lab[3] + 1,
                lab[4] * d.duration_steps_per_segment + lab[5] + 1]
    except Exception as e:  # pylint: disable=broad-except
        chk.broken.append('generator:C08 (%s)' % e)
        return
    ints = [('MELODY_NO_EVENT', c.MELODY_NO_EVENT), ('MELODY_NOTE_OFF', c.MELODY_NOTE_OFF),
            ('NUM_SPECIAL_MELODY_EVENTS', c.NUM_SPECIAL_MELODY_EVENTS),
            ('MIN_MELODY_EVENT', c.MIN_MELODY_EVENT), ('MAX_MELODY_EVENT', c.MAX_MELODY_EVENT),
            ('MIN_MIDI_PITCH', c.MIN_MIDI_PITCH), ('MAX_MIDI_PITCH', c.MAX_MIDI_PITCH)]
    txt = '/-! GENERATED from /repo on every run by harness/c08.py — do not edit. -/\nnamespace NSV.C08.Gen\n'
    for k, v in ints:
        txt += 'def %s : Int := %s\n' % (k, lean_int(v))
    txt += 'def NOTES_PER_OCTAVE : Nat := %d\n' % c.NOTES_PER_OCTAVE
    txt += 'def DEFAULT_STEPS_PER_BAR : Int := %s\n' % lean_int(c.DEFAULT_STEPS_PER_BAR)
    txt += 'def DEFAULT_LOOKBACK_DISTANCES : List Int := %s\n' % lean_list(lean_int(x) for x in ed.DEFAULT_LOOKBACK_DISTANCES)
    txt += 'def NOTE_KEYS : List (List Nat) := %s\n' % lean_list(lean_list(str(x) for x in row) for row in c.NOTE_KEYS)
    for k in ('NOTE_ON', 'NOTE_OFF', 'TIME_SHIFT', 'VELOCITY', 'DURATION'):
        txt += 'def %s : Nat := %d\n' % (k, getattr(PE, k))
    txt += 'def MAX_NUM_VELOCITY_BINS : Int := %s\n' % lean_int(pl.MAX_NUM_VELOCITY_BINS)
    for k in ('MODULO_PITCH_ENCODER_WIDTH', 'MODULO_VELOCITY_ENCODER_WIDTH', 'MODULO_TIME_SHIFT_ENCODER_WIDTH'):
        txt += 'def %s : Int := %s\n' % (k, lean_int(getattr(ped, k)))
    txt += 'def NOTEPERF_DEFAULT_EVENT : List Int := %s\n' % lean_list(lean_int(x) for x in dflt)
    txt += 'end NSV.C08.Gen\n'
    chk.regenerate('NoteSeqVerif/Generated/C08.lean', txt)


# ----------------------------------------------------------------------------- real encoders
def _mods():
    from note_seq import encoder_decoder as ed, melody_encoder_decoder as med, performance_lib as pl
    from note_seq import performance_encoder_decoder as ped, pianoroll_encoder_decoder as pred
    return ed, med, pl, ped, pred


_TAB = {}
BRANCH = collections.Counter()   # which label branches / boundary coincidences the valid streams actually hit


def tab_class():
    """a table-driven OneHotEncoding: events 0..k-1, encode = perm[e], variable step sizes.  The
    generic sequence encoders are parametric in the OneHotEncoding, so this is a legitimate instance."""
    if 'c' not in _TAB:
        ed = _mods()[0]

        class TabEncoding(ed.OneHotEncoding):
            def __init__(self, k, default, steps, perm):
                self.k, self.d, self.steps, self.perm = k, default, list(steps), list(perm)

            @property
            def num_classes(self):
                return self.k

            @property
            def default_event(self):
                return self.d

            def encode_event(self, event):
                if isinstance(event, bool) or not isinstance(event, int) or not 0 <= event < self.k:
                    raise ValueError('bad event %r' % (event,))
                return self.perm[event]

            def decode_event(self, index):
                if index not in self.perm:
                    raise ValueError('bad index %r' % (index,))
                return self.perm.index(index)

            def event_to_num_steps(self, event):
                return self.steps[event]
        _TAB['c'] = TabEncoding
    return _TAB['c']


# documented default arguments (signatures / docstrings of the encoder classes); a configuration whose trailing
# arguments equal them is constructed WITHOUT those arguments, so that the defaults themselves are exercised
# (the model always gets the explicit values)
LOOKBACK_DEFAULTS = [[16, 32], 5]          # LookbackEventSequenceEncoderDecoder(oh, lookback_distances=None -> [16, 32], 5)
KEYMELODY_DEFAULTS = [[16, 32], 7]         # KeyMelodyEncoderDecoder(min, max, lookback_distances=None -> [16, 32], 7)
PERF_ONEHOT_DEFAULTS = [0, 100, 0, 127]    # PerformanceOneHotEncoding(num_velocity_bins, max_shift_steps, min_pitch, max_pitch)
MODULO_DEFAULTS = [0, 100]                 # ModuloPerformanceEventSequenceEncoderDecoder(num_velocity_bins, max_shift_steps)
NOTEPERF_DEFAULTS = [1000, 1000, 0, 127]   # NotePerformance…(num_velocity_bins, max_shift_steps, max_duration_steps, min_pitch, max_pitch)
PIANOROLL_DEFAULTS = [88]                  # PianorollEncoderDecoder(input_size)


def ctor(cls, first, args, defaults):
    args, d = [list(a) if isinstance(a, (list, tuple)) else a for a in args], list(defaults)
    while d and args and args[-1] == d[-1]:
        args.pop()
        d.pop()
    if len(d) < len(defaults):
        BRANCH['constructed-with-default-arguments'] += 1
    return cls(*(list(first) + args))


CHORD_PCS = ['C', 'C#', 'D', 'Eb', 'E', 'F', 'F#', 'G', 'Ab', 'A', 'Bb', 'B']     # the documented class order (docstrings)


def chord_canon(which):
    """class index -> canonical figure, written down from the class docstrings: 0 no chord, 1-12 major, 13-24 minor,
    (triad encoding only) 25-36 augmented, 37-48 diminished"""
    out = ['N.C.'] + CHORD_PCS + [x + 'm' for x in CHORD_PCS]
    return out + ([x + 'aug' for x in CHORD_PCS] + [x + 'dim' for x in CHORD_PCS] if which == 'triad' else [])


def chord_tab(which):
    """the shipped chord one-hot encodings as an instance of the table model: events are the class numbers 0..n-1 standing
    for the canonical figures, so for the MODEL the encoding is the identity table ['tab', n, 0, [1]*n, [0..n-1]] while the
    REAL object delegates every encode_event / decode_event to the real MajorMinor / Triad encoding.  A chord encoding whose
    decode_event no longer inverts encode_event on some class (seed C08-18: label 12 decoded to 'Bm') then shows in every
    sequence encoder built on it."""
    from note_seq import chords_encoder_decoder as ced
    ed = _mods()[0]
    canon = chord_canon(which)
    real = ced.MajorMinorChordOneHotEncoding() if which == 'majmin' else ced.TriadChordOneHotEncoding()

    class ChordTab(ed.OneHotEncoding):
        @property
        def num_classes(self):
            return real.num_classes

        @property
        def default_event(self):
            return canon.index(real.default_event)

        def encode_event(self, event):
            if isinstance(event, bool) or not isinstance(event, int) or not 0 <= event < len(canon):
                raise ValueError('bad event %r' % (event,))
            return real.encode_event(fresh_copy(canon[event]))

        def decode_event(self, index):
            if isinstance(index, bool) or not 0 <= index < len(canon):
                raise ValueError('bad index %r' % (index,))
            return canon.index(real.decode_event(index))
    return ChordTab()


def fresh_copy(s):
    """an equal but not identical string (no interning): `is` tests against module constants must not pass by accident"""
    return ''.join(list(s))


def make_onehot(spec):
    ed, med, pl, ped, pred = _mods()
    if spec[0] == 'tab' and len(spec) > 5:
        return chord_tab(spec[5])
    if spec[0] == 'tab':
        return tab_class()(spec[1], spec[2], spec[3], spec[4])
    if spec[0] == 'mel':
        return med.MelodyOneHotEncoding(spec[1], spec[2])
    if spec[0] == 'perf':
        return ctor(ped.PerformanceOneHotEncoding, [], spec[1:5], PERF_ONEHOT_DEFAULTS)
    raise ValueError(spec)


def make_key(mn, mx, ds, bits):
    return ctor(_mods()[1].KeyMelodyEncoderDecoder, [mn, mx], [list(ds), bits], KEYMELODY_DEFAULTS)


def make_np(bins, ms, md, lo, hi):
    return ctor(_mods()[3].NotePerformanceEventSequenceEncoderDecoder, [bins], [ms, md, lo, hi], NOTEPERF_DEFAULTS)


def make_pr(n):
    return ctor(_mods()[4].PianorollEncoderDecoder, [], [n], PIANOROLL_DEFAULTS)


def make_mod(bins, ms):
    return ctor(_mods()[3].ModuloPerformanceEventSequenceEncoderDecoder, [], [bins, ms], MODULO_DEFAULTS)


def make_generic(onehot, kind):
    ed = _mods()[0]
    oh = make_onehot(onehot)
    if kind[0] == 'oh':
        return ed.OneHotEventSequenceEncoderDecoder(oh)
    if kind[0] == 'ohi':
        return ed.OneHotIndexEventSequenceEncoderDecoder(oh)
    return ctor(ed.LookbackEventSequenceEncoderDecoder, [oh], [list(kind[1]), kind[2]], LOOKBACK_DEFAULTS)


def to_events(onehot, evs):
    """wire events -> what the real classes take"""
    if onehot[0] == 'perf':
        PE = _mods()[2].PerformanceEvent
        return [PE(t, v) for (t, v) in evs]
    return list(evs)


def spec_wire(onehot, kind):
    if onehot[0] == 'tab':
        s = 'tab %d %d %s %s' % (onehot[1], onehot[2], ' '.join(map(str, onehot[3])), ' '.join(map(str, onehot[4])))
    else:
        s = ' '.join(map(str, onehot))
    if kind[0] == 'lb':
        s += ' lb %s %d' % (wl(kind[1]), kind[2])
    else:
        s += ' ' + kind[0]
    return s


def evs_wire(onehot, evs):
    if onehot[0] == 'perf':
        return ' '.join([str(len(evs))] + ['%d %d' % (t, v) for (t, v) in evs])
    return wl(evs)


# ----------------------------------------------------------------------------- canonical strings
_F = {0.0: '0', 1.0: '1', -1.0: '-1'}


def fvec(v):
    v = list(v)
    if not v:
        return '[]'
    out = []
    for x in v:
        s = _F.get(x)
        if s is None:
            fx = float(x)
            s = str(int(fx)) if fx == int(fx) else repr(fx)
        out.append(s)
    return ','.join(out)


def sh_ev(onehot_kind, e):
    if onehot_kind == 'perf':
        return '%d:%d' % (e.event_type, e.event_value)
    return str(e)


def ex(f, show):
    try:
        return show(f())
    except Exception as e:  # pylint: disable=broad-except
        return '!' + type(e).__name__


def triple(enc, evs, p, show_ev, show_lab=str, show_in=fvec, cite_events=True):
    try:
        lab = enc.events_to_label(evs, p)
        ls = show_lab(lab)
        ds = ex(lambda: enc.class_index_to_event(lab, evs[:p] if cite_events else None), show_ev)
    except Exception as e:  # pylint: disable=broad-except
        ls, ds = '!' + type(e).__name__, '-'
    return ls + '|' + ds + '|' + ex(lambda: enc.events_to_input(evs, p), show_in)


def sh_encode(f, show_lab=str, show_in=fvec):
    try:
        ins, labs = f()
    except Exception as e:  # pylint: disable=broad-except
        return '!' + type(e).__name__
    return ' '.join([str(len(ins)), str(len(labs))] + [show_in(a) + '|' + show_lab(b) for a, b in zip(ins, labs)])


def gen_loop(enc, primer, labels, show_ev, extend=False):
    """the generation loop on the real encoder: class_index_to_event then append.  With extend=True it is
    driven through the real `extend_event_sequences` with a one-hot softmax (np.random.choice is then
    deterministic)."""
    def run():
        evs = list(primer)
        if extend:
            import numpy as np
            n = enc.num_classes
            for l in labels:
                sm = np.zeros((1, 1, n))
                sm[0][0][l] = 1.0
                chosen = enc.extend_event_sequences([evs], sm)
                assert list(chosen) == [l]
        else:
            for l in labels:
                evs.append(enc.class_index_to_event(l, evs))
        return evs
    return ex(run, lambda evs: ' '.join([str(len(evs))] + [show_ev(e) for e in evs]))


# ----------------------------------------------------------------------------- the oracle
class Bad(Exception):
    pass




def note_branch(ds, evs, p, m, virtual):
    BRANCH['virtual-prehistory' if virtual else 'lookback-repeat' if m else 'plain-class'] += 1
    if len(set(m)) >= 2:
        BRANCH['two-or-more-lookbacks-match'] += 1
    if any(p == d for d in ds):
        BRANCH['position==distance'] += 1
    if any(p < d for d in ds):
        BRANCH['history-shorter-than-a-distance'] += 1


def need(cond, msg):
    if not cond:
        raise Bad(msg)


def expected_lookback_label(nplain, ds, evs, p, is_default, plain):
    """documented precedence, index form: the greatest lookback index whose distance matches (the last
    distance also matches a default event against the virtual all-default prehistory); plain class last."""
    m = [i for i, d in enumerate(ds) if p - d >= 0 and evs[p] == evs[p - d]]
    virtual = bool(ds and p < ds[-1] and is_default(evs[p]))
    if virtual:
        m.append(len(ds) - 1)
    note_branch(ds, evs, p, m, virtual)
    if m:
        return nplain + max(m), m
    return plain(evs[p]), m


def one_hot_block(v, lo, n, what):
    blk = list(v[lo:lo + n])
    need(len(blk) == n, '%s: block truncated' % what)
    need(sorted(blk) == [0.0] * (n - 1) + [1.0], '%s: not exactly one 1 (%r)' % (what, blk))
    return blk.index(1.0)


def oracle_generic(case):
    """property clauses for the one-hot / one-hot-index / lookback encoders on valid events"""
    onehot, kind = case['onehot'], case['kind']
    enc = make_generic(onehot, kind)
    oh = enc._one_hot_encoding  # pylint: disable=protected-access
    evs = to_events(onehot, case['events'])
    nc, isz, n1 = enc.num_classes, enc.input_size, oh.num_classes
    ds = list(kind[1]) if kind[0] == 'lb' else []
    need(nc >= n1 + len(ds), 'num_classes = %d: too few for %d event classes and %d lookbacks' % (nc, n1, len(ds)))
    for p in range(len(evs)):
        lab = enc.events_to_label(evs, p)
        need(isinstance(lab, int) and 0 <= lab < nc, 'label %r of position %d outside [0,%d)' % (lab, p, nc))
        dec = enc.class_index_to_event(lab, evs[:p])
        need(dec == evs[p], 'position %d: label %d decodes to %r, event is %r' % (p, lab, dec, evs[p]))
        exp, m = expected_lookback_label(n1, ds, evs, p, lambda e: e == oh.default_event, oh.encode_event)
        need(lab == exp, 'position %d: label %d, documented precedence selects %d' % (p, lab, exp))
        if m and all(a < b for a, b in zip(ds, ds[1:])):
            need(ds[lab - n1] == max(ds[i] for i in m), 'position %d: not the farthest matching lookback' % p)
        v = enc.events_to_input(evs, p)
        need(len(v) == isz, 'position %d: input has %d entries, input_size = %d' % (p, len(v), isz))
        if kind[0] == 'ohi':
            need(list(v) == [oh.encode_event(evs[p])], 'position %d: one-hot index input %r' % (p, v))
            need(enc.input_depth == n1 and 0 <= v[0] < enc.input_depth, 'position %d: index %r outside input_depth %r' % (p, v[0], enc.input_depth))
            continue
        need(one_hot_block(v, 0, n1, 'current-event block') == oh.encode_event(evs[p]), 'position %d: wrong current event' % p)
        if kind[0] == 'lb':
            for k, d in enumerate(ds):
                q = p - d + 1
                e = oh.default_event if q < 0 else evs[q]
                need(one_hot_block(v, (k + 1) * n1, n1, 'lookback block %d' % k) == oh.encode_event(e),
                     'position %d: lookback block %d encodes the wrong event' % (p, k))
            off = (len(ds) + 1) * n1
            for b in range(kind[2]):
                need(v[off + b] == (1.0 if ((p + 1) >> b) & 1 else -1.0), 'position %d: counter bit %d = %r' % (p, b, v[off + b]))
            off += kind[2]
            for k, d in enumerate(ds):
                need(v[off + k] == (1.0 if p - d >= 0 and evs[p] == evs[p - d] else 0.0), 'position %d: repeat flag %d' % (p, k))
    ins, labs = enc.encode(evs)
    need(len(ins) == len(labs) == max(len(evs) - 1, 0), 'encode returned %d inputs / %d labels for %d events' % (len(ins), len(labs), len(evs)))
    for i in range(len(ins)):
        need(list(ins[i]) == list(enc.events_to_input(evs, i)) and labs[i] == enc.events_to_label(evs, i + 1),
             'encode pair %d is not (input at %d, label at %d)' % (i, i, i + 1))
    labels = case.get('labels')
    if labels is not None:
        out = []
        for l in labels:
            e = enc.class_index_to_event(l, out)
            oh.encode_event(e)  # every generated event must be a valid event
            out.append(e)
        steps = enc.labels_to_num_steps(labels)
        need(steps == sum(oh.event_to_num_steps(e) for e in out), 'labels_to_num_steps = %r, generated sequence has %r steps'
             % (steps, sum(oh.event_to_num_steps(e) for e in out)))
        if case.get('extend') and kind[0] != 'ohi':
            # the real generation helper must do exactly "class_index_to_event against the history, then append"
            import numpy as np
            primer = evs[:case.get('primer', 0)]
            want, got = list(primer), list(primer)
            for l in labels:
                want.append(enc.class_index_to_event(l, want))
                sm = np.zeros((1, 1, nc))
                sm[0][0][l] = 1.0
                need(list(enc.extend_event_sequences([got], sm)) == [l], 'extend_event_sequences chose another class than the certain one')
            need(got == want, 'extend_event_sequences produced %r, decoding each label against its history gives %r' % (got, want))


def oracle_key(case):
    ed, med, pl, ped, pred = _mods()
    mn, mx, ds, bits = case['cfg']
    enc = make_key(mn, mx, ds, bits)
    evs = list(case['events'])
    nc, isz, rng_ = enc.num_classes, enc.input_size, mx - mn
    need(nc >= rng_ + 2 + len(ds), 'num_classes = %d: too few for %d pitches, no-event, note-off and %d lookbacks' % (nc, rng_, len(ds)))

    def plain(e):
        return rng_ + 1 if e == -1 else rng_ if e == -2 else e - mn
    for p in range(len(evs)):
        lab = enc.events_to_label(evs, p)
        need(isinstance(lab, int) and 0 <= lab < nc, 'label %r of position %d outside [0,%d)' % (lab, p, nc))
        dec = enc.class_index_to_event(lab, evs[:p])
        need(dec == evs[p], 'position %d: label %d decodes to %r, event is %r' % (p, lab, dec, evs[p]))
        exp, _ = expected_lookback_label(rng_ + 2, ds, evs, p, lambda e: e == -2, plain)
        need(lab == exp, 'position %d: label %d, documented precedence selects %d' % (p, lab, exp))
        v = enc.events_to_input(evs, p)
        need(len(v) == isz, 'position %d: input has %d entries, input_size = %d' % (p, len(v), isz))
    ins, labs = enc.encode(evs)
    need(len(ins) == len(labs) == max(len(evs) - 1, 0), 'encode returned %d pairs for %d events' % (len(ins), len(evs)))
    for i in range(len(ins)):
        need(list(ins[i]) == list(enc.events_to_input(evs, i)) and labs[i] == enc.events_to_label(evs, i + 1), 'encode pair %d misaligned' % i)
    labels = case.get('labels')
    if labels is not None:
        out = []
        for l in labels:
            e = enc.class_index_to_event(l, out)
            need(e in (-2, -1) or mn <= e < mx, 'generated event %r outside the melody range' % e)
            out.append(e)
        need(enc.labels_to_num_steps(labels) == len(out), 'labels_to_num_steps != generated length')


def np_events(pl, evs):
    PE = pl.PerformanceEvent
    return [(PE(PE.TIME_SHIFT, a), PE(PE.NOTE_ON, b), PE(PE.VELOCITY, c), PE(PE.DURATION, d)) for (a, b, c, d) in evs]


def oracle_np(case):
    ed, med, pl, ped, pred = _mods()
    bins, ms, md, lo, hi = case['cfg']
    enc = make_np(bins, ms, md, lo, hi)
    need(enc.shift_steps_segments * enc.shift_steps_per_segment == ms + 1
         and enc.duration_steps_segments * enc.duration_steps_per_segment == md, 'segments x per-segment != steps')
    evs = np_events(pl, case['events'])
    ncs, isz = enc.num_classes, enc.input_size
    need(isz == sum(ncs), 'input_size')
    for p in range(len(evs)):
        lab = enc.events_to_label(evs, p)
        need(len(lab) == 6 and all(0 <= l < n for l, n in zip(lab, ncs)), 'label %r of position %d outside %r' % (lab, p, ncs))
        dec = enc.class_index_to_event(lab, evs[:p])
        need(dec == evs[p], 'position %d: label %r decodes to %r, event is %r' % (p, lab, dec, evs[p]))
        v = enc.events_to_input(evs, p)
        need(len(v) == isz, 'position %d: input has %d entries, input_size = %d' % (p, len(v), isz))
        off = 0
        for k, n in enumerate(ncs):
            need(one_hot_block(v, off, n, 'block %d' % k) == lab[k], 'position %d: block %d' % (p, k))
            off += n
    # every event of the configuration needs a class: shifts 0..max_shift, pitches min_pitch..max_pitch (both ends),
    # velocity bins 1..bins, durations 1..max_duration
    need(len(ncs) == 6 and ncs[0] * ncs[1] >= ms + 1 and ncs[2] >= hi - lo + 1 and ncs[3] >= bins and ncs[4] * ncs[5] >= md,
         'num_classes %r has too few classes for shifts 0..%d / pitches %d..%d / %d velocity bins / durations 1..%d' % (list(ncs), ms, lo, hi, bins, md))
    ins, labs = enc.encode(evs)
    need(len(ins) == len(labs) == max(len(evs) - 1, 0), 'encode returned %d pairs for %d events' % (len(ins), len(evs)))
    for i in range(len(ins)):
        need(list(ins[i]) == list(enc.events_to_input(evs, i)) and labs[i] == enc.events_to_label(evs, i + 1), 'encode pair %d misaligned' % i)
    labels = case.get('labels')
    if labels is not None:
        out = [enc.class_index_to_event(tuple(l), None) for l in labels]
        for l, e in zip(labels, out):
            need(tuple(enc.events_to_label([e], 0)) == tuple(l), 'label %r decodes to %r which encodes to something else' % (l, e))
        steps = sum(e[0].event_value for e in out) + (out[-1][3].event_value if out else 0)
        need(enc.labels_to_num_steps([tuple(l) for l in labels]) == steps, 'labels_to_num_steps != shifts + last duration')


def oracle_pr(case):
    ed, med, pl, ped, pred = _mods()
    n = case['n']
    enc = make_pr(n)
    evs = [tuple(e) for e in case['events']]
    need(enc.input_size == n and enc.num_classes >= 2 ** n, 'input_size %r / num_classes %r for %d keys' % (enc.input_size, enc.num_classes, n))
    for p in range(len(evs)):
        lab = enc.events_to_label(evs, p)
        need(0 <= lab < enc.num_classes, 'label %r outside [0, 2^%d)' % (lab, n))
        need(enc.class_index_to_event(lab, evs[:p]) == evs[p], 'position %d: label %d does not decode to %r' % (p, lab, evs[p]))
        v = enc.events_to_input(evs, p)
        need(len(v) == enc.input_size, 'input size')
        need([i for i, x in enumerate(v) if x == 1.0] == list(evs[p]) and all(x in (0.0, 1.0) for x in v), 'position %d: input %r' % (p, list(v)))
    ins, labs = enc.encode(evs)
    need(len(ins) == len(labs) == max(len(evs) - 1, 0), 'encode length')
    for l in case.get('labels') or []:
        e = enc.class_index_to_event(l, [])
        need(list(e) == sorted(set(e)) and all(0 <= x < n for x in e), 'decoded event %r not a strictly increasing tuple below %d' % (e, n))
        need(enc.events_to_label([e], 0) == l, 'label %d decodes to %r which encodes to something else' % (l, e))
    if case.get('labels') is not None:
        need(enc.labels_to_num_steps(case['labels']) == len(case['labels']), 'labels_to_num_steps')


def oracle_mod(case):
    ed, med, pl, ped, pred = _mods()
    bins, ms = case['cfg']
    enc = make_mod(bins, ms)
    PE = pl.PerformanceEvent
    evs = [PE(t, v) for (t, v) in case['events']]
    need(enc.num_classes >= 256 + ms + bins, 'num_classes = %d: too few for 128 note-ons, 128 note-offs, %d shifts, %d velocity bins' % (enc.num_classes, ms, bins))
    for p in range(len(evs)):
        lab = enc.events_to_label(evs, p)
        need(0 <= lab < enc.num_classes, 'label %r outside [0,%d)' % (lab, enc.num_classes))
        need(enc.class_index_to_event(lab, evs[:p]) == evs[p], 'position %d: label %d does not decode to the event' % (p, lab))
        need(len(enc.events_to_input(evs, p)) == enc.input_size, 'input size')
    ins, labs = enc.encode(evs)
    need(len(ins) == len(labs) == max(len(evs) - 1, 0), 'encode length')
    labels = case.get('labels')
    if labels is not None:
        out = []
        for l in labels:
            out.append(enc.class_index_to_event(l, out))
        need(enc.labels_to_num_steps(labels) == sum(e.event_value for e in out if e.event_type == PE.TIME_SHIFT),
             'labels_to_num_steps != time shifts of the generated sequence')


ORACLES = {'g': oracle_generic, 'key': oracle_key, 'np': oracle_np, 'pr': oracle_pr, 'mod': oracle_mod}


def run_oracle(case):
    """None if the property holds on this (valid) case, else a description of the failure"""
    try:
        ORACLES[case['family']](case)
        return None
    except Bad as e:
        return str(e)
    except Exception as e:  # pylint: disable=broad-except
        return 'implementation raised %s: %s on a valid input' % (type(e).__name__, e)


# ----------------------------------------------------------------------------- generators
def rand_dists(rng, maxd=12):
    k = rng.random()
    if k < 0.08:
        return []
    if k > 0.93:
        return [16, 32]                                                  # the documented default distances
    n = rng.choice([1, 1, 2, 2, 2, 3, 4])
    if k < 0.2:
        ds = [rng.randrange(1, maxd + 1) for _ in range(n)]          # duplicates allowed
    else:
        ds = rng.sample(range(1, maxd + 1), min(n, maxd))
    if rng.random() < 0.6:
        ds.sort()
    if rng.random() < 0.15:
        ds.append(rng.choice([50, 150, 1000]))                         # longer than any history
    if rng.random() < 0.1 and ds:
        ds.insert(0, rng.choice([50, 150]))                            # far distance first (unsorted)
    return ds


def rand_seq(rng, alphabet, default, ds, n):
    """structure-aware: copies from a lookback distance, runs of the default event, fresh symbols"""
    evs = []
    for p in range(n):
        k = rng.random()
        src = [d for d in ds if 0 < d <= p]
        if k < 0.45 and src:
            evs.append(evs[p - rng.choice(src)])
        elif k < 0.6:
            evs.append(default)
        else:
            evs.append(rng.choice(alphabet))
    return evs


def rr(rng, n):
    """randrange that survives a class count of 0 (a mis-sized block must reach the oracle, not crash the generator)"""
    return rng.randrange(n) if n > 0 else 0


def edgy(rng, lo, hi):
    """a value of [lo, hi]: each end with probability 1/3"""
    return rng.choice([lo, hi, rng.randint(lo, hi)]) if lo <= hi else lo


MAJOR_SCALE = (0, 2, 4, 5, 7, 9, 11)


def key_pitches(rng, mn, mx, key):
    """the pitches of [mn, mx) that belong to the major scale of `key` (so that the key blocks of the key-melody
    input single out that key), both range ends first when they belong"""
    pcs = {(key + d) % 12 for d in MAJOR_SCALE}
    return [p for p in range(mn, mx) if p % 12 in pcs]


def pr_event(rng, n):
    """a pianoroll frame over keys 0..n-1: the lowest / highest key are often down, sometimes every key"""
    if not n:
        return []
    k = rng.random()
    if k > 0.95:
        return list(range(n))
    ev = set(rng.sample(range(n), rng.randrange(0, min(n, 6) + 1)))
    if k < 0.4:
        ev.add(n - 1)
    if 0.25 < k < 0.6:
        ev.add(0)
    return sorted(ev)


PR_SIZES = [0, 1, 2, 5, 8, 12, 63, 64, 65, 88, 88, 128]


def rand_len(rng):
    return rng.choice([0, 1, 2, 3, 5, 8, 13, 20, 40, 100, rng.randrange(0, 101)])


def rand_onehot(rng):
    k = rng.random()
    if k < 0.12:
        which = rng.choice(['majmin', 'triad'])
        n = 25 if which == 'majmin' else 49
        oh = ['tab', n, 0, [1] * n, list(range(n)), which]
        # alphabet: no chord, both ends of every block of twelve (C and B of each quality) and a few others
        alpha = sorted(set([0] + [b + o for b in range(1, n, 12) for o in (0, 11)] + rng.sample(range(n), 4)))
        return oh, alpha, 0
    if k < 0.45:
        n = rng.choice([1, 2, 3, 3, 4, 6])
        perm = list(range(n))
        rng.shuffle(perm)
        oh = ['tab', n, rng.randrange(n), [rng.choice([0, 1, 1, 2, 5]) for _ in range(n)], perm]
        return oh, list(range(n)), oh[2]
    if k < 0.8:
        mn = rng.choice([0, 48, 60, rng.randrange(0, 120)])
        mx = rng.choice([128, mn + 1, mn + 12, rng.randrange(mn + 1, 129)])
        mx = min(max(mx, mn + 1), 128)
        pitches = rng.sample(range(mn, mx), min(mx - mn, rng.choice([1, 2, 4])))
        return ['mel', mn, mx], [-2, -1] + pitches + [mn, mx - 1], -2
    bins = rng.choice([0, 0, 1, 8, 32, 127])
    ms = rng.choice([1, 2, 10, 100, 100])
    lo = rng.choice([0, 0, 21, 60, 127])
    hi = min(127, max(lo, rng.choice([lo, lo + 5, 108, 127, 127])))
    alpha = [(1, lo), (1, hi), (2, lo), (2, hi), (3, 1), (3, ms)] + ([(4, 1), (4, bins)] if bins else [])
    return ['perf', bins, ms, lo, hi], alpha, (3, ms)


def rand_kind(rng):
    k = rng.random()
    if k < 0.15:
        return ['oh']
    if k < 0.25:
        return ['ohi']
    return ['lb', rand_dists(rng), rng.choice([0, 1, 3, 5, 5, 7])]


def rand_generic(rng, with_labels=True):
    oh, alpha, dflt = rand_onehot(rng)
    kind = rand_kind(rng)
    ds = kind[1] if kind[0] == 'lb' else []
    evs = rand_seq(rng, alpha, dflt, ds, rand_len(rng))
    case = {'family': 'g', 'onehot': oh, 'kind': kind, 'events': evs}
    if with_labels:
        nc = make_generic(oh, kind).num_classes
        n1 = nc - len(ds)
        case['labels'] = [rng.randrange(n1, nc) if (ds and n1 < nc and rng.random() < 0.5) else rng.choice([0, nc - 1, rr(rng, nc), rr(rng, nc)])
                          for _ in range(rng.choice([0, 1, 2, 5, 20, 60]))]
    return case


# ----------------------------------------------------------------------------- requests per case
def generic_requests(case, ops=('all', 'encode', 'sizes', 'gen')):
    """[(request line, impl answer)] for a generic case"""
    oh, kind = case['onehot'], case['kind']
    enc = make_generic(oh, kind)
    evs = to_events(oh, case['events'])
    spec = 'g ' + spec_wire(oh, kind)
    show = lambda e: sh_ev(oh[0], e)  # noqa: E731
    out = []
    if 'all' in ops:
        out.append(('%s all %s' % (spec, evs_wire(oh, case['events'])),
                    ' '.join(triple(enc, evs, p, show) for p in range(len(evs)))))
    if 'encode' in ops:
        out.append(('%s encode %s' % (spec, evs_wire(oh, case['events'])), sh_encode(lambda: enc.encode(evs))))
    if 'sizes' in ops:
        out.append(('%s sizes' % spec, '%d %d %s' % (enc.input_size, enc.num_classes, ex(lambda: enc.default_event_label, str))))
        if kind[0] == 'ohi':
            # input_depth of the index encoder = length of the one-hot vector the model's one-hot encoder builds for
            # the same encoding (asked from the model as the input_size of the 'oh' variant)
            out.append(('g %s sizes' % spec_wire(oh, ['oh']), '%d %d %s' % (enc.input_depth, enc.num_classes, ex(lambda: enc.default_event_label, str))))
    if 'gen' in ops and case.get('labels') is not None:
        labels = case['labels']
        primer = evs[:case.get('primer', 0)]
        out.append(('%s gen %s %s' % (spec, evs_wire(oh, case['events'][:len(primer)]), wl(labels)),
                    gen_loop(enc, primer, labels, show, extend=case.get('extend', False)) + ' | '
                    + ex(lambda: enc.labels_to_num_steps(labels), str)))
    return out


def key_requests(case, ops=('all', 'encode', 'sizes', 'gen')):
    med = _mods()[1]
    mn, mx, ds, bits = case['cfg']
    enc = make_key(mn, mx, ds, bits)
    evs = list(case['events'])
    spec = 'key %d %d %s %d' % (mn, mx, wl(ds), bits)
    out = []
    if 'all' in ops:
        out.append(('%s all %s' % (spec, wl(evs)), ' '.join(triple(enc, evs, p, str) for p in range(len(evs)))))
    if 'encode' in ops:
        out.append(('%s encode %s' % (spec, wl(evs)), sh_encode(lambda: enc.encode(evs))))
    if 'sizes' in ops:
        out.append(('%s sizes' % spec, '%d %d %d' % (enc.input_size, enc.num_classes, enc.default_event_label)))
    if 'gen' in ops and case.get('labels') is not None:
        labels = case['labels']
        out.append(('%s gen 0 %s' % (spec, wl(labels)),
                    gen_loop(enc, [], labels, str) + ' | ' + ex(lambda: enc.labels_to_num_steps(labels), str)))
    return out


def sh_np_ev(e):
    return ':'.join(str(x.event_value) for x in e)


def sh_lab6(l):
    return ':'.join(str(int(x)) for x in l)


def np_requests(case):
    ed, med, pl, ped, pred = _mods()
    bins, ms, md, lo, hi = case['cfg']
    spec = 'np %d %d %d %d %d' % (bins, ms, md, lo, hi)
    try:
        enc = make_np(bins, ms, md, lo, hi)
    except Exception as e:  # pylint: disable=broad-except
        return [(spec + ' init', '!' + type(e).__name__)]
    out = [(spec + ' init', '%d %d %d %d %s %d' % (enc.shift_steps_segments, enc.shift_steps_per_segment, enc.duration_steps_segments,
                                                   enc.duration_steps_per_segment, wl(enc.num_classes), enc.input_size))]
    raw = case['events']
    evs = np_events(pl, raw)
    evw = ' '.join([str(len(raw))] + ['%d %d %d %d' % tuple(e) for e in raw])
    out.append(('%s all %s' % (spec, evw), ' '.join(triple(enc, evs, p, sh_np_ev, sh_lab6, cite_events=False) for p in range(len(evs)))))
    out.append(('%s encode %s' % (spec, evw), sh_encode(lambda: enc.encode(evs), sh_lab6)))
    labels = case.get('labels')
    if labels is not None:
        def gen():
            return [enc.class_index_to_event(tuple(l), None) for l in labels]
        out.append(('%s steps %s' % (spec, ' '.join([str(len(labels))] + [' '.join(map(str, l)) for l in labels])),
                    ex(lambda: enc.labels_to_num_steps([tuple(l) for l in labels]), str) + ' | '
                    + ex(gen, lambda es: ' '.join([str(len(es))] + [sh_np_ev(e) for e in es]))))
    for l in case.get('cites', []):
        out.append(('%s cite %s' % (spec, ' '.join(map(str, l))), ex(lambda l=l: enc.class_index_to_event(tuple(l), None), sh_np_ev)))
    return out


def sh_tuple(e):
    e = list(e)
    return ' '.join([str(len(e))] + [str(int(x)) for x in e])


def pr_requests(case):
    pred = _mods()[4]
    n = case['n']
    enc = make_pr(n)
    spec = 'pr %d' % n
    evs = [tuple(e) for e in case['events']]
    evw = ' '.join([str(len(evs))] + [wl(e) for e in evs])
    out = [('%s all %s' % (spec, evw), ' '.join(triple(enc, evs, p, sh_tuple) for p in range(len(evs)))),
           ('%s encode %s' % (spec, evw), sh_encode(lambda: enc.encode(evs)))]
    for l in case.get('cites', []):
        out.append(('%s cite %d' % (spec, l), ex(lambda l=l: enc.class_index_to_event(l, []), sh_tuple)))
    for e in case.get('raw_events', []):
        lab = ex(lambda e=e: enc.events_to_label([tuple(e)], 0), str) if all(x >= 0 for x in e) else '-'
        out.append(('%s ev %s' % (spec, wl(e)), lab + '|' + ex(lambda e=e: enc.events_to_input([tuple(e)], 0), fvec)))
    return out


def mod_cells(enc, v):
    """describe each slot of a modulo input by position: 0, 1 or the lookup-table entry it holds (never by
    comparing cos/sin values with a recomputation: the slot must hold the implementation's own table entry)"""
    m = enc._modulo_encoding  # pylint: disable=protected-access
    tables = [m._note_table, m._pitch_class_table, m._time_shift_table] + ([m._velocity_table] if hasattr(m, '_velocity_table') else [])
    v = list(v)
    out, i = [], 0
    # the valid bit is the only exact 1.0 that starts a block; blocks follow the event ranges
    widths = [w for (_, _, _, w) in m._event_ranges]
    starts, s = [], 0
    for w in widths:
        starts.append(s)
        s += w
    active = [k for k, st in enumerate(starts) if v[st] == 1.0]
    cells = ['0'] * len(v)
    for k in active:
        st = starts[k]
        cells[st] = '1'
        ty = m._event_ranges[k][0]
        pairs = [(0, st + 1), (1, st + 3)] if ty in (1, 2) else [((2 if ty == 3 else 3), st + 1)]
        for t, at in pairs:
            tb = tables[t]
            hit = [r for r in range(len(tb)) if v[at] == tb[r][0] and v[at + 1] == tb[r][1]]
            if hit:
                cells[at], cells[at + 1] = 't%d:%d:0' % (t, hit[0]), 't%d:%d:1' % (t, hit[0])
            else:
                cells[at], cells[at + 1] = repr(v[at]), repr(v[at + 1])
    for i, x in enumerate(v):
        if cells[i] == '0' and x != 0.0:
            cells[i] = repr(x)
    return ','.join(cells)


def mod_requests(case):
    ed, med, pl, ped, pred = _mods()
    bins, ms = case['cfg']
    enc = make_mod(bins, ms)
    PE = pl.PerformanceEvent
    evs = [PE(t, v) for (t, v) in case['events']]
    spec = 'mod %d %d' % (bins, ms)
    show = lambda e: '%d:%d' % (e.event_type, e.event_value)  # noqa: E731
    out = [(spec + ' sizes', '%d %d %s' % (enc.input_size, enc.num_classes, ex(lambda: enc.default_event_label, str))),
           ('%s all %s' % (spec, evs_wire(['perf'], case['events'])),
            ' '.join(triple(enc, evs, p, show, show_in=lambda v: mod_cells(enc, v)) for p in range(len(evs))))]
    labels = case.get('labels')
    if labels is not None:
        out.append(('%s gen %s' % (spec, wl(labels)), gen_loop(enc, [], labels, show) + ' | ' + ex(lambda: enc.labels_to_num_steps(labels), str)))
    return out


REQUESTS = {'g': generic_requests, 'key': key_requests, 'np': np_requests, 'pr': pr_requests, 'mod': mod_requests}


# ----------------------------------------------------------------------------- more generators
def rand_key(rng):
    mn = rng.choice([0, 1, 48, 60, rng.randrange(0, 120)])
    mx = min(128, max(mn + 1, rng.choice([mn + 1, mn + 12, mn + 36, 128, rng.randrange(mn + 1, 129)])))
    ds = rand_dists(rng)
    bits = rng.choice([0, 1, 4, 7, 7])
    pitches = rng.sample(range(mn, mx), min(mx - mn, rng.choice([1, 3, 6]))) + [mn, mx - 1]
    if rng.random() < 0.4:      # a melody inside one major key: 0, 11 or any (the key blocks of the input)
        inkey = key_pitches(rng, mn, mx, rng.choice([0, 11, rng.randrange(12)]))
        if inkey:
            pitches = rng.sample(inkey, min(len(inkey), rng.choice([2, 4, 7]))) + [inkey[0], inkey[-1]]
    evs = rand_seq(rng, [-2, -1, -1] + pitches * 2, -2, ds, rand_len(rng))
    nc = mx - mn + 2 + len(ds)
    labels = [rng.randrange(nc - len(ds), nc) if (ds and rng.random() < 0.5) else rng.choice([0, mx - mn - 1, nc - 1, rng.randrange(nc), rng.randrange(nc)])
              for _ in range(rng.choice([0, 1, 3, 10, 40]))]
    return {'family': 'key', 'cfg': [mn, mx, ds, bits], 'events': evs, 'labels': labels}


def composite(rng, lo=4, hi=1200):
    while True:
        n = rng.choice([4, 6, 8, 9, 10, 12, 15, 16, 25, 49, 100, 121, 1000, 1001, rng.randrange(lo, hi)])
        if any(n % i == 0 for i in range(2, n)):
            return n


def rand_np(rng):
    ms, md = composite(rng) - 1, composite(rng)
    bins = rng.choice([1, 2, 8, 32, 127])
    lo = rng.choice([0, 0, 21, 60, 127])
    hi = rng.choice([lo, lo + 11, 108, 127, 127])
    hi = max(lo, min(hi, 127))

    def ev():
        return [edgy(rng, 0, ms), edgy(rng, lo, hi), edgy(rng, 1, bins), edgy(rng, 1, md)]
    evs = [ev() for _ in range(rng.choice([0, 1, 2, 5, 12]))]
    if evs and rng.random() < 0.5:     # every end of every configured range at once: (max shift, top pitch, top bin, max duration)
        evs[rng.randrange(len(evs))] = [ms, hi, bins, md]
        evs[rng.randrange(len(evs))] = rng.choice([[0, lo, 1, 1], [ms, hi, bins, md]])
    return {'family': 'np', 'cfg': [bins, ms, md, lo, hi], 'events': evs, '_rng': None}


def np_labels(rng, case):
    ped = _mods()[3]
    enc = make_np(*case['cfg'])
    ncs = enc.num_classes
    case['labels'] = [[rng.choice([0, max(n - 1, 0), rr(rng, n)]) for n in ncs] for _ in range(rng.choice([0, 1, 3, 8]))]
    case.pop('_rng', None)
    return case


def rand_pr(rng):
    n = rng.choice(PR_SIZES)
    evs = [pr_event(rng, n) for _ in range(rng.choice([0, 1, 2, 6]))]
    labels = [rng.choice([0, 1 if n else 0, 2 ** n - 1, 2 ** (n - 1) if n else 0, rng.randrange(2 ** n)]) for _ in range(rng.choice([0, 1, 4]))]
    return {'family': 'pr', 'n': n, 'events': evs, 'labels': labels, 'cites': labels}


def rand_mod(rng):
    bins = rng.choice([0, 0, 1, 8, 32, 127])
    ms = rng.choice([1, 2, 10, 100, 1000])
    alpha = [(1, 0), (1, 127), (2, 0), (2, 127), (1, rng.randrange(128)), (2, rng.randrange(128)), (3, 1), (3, ms),
             (3, rng.randrange(1, ms + 1))] + ([(4, 1), (4, bins), (4, rng.randrange(1, bins + 1))] if bins else [])
    evs = [rng.choice(alpha) for _ in range(rng.choice([0, 1, 3, 10, 30]))]
    nc = 256 + ms + bins
    labels = [rng.randrange(nc) for _ in range(rng.choice([0, 1, 5, 30]))]
    return {'family': 'mod', 'cfg': [bins, ms], 'events': evs, 'labels': labels}


# ----------------------------------------------------------------------------- components: any encoder class
# a component spec is  ['g', onehot, kind] | ['key', mn, mx, dists, bits] | ['np', bins, ms, md, lo, hi] | ['pr', n] |
# ['mod', bins, ms]; the conditional wrapper and the base-class helpers are exercised over all of them
def comp_spec(x):
    """accept the old {'onehot':…, 'kind':…} form of the conditional cases too"""
    if isinstance(x, dict):
        return ['g', x['onehot'], x['kind']]
    return x


class Comp(object):
    def __init__(self, spec):
        ed, med, pl, ped, pred = _mods()
        self.spec = spec = comp_spec(spec)
        self.fam = fam = spec[0]
        self.pl = pl
        if fam == 'g':
            self.onehot, self.kind = spec[1], spec[2]
            self.enc = make_generic(self.onehot, self.kind)
            self.wire = 'g ' + spec_wire(self.onehot, self.kind)
            self.evkind = self.onehot[0]
        elif fam == 'key':
            self.enc = make_key(spec[1], spec[2], spec[3], spec[4])
            self.wire = 'key %d %d %s %d' % (spec[1], spec[2], wl(spec[3]), spec[4])
            self.evkind = 'int'
        elif fam == 'np':
            self.enc = make_np(*spec[1:])
            self.wire = 'np %d %d %d %d %d' % tuple(spec[1:])
            self.evkind = 'np'
        elif fam == 'pr':
            self.enc = make_pr(spec[1])
            self.wire = 'pr %d' % spec[1]
            self.evkind = 'pr'
        elif fam == 'mod':
            self.enc = make_mod(spec[1], spec[2])
            self.wire = 'mod %d %d' % (spec[1], spec[2])
            self.evkind = 'perf'
        else:
            raise ValueError(spec)

    # events
    def events(self, raw):
        k = self.evkind
        if k == 'perf':
            PE = self.pl.PerformanceEvent
            return [PE(t, v) for (t, v) in raw]
        if k == 'np':
            return np_events(self.pl, raw)
        if k == 'pr':
            return [tuple(e) for e in raw]
        return list(raw)

    def evs_wire(self, raw):
        k = self.evkind
        if k == 'perf':
            return ' '.join([str(len(raw))] + ['%d %d' % (t, v) for (t, v) in raw])
        if k == 'np':
            return ' '.join([str(len(raw))] + ['%d %d %d %d' % tuple(e) for e in raw])
        if k == 'pr':
            return ' '.join([str(len(raw))] + [wl(e) for e in raw])
        return wl(raw)

    def show_ev(self, e):
        k = self.evkind
        if k == 'perf':
            return '%d:%d' % (e.event_type, e.event_value)
        if k == 'np':
            return ':'.join(str(int(x.event_value)) for x in e)
        if k == 'pr':
            return sh_tuple(e)
        return str(e)

    # labels
    def labs_wire(self, labels):
        if self.fam == 'np':
            return ' '.join([str(len(labels))] + [' '.join(str(int(x)) for x in l) for l in labels])
        return wl(labels)

    def lab_wire(self, l):
        return ' '.join(str(int(x)) for x in l) if self.fam == 'np' else str(l)

    def show_lab(self, l):
        return sh_lab6(l) if self.fam == 'np' else str(l)

    def real_label(self, l):
        return tuple(l) if self.fam == 'np' else l

    def show_nc(self, nc):
        return wl(nc) if self.fam == 'np' else str(nc)

    def label_ok(self, l):
        nc = self.enc.num_classes
        if self.fam == 'np':
            return len(l) == 6 and all(0 <= a < n for a, n in zip(l, nc))
        return 0 <= l < nc

    # input vectors as a list of cell strings
    def cells(self, v):
        if self.fam == 'mod':
            return mod_cells(self.enc, v).split(',') if len(v) else []
        s = fvec(v)
        return [] if s == '[]' else s.split(',')

    # the steps of an event sequence, from what the events mean (not from the encoder)
    def seq_steps(self, evs):
        if self.fam == 'g' and self.onehot[0] == 'tab':
            return sum(self.onehot[3][e] for e in evs)
        if self.evkind == 'perf':
            PE = self.pl.PerformanceEvent
            return sum(e.event_value for e in evs if e.event_type == PE.TIME_SHIFT)
        if self.fam == 'np':
            return sum(e[0].event_value for e in evs) + (evs[-1][3].event_value if evs else 0)
        return len(evs)       # melody events and pianoroll frames: one step each

    def valid_event(self, e):
        """is `e` an event of this encoder's configuration (independent of the encoder)"""
        if self.fam == 'g':
            make_onehot(self.onehot).encode_event(e)
            return True
        if self.fam == 'key':
            return e in (-2, -1) or self.spec[1] <= e < self.spec[2]
        if self.fam == 'pr':
            return list(e) == sorted(set(e)) and all(0 <= x < self.spec[1] for x in e)
        return True


def shvec(cells):
    return ','.join(cells) if cells else '[]'


def extend_once(X, comp, evs, label):
    """one step of the generation loop through the real `extend_event_sequences` of X (an encoder or the
    conditional wrapper) with a certain draw; PianorollEncoderDecoder overrides extend_event_sequences with a
    sampler that takes pitch vectors, so its loop is class_index_to_event + append"""
    import numpy as np
    if comp.fam == 'pr':
        evs.append(X.class_index_to_event(label, evs))
        return
    if comp.fam == 'np':
        sm = []
        for l, n in zip(label, comp.enc.num_classes):
            a = np.zeros((1, 1, n))
            a[0][0][l] = 1.0
            sm.append(a)
        chosen = X.extend_event_sequences([evs], sm)
        if [int(x) for x in chosen[0]] != [int(x) for x in label]:
            raise Bad('extend_event_sequences chose %r, the certain class is %r' % (chosen, label))
        return
    sm = np.zeros((1, 1, comp.enc.num_classes))
    sm[0][0][label] = 1.0
    chosen = X.extend_event_sequences([evs], sm)
    if list(chosen) != [label]:
        raise Bad('extend_event_sequences chose %r, the certain class is %r' % (chosen, label))


def xgen_loop(X, comp, primer, labels):
    def run():
        evs = list(primer)
        for l in labels:
            extend_once(X, comp, evs, comp.real_label(l))
        return evs
    return ex(run, lambda evs: ' '.join([str(len(evs))] + [comp.show_ev(e) for e in evs]))


def sh_batch(batch, cells):
    return ' '.join([str(len(batch))] + [' '.join([str(len(sq))] + [shvec(cells(v)) for v in sq]) for sq in batch])


def cond_make(case):
    ed = _mods()[0]
    C, T = Comp(case['control']), Comp(case['target'])
    return C, T, ed.ConditionalEventSequenceEncoderDecoder(C.enc, T.enc)


def cond_cells(C, T, v):
    """the wrapper's input as cells: the first control.input_size entries belong to the control encoder"""
    v = list(v)
    k = C.enc.input_size
    if len(v) != k + T.enc.input_size:
        return ['?len%d' % len(v)] + [repr(x) for x in v]
    return C.cells(v[:k]) + T.cells(v[k:])


def cond_requests(case):
    C, T, W = cond_make(case)
    craw, traw = case['control_events'], case['events']
    cev, tev = C.events(craw), T.events(traw)
    spec = 'cond %s %s' % (C.wire, T.wire)
    sw = '%s %s' % (C.evs_wire(craw), T.evs_wire(traw))
    cells = lambda v: cond_cells(C, T, v)  # noqa: E731
    out = [('%s sizes' % spec, '%d %s %s' % (W.input_size, T.show_nc(W.num_classes), ex(lambda: W.default_event_label, T.show_lab)))]
    if True:     # every component class, incl. the two whose events_to_input returns a numpy array (F-C08-3, fixed)
        out.append(('%s encode %s' % (spec, sw), sh_encode(lambda: W.encode(cev, tev), T.show_lab, lambda v: shvec(cells(v)))))
        for p in case.get('positions', []):
            out.append(('%s input %s %d' % (spec, sw, p), ex(lambda p=p: W.events_to_input(cev, tev, p), lambda v: shvec(cells(v)))))
        for full, pairs in case.get('batches', []):
            cs, ts = [C.events(a) for a, _ in pairs], [T.events(b) for _, b in pairs]
            out.append(('%s batch %d %d %s %d %s' % (spec, full, len(pairs), ' '.join(C.evs_wire(a) for a, _ in pairs),
                                                    len(pairs), ' '.join(T.evs_wire(b) for _, b in pairs)),
                        ex(lambda cs=cs, ts=ts, full=full: W.get_inputs_batch(cs, ts, bool(full)), lambda b: sh_batch(b, cells))))
        for full, cs_raw, ts_raw in case.get('bad_batches', []):
            cs, ts = [C.events(a) for a in cs_raw], [T.events(b) for b in ts_raw]
            out.append(('%s batch %d %d %s %d %s' % (spec, full, len(cs_raw), ' '.join(C.evs_wire(a) for a in cs_raw),
                                                    len(ts_raw), ' '.join(T.evs_wire(b) for b in ts_raw)),
                        ex(lambda cs=cs, ts=ts, full=full: W.get_inputs_batch(cs, ts, bool(full)), lambda b: sh_batch(b, cells))))

    def labdec(p):
        try:
            lab = W.events_to_label(tev, p)
        except Exception as e:  # pylint: disable=broad-except
            return '!' + type(e).__name__ + '|-'
        return T.show_lab(lab) + '|' + ex(lambda: W.class_index_to_event(lab, tev[:p]), T.show_ev)
    out.append(('%s all %s' % (spec, T.evs_wire(traw)), ' '.join(labdec(p) for p in range(len(tev)))))
    for p in case.get('label_positions', []):
        out.append(('%s label %s %d' % (spec, T.evs_wire(traw), p), labdec(p)))
    labels = case.get('labels')
    if labels is not None:
        real = [T.real_label(l) for l in labels]
        out.append(('%s steps %s' % (spec, T.labs_wire(labels)), ex(lambda: W.labels_to_num_steps(real), str)))
        npr = case.get('primer', 0)
        if case.get('generate', True):
            out.append(('%s gen %s %s' % (spec, T.evs_wire(traw[:npr]), T.labs_wire(labels)),
                        xgen_loop(W, T, tev[:npr], labels) + ' | ' + ex(lambda: W.labels_to_num_steps(real), str)))
        for l in labels[:3]:
            out.append(('%s cite %s %s' % (spec, T.evs_wire(traw), T.lab_wire(l)),
                        ex(lambda l=l: W.class_index_to_event(T.real_label(l), tev), T.show_ev)))
    return out


def u_requests(case):
    X = Comp(case['comp'])
    enc = X.enc
    spec = 'u ' + X.wire
    cells = X.cells
    out = [('%s sizes' % spec, '%d %s %s' % (enc.input_size, X.show_nc(enc.num_classes), ex(lambda: enc.default_event_label, X.show_lab)))]
    for full, seqs in case.get('batches', []):
        real = [X.events(sq) for sq in seqs]
        out.append(('%s batch %d %d %s' % (spec, full, len(seqs), ' '.join(X.evs_wire(sq) for sq in seqs)),
                    ex(lambda real=real, full=full: enc.get_inputs_batch(real, bool(full)), lambda b: sh_batch(b, cells))))
    labels = case.get('labels')
    if labels is not None:
        real = [X.real_label(l) for l in labels]
        primer = case.get('primer', [])
        out.append(('%s xgen %s %s' % (spec, X.evs_wire(primer), X.labs_wire(labels)),
                    xgen_loop(enc, X, X.events(primer), labels) + ' | ' + ex(lambda: enc.labels_to_num_steps(real), str)))
        out.append(('%s steps %s' % (spec, X.labs_wire(labels)), ex(lambda: enc.labels_to_num_steps(real), str)))
    if 'events' in case:
        evs = X.events(case['events'])
        out.append(('%s encode %s' % (spec, X.evs_wire(case['events'])), sh_encode(lambda: enc.encode(evs), X.show_lab, lambda v: shvec(cells(v)))))
    return out


# ---- oracles (from the property text and the docstrings; nothing here looks at the model)
def check_generation(X, T, labels, primer, what):
    """consequence clause: in-range labels drive the generation loop (class_index_to_event then append) without
    error, every generated event is an event of the configuration, the library's own loop
    (extend_event_sequences) builds the same sequence, and labels_to_num_steps is the step count of the sequence
    generated from nothing"""
    real = [T.real_label(l) for l in labels]
    out = []
    for l in real:
        e = X.class_index_to_event(l, out)
        need(T.valid_event(e), '%s: generated event %r is not an event of the configuration' % (what, e))
        out.append(e)
    steps = X.labels_to_num_steps(real)
    need(steps == T.seq_steps(out), '%s: labels_to_num_steps = %r, the sequence generated from these labels has %r steps'
         % (what, steps, T.seq_steps(out)))
    want, got = list(primer), list(primer)
    for l in real:
        want.append(X.class_index_to_event(l, want))
        extend_once(X, T, got, l)
    need([T.show_ev(e) for e in got] == [T.show_ev(e) for e in want],
         '%s: extend_event_sequences built %r, decoding each label against its history gives %r' % (what, got, want))


def check_batch(get, to_input, pairs_len, full, input_size, what):
    """get_inputs_batch docstring: [len(seqs), len(seq), INPUT_SIZE] for full_length, else [len(seqs), 1, INPUT_SIZE]
    holding the input of the last event"""
    batch = get()
    need(len(batch) == len(pairs_len), '%s: batch has %d entries for %d sequences' % (what, len(batch), len(pairs_len)))
    for k, n in enumerate(pairs_len):
        pos = list(range(n)) if full else [n - 1]
        need(len(batch[k]) == len(pos), '%s: sequence %d has %d inputs, expected %d' % (what, k, len(batch[k]), len(pos)))
        for v, p in zip(batch[k], pos):
            need(len(v) == input_size, '%s: an input has %d entries, input_size = %d' % (what, len(v), input_size))
            need(list(v) == list(to_input(k, p)), '%s: input %d of sequence %d is not events_to_input at %d' % (what, p, k, p))


def oracle_cond(case):
    C, T, W = cond_make(case)
    cenc, tenc = C.enc, T.enc
    cev, tev = C.events(case['control_events']), T.events(case['events'])
    need(W.input_size == cenc.input_size + tenc.input_size, 'input_size is not control + target')
    need(W.num_classes == tenc.num_classes, 'num_classes is not the range of the target labels')
    need(T.show_lab(W.default_event_label) == T.show_lab(tenc.default_event_label), 'default_event_label is not the default target label')
    # per position: the label decoded against the target events before p is the target event at p, in range,
    # and it is the label the target encoding selects (its precedence is checked by the target's own oracle)
    for p in range(len(tev)):
        lab = W.events_to_label(tev, p)
        need(T.label_ok(lab), 'label %r of position %d outside num_classes %r' % (lab, p, W.num_classes))
        dec = W.class_index_to_event(lab, tev[:p])
        need(T.show_ev(dec) == T.show_ev(tev[p]), 'position %d: label %r decodes to %r, target event is %r' % (p, lab, dec, tev[p]))
        need(T.show_lab(lab) == T.show_lab(tenc.events_to_label(tev, p)), 'position %d: label %r is not the target encoder\'s label' % (p, lab))
    if len(cev) == len(tev):
        ins, labs = W.encode(cev, tev)
        need(len(ins) == len(labs) == max(len(tev) - 1, 0), 'encode returned %d inputs / %d labels for %d events' % (len(ins), len(labs), len(tev)))
        for i in range(len(ins)):
            need(isinstance(ins[i], list), 'input %d is a %s, not a list of floats' % (i, type(ins[i]).__name__))
            need(len(ins[i]) == W.input_size, 'input %d has %d entries, input_size %d' % (i, len(ins[i]), W.input_size))
            need(list(ins[i]) == list(cenc.events_to_input(cev, i + 1)) + list(tenc.events_to_input(tev, i)),
                 'input %d is not control@%d ++ target@%d' % (i, i + 1, i))
            need(T.show_lab(labs[i]) == T.show_lab(tenc.events_to_label(tev, i + 1)), 'label %d is not the target label at %d' % (i, i + 1))
        for p in case.get('positions', []):
            v = W.events_to_input(cev, tev, p)
            need(len(v) == W.input_size, 'input at %d has %d entries, input_size %d' % (p, len(v), W.input_size))
        for full, pairs in case.get('batches', []):
            cs, ts = [C.events(a) for a, _ in pairs], [T.events(b) for _, b in pairs]
            check_batch(lambda: W.get_inputs_batch(cs, ts, bool(full)),
                        lambda k, p: list(cenc.events_to_input(cs[k], p + 1)) + list(tenc.events_to_input(ts[k], p)),
                        [len(t) for t in ts], full, W.input_size, 'get_inputs_batch(full_length=%r)' % bool(full))
    labels = case.get('labels')
    if labels is not None and case.get('generate', True):
        check_generation(W, T, labels, tev[:case.get('primer', 0)], 'conditional wrapper')


def oracle_u(case):
    X = Comp(case['comp'])
    enc = X.enc
    for full, seqs in case.get('batches', []):
        real = [X.events(sq) for sq in seqs]
        check_batch(lambda: enc.get_inputs_batch(real, bool(full)), lambda k, p: list(enc.events_to_input(real[k], p)),
                    [len(sq) for sq in real], full, enc.input_size, 'get_inputs_batch(full_length=%r)' % bool(full))
    labels = case.get('labels')
    if labels is not None:
        check_generation(enc, X, labels, X.events(case.get('primer', [])), type(enc).__name__)
    if X.fam == 'pr' and labels is not None:
        # the pianoroll sampler: appending the pitch vector of a label appends the event the label decodes to
        import numpy as np
        n = X.spec[1]
        for l in labels:
            sq = []
            enc.extend_event_sequences([sq], [np.array([(l >> i) & 1 for i in range(n)])])
            need(len(sq) == 1 and [int(x) for x in sq[0]] == list(enc.class_index_to_event(l, [])),
                 'pianoroll extend_event_sequences appended %r for the pitch vector of label %d' % (sq, l))


ORACLES['cond'] = oracle_cond
ORACLES['u'] = oracle_u
REQUESTS['cond'] = cond_requests
REQUESTS['u'] = u_requests


# ---- generators over components
def comp_alphabet(rng, spec):
    fam = spec[0]
    if fam == 'g':
        oh = spec[1]
        if oh[0] == 'tab':
            return list(range(oh[1])), oh[2]
        if oh[0] == 'mel':
            mn, mx = oh[1], oh[2]
            return [-2, -1, mn, mx - 1] + rng.sample(range(mn, mx), min(mx - mn, rng.choice([1, 2, 4]))), -2
        bins, ms, lo, hi = oh[1:]
        return [(1, lo), (1, hi), (2, lo), (2, hi), (3, 1), (3, ms), (3, rng.randrange(1, ms + 1))] + ([(4, 1), (4, bins)] if bins else []), (3, ms)
    if fam == 'key':
        mn, mx = spec[1], spec[2]
        return [-2, -1, -1, mn, mx - 1] + rng.sample(range(mn, mx), min(mx - mn, rng.choice([1, 3, 6]))) * 2, -2
    if fam == 'mod':
        bins, ms = spec[1], spec[2]
        return [(1, 0), (1, 127), (2, 0), (2, 127), (1, rng.randrange(128)), (2, rng.randrange(128)), (3, 1), (3, ms),
                (3, rng.randrange(1, ms + 1))] + ([(4, 1), (4, bins), (4, rng.randrange(1, bins + 1))] if bins else []), (3, ms)
    return None, None


def comp_events(rng, spec, n):
    """n valid events of the configuration, structure-aware for the lookback encoders"""
    fam = spec[0]
    if fam == 'np':
        bins, ms, md, lo, hi = spec[1:]
        return [[edgy(rng, 0, ms), edgy(rng, lo, hi), edgy(rng, 1, bins), edgy(rng, 1, md)] for _ in range(n)]
    if fam == 'pr':
        return [pr_event(rng, spec[1]) for _ in range(n)]
    alpha, dflt = comp_alphabet(rng, spec)
    ds = spec[2][1] if fam == 'g' and spec[2][0] == 'lb' else spec[3] if fam == 'key' else []
    return rand_seq(rng, alpha, dflt, ds, n)


def comp_labels(rng, X, m):
    nc = X.enc.num_classes
    if X.fam == 'np':
        return [[rng.choice([0, max(n - 1, 0), rr(rng, n)]) for n in nc] for _ in range(m)]
    if X.fam == 'pr':
        return [rng.choice([0, nc - 1, nc // 2, rr(rng, nc)]) for _ in range(m)]
    nlb = len(X.spec[2][1]) if X.fam == 'g' and X.spec[2][0] == 'lb' else len(X.spec[3]) if X.fam == 'key' else 0
    return [rng.randrange(nc - nlb, nc) if (nlb and nlb < nc and rng.random() < 0.4) else rng.choice([0, nc - 1, rr(rng, nc), rr(rng, nc)]) for _ in range(m)]


def rand_comp(rng, role=None):
    """role 'small': few classes (a control whose label range is smaller than the target's); 'base': a class that
    inherits the base labels_to_num_steps; 'steps': a target whose events have variable step counts"""
    k = rng.random()
    if role == 'small':
        n = rng.choice([1, 2, 2, 3])
        perm = list(range(n))
        rng.shuffle(perm)
        return ['g', ['tab', n, rng.randrange(n), [rng.choice([0, 1, 2, 5]) for _ in range(n)], perm], rng.choice([['oh'], ['oh'], ['ohi'], ['lb', [1], 0]])]
    if role == 'base':
        if k < 0.6:
            c = rand_key(rng)['cfg']
            return ['key'] + c
        return ['pr', rng.choice([0, 1, 2, 5, 8, 12, 64, 88])]
    if role == 'steps':
        if k < 0.3:
            return ['mod', rng.choice([0, 0, 1, 8, 32]), rng.choice([1, 2, 10, 100])]
        if k < 0.5:
            return ['np'] + rand_np(rng)['cfg']
        if k < 0.8:
            bins, ms, lo = rng.choice([0, 0, 1, 8, 32]), rng.choice([1, 2, 10, 100]), rng.choice([0, 21, 60])
            return ['g', ['perf', bins, ms, lo, rng.choice([lo, lo + 5, 108, 127])], rand_kind(rng)]
        n = rng.choice([3, 4, 6])
        perm = list(range(n))
        rng.shuffle(perm)
        return ['g', ['tab', n, rng.randrange(n), [rng.choice([0, 2, 3, 5]) for _ in range(n)], perm], rand_kind(rng)]
    if k < 0.55:
        oh, _, _ = rand_onehot(rng)
        return ['g', oh, rand_kind(rng)]
    if k < 0.7:
        return ['key'] + rand_key(rng)['cfg']
    if k < 0.8:
        return ['mod', rng.choice([0, 0, 1, 8, 32, 127]), rng.choice([1, 2, 10, 100, 1000])]
    if k < 0.9:
        return ['np'] + rand_np(rng)['cfg']
    return ['pr', rng.choice(PR_SIZES)]


def rand_cond(rng):
    k = rng.random()
    if k < 0.3:
        cs, ts = rand_comp(rng, 'small'), rand_comp(rng, rng.choice(['steps', None]))
    elif k < 0.55:
        cs, ts = rand_comp(rng, 'base'), rand_comp(rng, 'steps')
    elif k < 0.65:
        cs, ts = rand_comp(rng, 'steps'), rand_comp(rng, 'base')
    else:
        cs, ts = rand_comp(rng), rand_comp(rng)
    C, T = Comp(cs), Comp(ts)
    n = rng.choice([0, 1, 2, 3, 8, 20])
    cev, tev = comp_events(rng, cs, n), comp_events(rng, ts, n)
    case = {'family': 'cond', 'control': cs, 'target': ts, 'control_events': cev, 'events': tev,
            'positions': [p for p in (0, n // 2, n - 2) if 0 <= p < n - 1],
            'labels': comp_labels(rng, T, rng.choice([0, 1, 2, 5, 12, 30])), 'primer': rng.randrange(n + 1)}
    batches = []
    for full in (0, 1):
        pairs = []
        for _ in range(rng.choice([0, 1, 2])):
            m = rng.choice([0, 1, 2, 5]) if full else rng.choice([1, 2, 5])
            pairs.append([comp_events(rng, cs, m + rng.choice([1, 1, 2])), comp_events(rng, ts, m)])
        batches.append([full, pairs])
    case['batches'] = batches
    return case


def steps_differ(case):
    """do control and target answer labels_to_num_steps differently on this case's labels (what a wrapper asking
    the wrong encoder needs in order to show)"""
    C, T, _ = cond_make(case)
    real = [T.real_label(l) for l in case['labels']]

    def ans(enc):
        try:
            return enc.labels_to_num_steps(real)
        except Exception as e:  # pylint: disable=broad-except
            return type(e).__name__
    return ans(C.enc) != ans(T.enc)


def rand_u(rng):
    spec = rand_comp(rng, rng.choice([None, None, 'steps', 'base']))
    X = Comp(spec)
    batches = []
    for full in (0, 1):
        seqs = [comp_events(rng, spec, rng.choice([0, 1, 2, 5, 9]) if full else rng.choice([1, 2, 5, 9])) for _ in range(rng.choice([0, 1, 2, 3]))]
        batches.append([full, seqs])
    case = {'family': 'u', 'comp': spec, 'batches': batches, 'events': comp_events(rng, spec, rng.choice([0, 1, 2, 6]))}
    case['primer'] = comp_events(rng, spec, rng.choice([0, 1, 3]))
    case['labels'] = comp_labels(rng, X, rng.choice([0, 1, 2, 5, 12, 30]))
    return case


# ----------------------------------------------------------------------------- malformed stream
def malformed_requests(rng):
    """inputs outside the theorems' hypotheses: the model must still follow the code (same exception class)"""
    ed, med, pl, ped, pred = _mods()
    out = []
    k = rng.random()
    if k < 0.45:
        oh, alpha, dflt = rand_onehot(rng)
        kind = rand_kind(rng)
        if kind[0] == 'lb' and rng.random() < 0.5:
            kind = ['lb', [rng.choice([0, -1, -2, 1, 2, 3]) for _ in range(rng.choice([1, 2, 3]))], rng.choice([-1, 0, 2])]
        if oh[0] == 'tab' and rng.random() < 0.3:
            oh = list(oh)[:5]        # (a chord table becomes a plain table: the real chord encodings have no table to corrupt)
            oh[4] = [rng.randrange(-oh[1], oh[1] + 2) for _ in range(oh[1])]     # not a permutation / out of range
        ds = kind[1] if kind[0] == 'lb' else []
        n = rng.choice([0, 1, 2, 4, 9])
        raw = rand_seq(rng, alpha, dflt, [d for d in ds if d > 0], n)
        bad_ev = {'tab': oh[1] + rng.choice([0, 1]) if rng.random() < 0.5 else -1, 'mel': rng.choice([-3, 128, oh[1] - 1 if oh[0] == 'mel' else 0, oh[2] if oh[0] == 'mel' else 0]),
                  'perf': (rng.choice([4, 5]), 1)}[oh[0]]
        if raw and rng.random() < 0.5:
            raw[rng.randrange(len(raw))] = bad_ev
        enc = make_generic(oh, kind)
        try:
            evs = to_events(oh, raw)
        except ValueError:
            return []
        spec = 'g ' + spec_wire(oh, kind)
        show = lambda e: sh_ev(oh[0], e)  # noqa: E731
        for p in {-n - 1, -n, -1, 0, n - 1, n, n + 3, rng.randrange(-3, n + 3)}:
            out.append(('%s pos %s %d' % (spec, evs_wire(oh, raw), p), triple(enc, evs, p, show)))
        nc = enc.num_classes
        for ci in {-1, 0, nc - 1, nc, nc + 1, rng.randrange(-2, nc + 3)}:
            out.append(('%s cite %s %d' % (spec, evs_wire(oh, raw), ci), ex(lambda ci=ci: enc.class_index_to_event(ci, evs), show)))
        out.append(('%s encode %s' % (spec, evs_wire(oh, raw)), sh_encode(lambda: enc.encode(evs))))
        labels = [rng.randrange(-1, nc + 2) for _ in range(rng.choice([1, 3, 6]))]
        out.append(('%s gen %s %s' % (spec, evs_wire(oh, raw), wl(labels)),
                    gen_loop(enc, evs, labels, show) + ' | ' + ex(lambda: enc.labels_to_num_steps(labels), str)))
    elif k < 0.7:
        case = rand_key(rng)
        mn, mx, ds, bits = case['cfg']
        if rng.random() < 0.4:
            ds = [rng.choice([0, -1, 1, 2]) for _ in range(rng.choice([1, 2]))]
        bits = rng.choice([bits, -1])
        raw = list(case['events'])[:12]
        n = len(raw)
        if raw and rng.random() < 0.6:
            raw[rng.randrange(n)] = rng.choice([-3, 128, mn - 1, mx, 0, 200])
        enc = make_key(mn, mx, ds, bits)
        spec = 'key %d %d %s %d' % (mn, mx, wl(ds), bits)
        for p in {-n - 1, -1, 0, n - 1, n, n + 2, rng.randrange(-3, n + 3)}:
            out.append(('%s pos %s %d' % (spec, wl(raw), p), triple(enc, raw, p, str)))
        nc = enc.num_classes
        for ci in {-1, nc, nc + 1, rng.randrange(-2, nc + 3)}:
            out.append(('%s cite %s %d' % (spec, wl(raw), ci), ex(lambda ci=ci: enc.class_index_to_event(ci, raw), str)))
        out.append(('%s encode %s' % (spec, wl(raw)), sh_encode(lambda: enc.encode(raw))))
    elif k < 0.85:
        # note-performance: prime / tiny step counts, out-of-range events and labels
        ms = rng.choice([0, 1, 2, 4, 6, 10, 12, 99, 3, 5])
        md = rng.choice([0, 1, 2, 3, 5, 7, 11, 13, 4, 6, 100])
        bins = rng.choice([0, 1, 8, 127, 128])
        lo, hi = rng.choice([(0, 127), (21, 108), (60, 59), (-3, 130)])
        evs = []
        for _ in range(rng.choice([1, 3])):
            ev = [rng.randrange(0, ms + 3), rng.randrange(max(lo, 0), min(hi, 127) + 1) if max(lo, 0) <= min(hi, 127) else 60,
                  rng.randrange(1, 128), rng.randrange(1, md + 3)]
            evs.append(ev)
        case = {'family': 'np', 'cfg': [bins, ms, md, lo, hi], 'events': evs}
        try:
            enc = make_np(bins, ms, md, lo, hi)
            ncs = enc.num_classes
            case['cites'] = [[rng.randrange(-1, n + 2) for n in ncs] for _ in range(4)]
            case['labels'] = [[rng.randrange(0, n + 1) for n in ncs] for _ in range(2)]
        except Exception:  # pylint: disable=broad-except
            pass
        out += np_requests(case)
    else:
        n = rng.choice([0, 1, 3, 8])
        case = {'family': 'pr', 'n': n, 'events': [], 'cites': [-1, -2, 2 ** n, 2 ** n + 1, 2 ** n - 1, 0],
                'raw_events': [[rng.randrange(-n - 1, n + 2) for _ in range(rng.choice([1, 2, 3]))] for _ in range(4)] + [[0, 0] if n else []]}
        out += pr_requests(case)
        bins, ms = rng.choice([0, 8]), rng.choice([1, 10, 150])
        enc = make_mod(bins, ms)
        PE = pl.PerformanceEvent
        raw = [(3, ms + 1), (3, ms), (4, 1), (4, bins + 1), (5, 3), (1, 127)]
        evs = [PE(t, v) for (t, v) in raw]
        show = lambda e: '%d:%d' % (e.event_type, e.event_value)  # noqa: E731
        out.append(('mod %d %d all %s' % (bins, ms, evs_wire(['perf'], raw)),
                    ' '.join(triple(enc, evs, p, show, show_in=lambda v: mod_cells(enc, v)) for p in range(len(evs)))))
        nc = enc.num_classes
        labels = [rng.randrange(-1, nc + 2) for _ in range(4)]
        out.append(('mod %d %d gen %s' % (bins, ms, wl(labels)), gen_loop(enc, [], labels, show) + ' | ' + ex(lambda: enc.labels_to_num_steps(labels), str)))
    return out


# ----------------------------------------------------------------------------- exhaustive small scope
def dist_lists():
    return [[]] + [list(p) for r in (1, 2, 3) for p in itertools.permutations([1, 2, 3], r)]


def exhaustive_cases(maxlen):
    oh = ['tab', 3, 0, [1, 1, 1], [0, 1, 2]]
    for ds in dist_lists():
        kind = ['lb', ds, 2]
        for L in range(1, maxlen + 1):
            for evs in itertools.product(range(3), repeat=L):
                yield {'family': 'g', 'onehot': oh, 'kind': kind, 'events': list(evs)}


# ----------------------------------------------------------------------------- main
def case_key(case):
    return repr(sorted((k, v) for k, v in case.items() if not k.startswith('_')))


def hist_of(case):
    f = case['family']
    h = [f]
    if f == 'g':
        h = ['g:%s:%s' % (case['onehot'][0], case['kind'][0])]
        if case['kind'][0] == 'lb':
            ds = case['kind'][1]
            h.append('dists:' + ('empty' if not ds else 'ascending' if all(a < b for a, b in zip(ds, ds[1:])) else 'unsorted-or-dup'))
            if ds and max(ds) > len(case['events']):
                h.append('dist>len')
    if f == 'cond':
        cs, ts = comp_spec(case['control']), comp_spec(case['target'])

        def cls(sp):
            return sp[0] if sp[0] != 'g' else 'g-%s-%s' % (sp[1][0], sp[2][0])
        h = ['cond', 'control:' + cls(cs), 'target:' + cls(ts)]
        if case.get('labels'):
            try:
                h.append('control/target labels_to_num_steps ' + ('differ' if steps_differ(case) else 'agree'))
            except Exception:  # pylint: disable=broad-except
                pass
    if f == 'u':
        sp = comp_spec(case['comp'])
        h = ['helpers:' + (sp[0] if sp[0] != 'g' else 'g-%s-%s' % (sp[1][0], sp[2][0]))]
    if f == 'np':
        bins, ms, md, lo, hi = case['cfg']
        for e in case['events']:
            h += [t for t, c in (('shift=0', e[0] == 0), ('shift=max_shift', e[0] == ms), ('pitch=min_pitch', e[1] == lo), ('pitch=max_pitch', e[1] == hi),
                                 ('velocity=1', e[2] == 1), ('velocity=bins', e[2] == bins), ('duration=1', e[3] == 1), ('duration=max', e[3] == md)) if c]
        h = sorted(set(h)) + ['pitch range ' + ('default 0..127' if (lo, hi) == (0, 127) else 'custom')]
    if f == 'pr':
        n = case['n']
        h += sorted({t for e in case['events'] for t, c in (('key 0', 0 in e), ('top key', n - 1 in e), ('all keys', n and len(e) == n)) if c})
        h.append('input_size ' + ('>= 64' if n >= 64 else '< 64'))
    if f == 'key':
        mn, mx = case['cfg'][0], case['cfg'][1]
        h += sorted({t for e in case['events'] for t, c in (('pitch=min_note', e == mn), ('pitch=max_note-1', e == mx - 1)) if c})
    if f == 'g' and case['onehot'][0] == 'mel':
        mn, mx = case['onehot'][1], case['onehot'][2]
        h += sorted({t for e in case['events'] for t, c in (('pitch=min_note', e == mn), ('pitch=max_note-1', e == mx - 1)) if c})
    if f == 'g' and case['onehot'][0] == 'perf':
        bins, ms, lo, hi = case['onehot'][1:5]
        h += sorted({t for e in case['events'] for t, c in (('pitch=min_pitch', e[0] in (1, 2) and e[1] == lo), ('pitch=max_pitch', e[0] in (1, 2) and e[1] == hi),
                                                            ('shift=1', tuple(e) == (3, 1)), ('shift=max_shift', tuple(e) == (3, ms)),
                                                            ('velocity=1', tuple(e) == (4, 1)), ('velocity=bins', tuple(e) == (4, bins))) if c})
    if 'events' in case:
        n = len(case['events'])
        h.append('len:' + ('0' if n == 0 else '1' if n == 1 else '2-8' if n <= 8 else '9-40' if n <= 40 else '41-100'))
    return h


def run(chk):
    generate(chk)
    chk.prove(MODULES, THEOREMS, [EXE], extra_trusted=[
        'C09 theorems melody_encode_decode / melody_decode_encode (imported to discharge the OneHot hypotheses for the melody instance)',
        'cos/sin values of the modulo-performance input are not modelled (only slot positions and table rows)',
        'numpy semantics used by the encoders (np.hstack, fancy-index assignment, bincount) are modelled, not verified',
        'np.random.choice with a one-hot distribution returns the certain class (extend_event_sequences is modelled with the drawn class given)'])
    chk.rule = ('one evaluation = one (encoder configuration, event sequence[, label sequence]) request answered identically by the '
                'real classes and the Lean model: for every position the label, the label decoded against the prefix, and the '
                'full input vector; plus encode(), sizes, the generation loop through extend_event_sequences, get_inputs_batch and '
                'labels_to_num_steps of every class, and every public method of the conditional wrapper over control/target pairs of '
                'all classes (histogram: how many pairs answer labels_to_num_steps differently). non-trivial = distinct request whose '
                'answer contains at least one non-error result')
    batch = []      # (stream, request, impl answer, case-or-None)

    def add_case(stream, case, oracle=True, **kw):
        try:
            reqs = REQUESTS[case['family']](case, **kw)
        except Exception as e:  # pylint: disable=broad-except
            # the harness itself could not drive the real code on a *valid* case: that is a property failure
            chk.fail('implementation raised %s: %s while being driven on a valid input' % (type(e).__name__, e), pub(case))
            return
        for (rq, ans) in reqs:
            batch.append((stream, rq, ans, case))
        if oracle:
            chk.count('oracle', None)
            bad = run_oracle(case)
            if bad:
                chk.fail(bad, pub(case))

    def flush():
        if not batch:
            return
        model = chk.driver(EXE, [b[1] for b in batch])
        for (stream, rq, ans, case), m in zip(batch, model):
            nontriv = any(not t.startswith('!') and t not in ('-', 'bad-op') for part in m.split() for t in part.split('|'))
            chk.count(stream, rq, nontrivial=nontriv, hist=(hist_of(case) if case else None))
            if ans != m:
                chk.disagree(stream, rq, first_diff(ans, m), first_diff(m, ans))
                if case is not None and stream != 'malformed':
                    bad = run_oracle(case)
                    if bad:
                        chk.fail(bad, pub(case))
            elif len(chk.samples) < 5 and len(rq) < 200 and nontriv and stream not in {s.get('stream') for s in chk.samples}:
                chk.sample({'stream': stream, 'request': rq, 'impl': ans[:300], 'model': m[:300]})
        del batch[:]

    # corpus first
    from harness.common import corpus_cases
    for name, obj in corpus_cases(PID):
        add_case('corpus', obj.get('input', obj))
    # fixed regression cases of the two repaired defects (F-C08-1 / F-C08-2) and docstring examples
    for case in fixed_cases():
        add_case('fixed', case)
    for e in chk.known:
        case = known_case(e)
        if case is not None:
            chk.count('known-findings', e['id'], True)
            bad = run_oracle(case)
            if bad:
                chk.fail('%s: %s' % (e['id'], bad), pub(case), finding=e['id'])
    flush()

    rng = chk.subrng('generic')
    for i in range(chk.n(250, 10000)):
        case = rand_generic(rng)
        if i % 7 == 0 and len(case.get('labels', [])) <= 20 and case['kind'][0] != 'ohi':
            case['extend'] = True
        if i % 5 == 0 and case['events']:
            case['primer'] = rng.randrange(len(case['events']) + 1)
        add_case('generic-random', case)
        if len(batch) > 4000:
            flush()
    flush()
    rng = chk.subrng('key')
    for _ in range(chk.n(120, 5000)):
        add_case('keymelody', rand_key(rng))
        if len(batch) > 2000:
            flush()
    flush()
    rng = chk.subrng('np')
    for _ in range(chk.n(150, 6000)):
        add_case('noteperf', np_labels(rng, rand_np(rng)))
    flush()
    rng = chk.subrng('pr')
    for _ in range(chk.n(150, 6000)):
        add_case('pianoroll', rand_pr(rng))
    flush()
    rng = chk.subrng('mod')
    for _ in range(chk.n(80, 3000)):
        add_case('modulo', rand_mod(rng))
    flush()
    rng = chk.subrng('cond')
    for _ in range(chk.n(200, 8000)):
        add_case('conditional', rand_cond(rng))
        if len(batch) > 3000:
            flush()
    flush()
    # base-class helpers (get_inputs_batch, extend_event_sequences, labels_to_num_steps, encode) of every class
    rng = chk.subrng('helpers')
    for _ in range(chk.n(200, 8000)):
        add_case('helpers', rand_u(rng))
        if len(batch) > 3000:
            flush()
    flush()
    # conditional: unequal lengths must raise ValueError in both; control not longer than target / a different
    # number of sequences in get_inputs_batch; labels outside the target's range (compared by exception class)
    rng = chk.subrng('cond-bad')
    for _ in range(chk.n(40, 600)):
        case = rand_cond(rng)
        C, T = Comp(case['control']), Comp(case['target'])
        ce = case['control_events']
        case['control_events'] = ce + ce[:1] if ce and rng.random() < 0.5 else ce[:-1]
        case['positions'] = []
        case.pop('batches', None)
        m = rng.choice([0, 1, 3])
        tseq, cseq = comp_events(rng, case['target'], m), comp_events(rng, case['control'], rng.randrange(0, m + 1))
        case['bad_batches'] = [[rng.choice([0, 1]), [cseq], [tseq]],
                               [rng.choice([0, 1]), [cseq + cseq + comp_events(rng, case['control'], 1)] * rng.choice([0, 2]), [tseq]]]
        if T.fam != 'np' and T.fam != 'pr':
            nc = T.enc.num_classes
            case['labels'] = [rng.randrange(-1, nc + 2) for _ in range(rng.choice([1, 3, 6]))]
            case['generate'] = False
        case['label_positions'] = [-1, len(case['events']), len(case['events']) + 2]
        add_case('malformed', case, oracle=False)
    rng = chk.subrng('malformed')
    for _ in range(chk.n(300, 12000)):
        reqs = malformed_requests(rng)
        for (rq, ans) in reqs:
            batch.append(('malformed', rq, ans, None))
        if len(batch) > 4000:
            flush()
    flush()
    # exhaustive small scope (property quantifier): all sequences over 3 symbols x lookbacks from {1,2,3}
    maxlen = chk.n(5, 8)
    chk.notes['exhaustive_scope'] = 'all sequences of length 1..%d over 3 symbols x %d distance lists (subsets and permutations of {1,2,3})' % (maxlen, len(dist_lists()))
    for case in exhaustive_cases(maxlen):
        add_case('lookback-exhaustive', case, ops=('all',))
        if len(batch) > 20000:
            flush()
    flush()
    chk.notes['label_branches_hit_by_valid_streams'] = dict(BRANCH)
    chk.exhaustive = chk.thorough


def first_diff(a, b):
    """shorten a long answer around the first difference with `b`"""
    if len(a) < 400:
        return a
    i = next((k for k in range(min(len(a), len(b))) if a[k] != b[k]), min(len(a), len(b)))
    return '…' + a[max(0, i - 150):i + 150] + '…'


def pub(case):
    return {k: v for k, v in case.items() if not k.startswith('_')}


def fixed_cases():
    tri = ['tab', 3, 0, [1, 1, 1], [0, 1, 2]]
    return [
        # F-C08-2 (fixed): KeyMelody with an empty lookback list
        {'family': 'key', 'cfg': [48, 84, [], 7], 'events': [60, -2, -2, -1, 62, 62], 'labels': [12, 36, 37, 0]},
        # F-C08-1 (fixed): NotePerformance labels_to_num_steps([])
        {'family': 'np', 'cfg': [32, 99, 100, 0, 127], 'events': [[0, 60, 1, 1], [99, 127, 32, 100]], 'labels': []},
        {'family': 'np', 'cfg': [32, 99, 100, 0, 127], 'events': [], 'labels': [[0, 0, 60, 0, 0, 0], [9, 9, 127, 31, 9, 9]]},
        # docstring configuration: 38 classes, lookbacks [16, 32], 5 counter bits
        {'family': 'g', 'onehot': ['mel', 48, 84], 'kind': ['lb', [16, 32], 5],
         'events': ([60, -2, -2, -2, 62, -2, -1, -2] * 2 + [-2] * 16) * 2 + [60, -2, 62], 'labels': [38, 39, 0, 1, 14, 39, 38]},
        {'family': 'g', 'onehot': tri, 'kind': ['lb', [3, 1], 3], 'events': [0, 0, 1, 1, 2, 0, 1, 1], 'labels': [3, 4, 4, 3, 1, 2, 3]},
        {'family': 'g', 'onehot': tri, 'kind': ['lb', [], 0], 'events': [0, 1, 2], 'labels': [0, 1, 2]},
        {'family': 'g', 'onehot': tri, 'kind': ['lb', [200], 3], 'events': [0, 0, 1, 0], 'labels': [3, 3, 1, 3]},
        {'family': 'key', 'cfg': [48, 84, [16, 32], 7], 'events': [-2] * 3 + [60, -2, 64, -1] + [-2] * 9 + [60, -2, 64, -1], 'labels': [39, 38, 36, 37, 0]},
        {'family': 'key', 'cfg': [0, 128, [2, 1], 3], 'events': [0, 0, -2, 0, 127, -1, -1], 'labels': [131, 130, 0, 127, 128, 129]},
        # conditional wrapper whose control and target answer labels_to_num_steps differently (seeded C08-5):
        # a 2-class one-hot control (cannot even decode the target's labels) over performance events with a lookback
        {'family': 'cond', 'control': ['g', ['tab', 2, 0, [1, 1], [1, 0]], ['oh']],
         'target': ['g', ['perf', 0, 100, 0, 127], ['lb', [2], 0]],
         'control_events': [0, 1, 1, 0], 'events': [[1, 60], [3, 10], [1, 60], [3, 100]], 'positions': [0, 1, 2],
         'labels': [60, 265, 356, 355, 0, 1], 'primer': 2,
         'batches': [[0, [[[0, 1, 1], [[1, 60], [3, 10]]]]], [1, [[[0, 1, 1], [[1, 60], [3, 10]]], [[1], []]]]]},
        # a control that inherits the base labels_to_num_steps (key-melody / pianoroll) with a performance target
        {'family': 'cond', 'control': ['key', 48, 84, [16, 32], 7], 'target': ['mod', 8, 100],
         'control_events': [60, -2, -1], 'events': [[3, 100], [1, 60], [4, 8]], 'positions': [0, 1],
         'labels': [355, 60, 256, 188, 356, 363], 'primer': 0},
        {'family': 'cond', 'control': ['pr', 5], 'target': ['np', 2, 3, 4, 60, 62],
         'control_events': [[0, 4], []], 'events': [[3, 60, 1, 4], [0, 62, 2, 1]],
         'labels': [[1, 1, 2, 1, 1, 1], [0, 1, 0, 0, 0, 0]], 'primer': 1},
        # base-class helpers on the classes that do not override them
        {'family': 'u', 'comp': ['key', 48, 84, [2], 3], 'batches': [[1, [[60, -2, 60], []]], [0, [[60, -2, 60], [61]]]],
         'events': [60, -2, 60, -1], 'labels': [12, 38, 37, 36], 'primer': [60]},
        {'family': 'u', 'comp': ['np', 2, 3, 4, 60, 62], 'batches': [[1, [[[3, 60, 1, 4]]]], [0, [[[3, 60, 1, 4], [0, 62, 2, 1]]]]],
         'events': [[3, 60, 1, 4], [0, 62, 2, 1]], 'labels': [[1, 1, 2, 1, 1, 1], [0, 1, 0, 0, 0, 0]], 'primer': []},
    ]


def known_case(entry):
    """the concrete input a known_findings.json entry of C08 stands for"""
    m = entry.get('match', {})
    if m.get('labels') == [] and 'NotePerformance' in entry.get('what', ''):
        return {'family': 'np', 'cfg': [8, 1000, 1000, 0, 127], 'events': [], 'labels': []}
    if m.get('lookback_distances') == []:
        return {'family': 'key', 'cfg': [48, 84, [], 7], 'events': [60, -2, -2, -1, 62, -2], 'labels': [36, 37, 12]}
    return None


def replay(chk, obj):
    case = obj.get('input', obj)
    print('replay', case)
    if 'family' not in case:
        print('not a C08 case')
        return 0
    bad = run_oracle(case)
    print('PROPERTY FAILS: %s' % bad if bad else 'property holds on this input')
    return 1 if bad else 0
