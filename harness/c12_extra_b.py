"""C12 part B — storage-order theorems for sustain application and event-sequence extraction.

EXTRA registers the Lean modules / theorems (proved + axiom-audited by harness/c12.py).
run_streams ties the models those theorems are about (C14's `applySustain`, C07's extractors) to the code on
exactly the kind of input the theorems speak of: every request goes through the compiled driver and the real
implementation on a sequence AND on a random permutation of every repeated field; additionally, whenever the
theorem's hypotheses (evaluated here, independently, in Python) hold, the implementation's two results must
agree — a difference there means model or theorem statement do not describe the code."""
import collections
from fractions import Fraction

from harness import nswire

EV = 'NoteSeqVerif.Props.C12_events'
SU = 'NoteSeqVerif.Props.C12_sustain'
EXTRA = [
    (EV, ['NSV.C12.pianoroll_perm', 'NSV.C12.drums_perm', 'NSV.C12.chords_perm', 'NSV.C12.melody_perm',
          'NSV.C12.perf_perm', 'NSV.C12.metricPerf_perm', 'NSV.C12.notePerf_perm',
          'NSV.C12.map_mergeSort_perm', 'NSV.C12.stepsPerBar_perm', 'NSV.C12.BarAgree.perm',
          'NSV.C12.ChordTiesAgree.perm', 'NSV.C12.MelTiesAgree.perm', 'NSV.C12.PerfTiesAgree.perm'], 'drv_c07'),
    (SU, ['NSV.C12.sustain_perm', 'NSV.C12.sustain_total_exact', 'NSV.C12.sustain_perm_of_covers', 'NSV.C12.sustain_perm_notes',
          'NSV.C12.sustain_perm_quantized', 'NSV.C12.heldEnd_perm', 'NSV.C12.totalSpec_perm',
          'NSV.C12.abs_final_exact',
          'NSV.C12.wellFormed_perm', 'NSV.C12.noSamePitchOverlap_perm'], 'drv_c14'),
]


# ----------------------------------------------------------------------------- hypotheses, read from the theorem statements
def bar_agree(ns):
    return len({(t.numerator, t.denominator) for t in ns.time_signatures}) <= 1


def chord_ties_agree(ns, start):
    d = collections.defaultdict(set)
    for a in ns.text_annotations:
        if a.annotation_type == 1 and a.quantized_step < start:
            d[a.quantized_step].add(a.text)
    return all(len(v) == 1 for v in d.values())


def mel_ties_agree(ns, ss, inst, fd):
    d = collections.defaultdict(set)
    for n in ns.notes:
        if n.instrument == inst and ss <= n.quantized_start_step and not (fd and n.is_drum) and n.velocity != 0:
            d[(n.quantized_start_step, n.pitch)].add(n.quantized_end_step)
    return all(len(v) == 1 for v in d.values())


def perf_ties_agree(ns, start, nb, inst):
    from note_seq import performance_lib as pl
    d = collections.defaultdict(set)
    for n in ns.notes:
        if start <= n.quantized_start_step and (inst is None or n.instrument == inst):
            b = 0
            if nb != 0:
                try:
                    b = pl.velocity_to_bin(n.velocity, nb)
                except Exception:  # pylint: disable=broad-except
                    b = ('v', n.velocity)
            d[(n.start_time, n.pitch)].add((n.quantized_start_step, n.quantized_end_step, b))
    return all(len(v) == 1 for v in d.values())


def hypotheses(op, p, ns):
    if op == 'roll':
        return True
    if op == 'drums':
        return bar_agree(ns)
    if op == 'chords':
        return bar_agree(ns) and chord_ties_agree(ns, p[0])
    if op == 'melody':
        return bar_agree(ns) and mel_ties_agree(ns, p[0], p[1], bool(p[5]))
    if op in ('perf', 'mperf'):
        return perf_ties_agree(ns, p[0], p[1], p[3])
    if op == 'nperf':
        return perf_ties_agree(ns, p[2], p[0], p[1])
    return False


def sustain_hyp(ns):
    """WellFormed and NoSamePitchOverlap of Model/C14Spec.lean, on exact times"""
    pitched = [n for n in ns.notes if not n.is_drum]
    if any(n.start_time > n.end_time for n in pitched):
        return False
    groups = collections.defaultdict(list)
    for n in pitched:
        groups[(n.instrument, n.pitch)].append((Fraction(n.start_time), Fraction(n.end_time)))
    for g in groups.values():
        g.sort()
        for (a, b), (c, d) in zip(g, g[1:]):
            if a == c or b > c:
                return False
    return True


def total_spec(ns, ctl):
    """`totalSpec` of Proofs/C12BTot.lean read independently from its docstring: max of the old total_time, of the held
    ends of the notes ended by a pedal release, and (if a note is still held when the events run out) of the last event time"""
    from harness import c14
    downs = []
    last, want = c14.held_ends(ns, ctl, downs)
    rel = collections.defaultdict(list)
    for c in ns.control_changes:
        if c.control_number == ctl and c.control_value < 64:
            rel[c.instrument].append(Fraction(c.time))
    tot = Fraction(ns.total_time)
    for i, n in enumerate(ns.notes):
        if n.is_drum or not downs[i]:
            continue
        end = Fraction(n.end_time)
        releases = [t for t in rel[n.instrument] if t > end]
        restrikes = [Fraction(m.start_time) for j, m in enumerate(ns.notes)
                     if j != i and not m.is_drum and m.instrument == n.instrument and m.pitch == n.pitch
                     and Fraction(m.start_time) >= end]
        if want[i] in releases:
            tot = max(tot, want[i])
        if not releases and not restrikes:
            tot = max(tot, last)
    return tot


def canon_line(line):
    """`ok NS …` result line with every repeated field sorted (equality up to storage order)"""
    t = line.split(' ')
    if t[0] != 'ok':
        return line
    out, p = t[:11], 11
    for width in (14, 2, 3, 3, 4, 7, 5, 2):
        n = int(t[p]); p += 1
        rows = sorted(tuple(t[p + j * width: p + (j + 1) * width]) for j in range(n))
        p += n * width
        out.append((n, tuple(rows)))
    out.append(tuple(t[p:]))
    return tuple(out)


# ----------------------------------------------------------------------------- streams
def add_tie_variants(rng, ns, hist):
    """make the coincidences the hypotheses talk about: a second stored time signature (equal or different), a chord
    symbol sharing a step, a note sharing (start time, pitch, start step) with another but differing in end / velocity"""
    k = rng.random()
    if k < 0.25 and ns.time_signatures:
        t = ns.time_signatures.add()
        t.CopyFrom(ns.time_signatures[0])
        t.time = rng.choice([0.0, 1.0, 2.0])
        if rng.random() < 0.4:
            t.numerator, t.denominator = rng.choice([(3, 4), (6, 8), (2, 2), (4, 4)])
            hist.add('tie:second-time-signature-different')
        else:
            hist.add('tie:second-time-signature-equal')
    if k > 0.2 and k < 0.5 and ns.text_annotations:
        src = rng.choice(list(ns.text_annotations))
        a = ns.text_annotations.add()
        a.CopyFrom(src)
        if rng.random() < 0.6:
            a.text = rng.choice(['C', 'Am', 'G7'])
        a.time = src.time + rng.choice([0.0, 0.001])
        hist.add('tie:chord-on-same-step')
    if k > 0.45 and ns.notes:
        src = rng.choice(list(ns.notes))
        n = ns.notes.add()
        n.CopyFrom(src)
        c = rng.randrange(4)
        if c == 0:
            n.quantized_end_step = src.quantized_end_step + rng.choice([1, 2])
            hist.add('tie:same-start-pitch-different-end')
        elif c == 1:
            n.velocity = rng.choice([1, 64, 127])
            hist.add('tie:same-start-pitch-different-velocity')
        elif c == 2:
            n.voice = src.voice + 1                      # differs only in a field no extractor reads
            hist.add('tie:same-start-pitch-irrelevant-field')
        else:
            n.quantized_start_step = src.quantized_start_step + 1
            n.quantized_end_step = max(n.quantized_end_step, n.quantized_start_step + 1)
            hist.add('tie:same-start-time-different-step')
        ns.total_quantized_steps = max(ns.total_quantized_steps, n.quantized_end_step)


def run_streams(chk):
    import warnings
    warnings.filterwarnings('ignore')
    from absl import logging as absl_logging
    absl_logging.set_verbosity(absl_logging.ERROR)
    from note_seq import sequences_lib as sl
    from harness import c07, c14

    # ---- event extraction: C07's extractors on a quantized sequence and on a permutation of it
    rng = chk.subrng('permB-events')
    cases = []
    for i in range(chk.n(800, 8000)):
        rel = rng.random() < 0.65
        hist = set()
        ns = c07.gen_seq(rng, rel, hist)
        if rng.random() < 0.5:
            add_tie_variants(rng, ns, hist)
        perm = nswire.shuffled(ns, rng)
        for op in (c07.REL_OPS if rel else c07.ABS_OPS):
            if op == 'spb':
                continue
            p = c07.gen_params(rng, op, ns, False)
            cases.append((op, p, ns, perm, hist))
    reqs, impls = [], []
    for (op, p, ns, perm, hist) in cases:
        for x in (ns, perm):
            reqs.append(c07.req_line(op, p, nswire.encode(x)))
            impls.append(c07.run_impl(op, p, x))
    models = chk.driver('drv_c07', reqs)
    for k, (op, p, ns, perm, hist) in enumerate(cases):
        a0, a1, b0, b1 = impls[2 * k], impls[2 * k + 1], models[2 * k], models[2 * k + 1]
        if 'err Unmodelled' in (b0, b1):
            chk.count('model:' + op, None, False, 'skipped:model-declines')
            continue
        hyp = hypotheses(op, p, ns)
        same = a0 == a1
        chk.count('model:' + op, reqs[2 * k][:1500], b0 != 'bad-op' and nswire.encode(perm) != nswire.encode(ns),
                  sorted(hist) + ['hyp:%s,impl-order-independent:%s' % (hyp, same),
                                  'result:' + (a0.split()[1] if a0.startswith('err') else 'ok')])
        for a, b, x in ((a0, b0, ns), (a1, b1, perm)):
            if a != b:
                chk.disagree('model:' + op, {'op': op, 'params': p, 'sequence': nswire.encode(x)}, a[:600], b[:600])
        if hyp and not same:
            chk.disagree('theorem:' + op, {'op': op, 'params': p, 'sequence': nswire.encode(ns),
                                           'permuted': nswire.encode(perm)}, a0[:600], a1[:600])

    # ---- sustain: C14's model on a sequence and on a permutation of it
    rng = chk.subrng('permB-sustain')
    cases = []
    for i in range(chk.n(2500, 30000)):
        k = rng.random()
        ctl, ns = (c14.gen_valid if k < 0.7 else c14.gen_overlap if k < 0.9 else c14.gen_malformed)(rng)
        if rng.random() < 0.3:
            ns.total_time = rng.choice([0.0, ns.total_time / 2])      # total_time NOT covering the note ends
        cases.append((ctl, ns, nswire.shuffled(ns, rng)))
    reqs, impls = [], []
    for (ctl, ns, perm) in cases:
        for x in (ns, perm):
            reqs.append('sustain %d %s' % (ctl, nswire.encode(x)))
            impls.append(c14._call(sl, ctl, x))  # pylint: disable=protected-access
    models = chk.driver('drv_c14', reqs)
    for k, (ctl, ns, perm) in enumerate(cases):
        a0, a1, b0, b1 = impls[2 * k], impls[2 * k + 1], models[2 * k], models[2 * k + 1]
        hyp = sustain_hyp(ns)
        same = canon_line(a0) == canon_line(a1)
        covers = all(n.end_time <= ns.total_time for n in ns.notes)
        changed = a0.startswith('err') or a0.split(' ', 1)[1] != reqs[2 * k].split(' ', 2)[2]
        chk.count('model:sustain', reqs[2 * k][:1500], changed and nswire.encode(perm) != nswire.encode(ns),
                  ['hyp:%s,impl-order-independent:%s' % (hyp, same), 'total_time-covers:%s' % covers,
                   'result:' + (a0.split()[1] if a0.startswith('err') else 'ok')])
        for a, b, x in ((a0, b0, ns), (a1, b1, perm)):
            if a != b:
                chk.disagree('model:sustain', {'ctl': ctl, 'sequence': nswire.encode(x)}, a[:800], b[:800])
        if hyp and a0.startswith('ok'):
            from harness.common import rat
            exp = rat(total_spec(ns, ctl))
            chk.count('spec:sustain-total', None, False,
                      'total_time raised' if exp != rat(ns.total_time) else 'total_time unchanged')
            if a0.split(' ')[2] != exp:
                chk.disagree('spec:sustain-total', {'ctl': ctl, 'sequence': nswire.encode(ns)}, a0.split(' ')[2], exp)
        if hyp and not same:
            chk.disagree('theorem:sustain', {'ctl': ctl, 'sequence': nswire.encode(ns), 'permuted': nswire.encode(perm)},
                         a0[:800], a1[:800])
