"""C12 part B — storage-order theorems for sustain application and event-sequence extraction.

EXTRA registers the Lean modules / theorems (proved + axiom-audited by harness/c12.py).
run_streams ties the models those theorems are about (C14's `applySustain`, C07's extractors) to the code on
exactly the kind of input the theorems speak of: every request goes through the compiled driver and the real
implementation on a sequence AND on a random permutation of every repeated field; additionally, whenever the
theorem's hypotheses (evaluated here, independently, in Python) hold, the implementation's two results must
agree — a difference there means model or theorem statement do not describe the code."""
import collections
from fractions import Fraction

from harness import nswire

EV = 'NoteSeqVerif.Props.C12_events'
SU = 'NoteSeqVerif.Props.C12_sustain'
EXTRA = [
    (EV, ['NSV.C12.pianoroll_perm', 'NSV.C12.drums_perm', 'NSV.C12.chords_perm', 'NSV.C12.melody_perm',
          'NSV.C12.perf_perm', 'NSV.C12.metricPerf_perm', 'NSV.C12.notePerf_perm',
          # program / is_drum of a performance as a function of the BAG of selected notes (seeded C12-11)
          'NSV.C12.programAndIsDrum_program_spec', 'NSV.C12.programAndIsDrum_isDrum_spec', 'NSV.C12.canonSet_eq_singleton',
          'NSV.C12.program_fold_depends_on_order',
          'NSV.C12.map_mergeSort_perm', 'NSV.C12.stepsPerBar_perm', 'NSV.C12.BarAgree.perm',
          'NSV.C12.ChordTiesAgree.perm', 'NSV.C12.MelTiesAgree.perm', 'NSV.C12.PerfTiesAgree.perm'], 'drv_c07'),
    (SU, ['NSV.C12.sustain_perm', 'NSV.C12.sustain_total_exact', 'NSV.C12.sustain_perm_of_covers', 'NSV.C12.sustain_perm_notes',
          'NSV.C12.sustain_perm_quantized', 'NSV.C12.heldEnd_perm', 'NSV.C12.totalSpec_perm',
          'NSV.C12.abs_final_exact',
          'NSV.C12.wellFormed_perm', 'NSV.C12.noSamePitchOverlap_perm'], 'drv_c14'),
]


# ----------------------------------------------------------------------------- hypotheses, read from the theorem statements
def bar_agree(ns):
    return len({(t.numerator, t.denominator) for t in ns.time_signatures}) <= 1


def chord_ties_agree(ns, start):
    """ChordTiesAgree: chord symbols sharing (step, time) before `start` carry the same text"""
    d = collections.defaultdict(set)
    for a in ns.text_annotations:
        if a.annotation_type == 1 and a.quantized_step < start:
            d[(a.quantized_step, a.time)].add(a.text)
    return all(len(v) == 1 for v in d.values())


def mel_ties_agree(ns, ss, inst, fd):
    """MelTiesAgree: selected notes sharing (start step, pitch, start time) share the end step"""
    d = collections.defaultdict(set)
    for n in ns.notes:
        if n.instrument == inst and ss <= n.quantized_start_step and not (fd and n.is_drum) and n.velocity != 0:
            d[(n.quantized_start_step, n.pitch, n.start_time)].add(n.quantized_end_step)
    return all(len(v) == 1 for v in d.values())


def perf_ties_agree(ns, start, nb, inst):
    from note_seq import performance_lib as pl
    d = collections.defaultdict(set)
    for n in ns.notes:
        if start <= n.quantized_start_step and (inst is None or n.instrument == inst):
            b = 0
            if nb != 0:
                try:
                    b = pl.velocity_to_bin(n.velocity, nb)
                except Exception:  # pylint: disable=broad-except
                    b = ('v', n.velocity)
            d[(n.start_time, n.pitch)].add((n.quantized_start_step, n.quantized_end_step, b))
    return all(len(v) == 1 for v in d.values())


def hypotheses(op, p, ns):
    if op == 'roll':
        return True
    if op == 'drums':
        return bar_agree(ns)
    if op == 'chords':
        return bar_agree(ns) and chord_ties_agree(ns, p[0])
    if op == 'melody':
        return bar_agree(ns) and mel_ties_agree(ns, p[0], p[1], bool(p[5]))
    if op in ('perf', 'mperf'):
        return perf_ties_agree(ns, p[0], p[1], p[3])
    if op == 'nperf':
        return perf_ties_agree(ns, p[2], p[0], p[1])
    return False


def sustain_hyp(ns):
    """WellFormed and NoSamePitchOverlap of Model/C14Spec.lean, on exact times"""
    pitched = [n for n in ns.notes if not n.is_drum]
    if any(n.start_time > n.end_time for n in pitched):
        return False
    groups = collections.defaultdict(list)
    for n in pitched:
        groups[(n.instrument, n.pitch)].append((Fraction(n.start_time), Fraction(n.end_time)))
    for g in groups.values():
        g.sort()
        for (a, b), (c, d) in zip(g, g[1:]):
            if a == c or b > c:
                return False
    return True


def total_spec(ns, ctl):
    """`totalSpec` of Proofs/C12BTot.lean read independently from its docstring: max of the old total_time, of the held
    ends of the notes ended by a pedal release, and (if a note is still held when the events run out) of the last event time"""
    from harness import c14
    downs = []
    last, want = c14.held_ends(ns, ctl, downs)
    rel = collections.defaultdict(list)
    for c in ns.control_changes:
        if c.control_number == ctl and c.control_value < 64:
            rel[c.instrument].append(Fraction(c.time))
    tot = Fraction(ns.total_time)
    for i, n in enumerate(ns.notes):
        if n.is_drum or not downs[i]:
            continue
        end = Fraction(n.end_time)
        releases = [t for t in rel[n.instrument] if t > end]
        restrikes = [Fraction(m.start_time) for j, m in enumerate(ns.notes)
                     if j != i and not m.is_drum and m.instrument == n.instrument and m.pitch == n.pitch
                     and Fraction(m.start_time) >= end]
        if want[i] in releases:
            tot = max(tot, want[i])
        if not releases and not restrikes:
            tot = max(tot, last)
    return tot


def canon_line(line):
    """`ok NS …` result line with every repeated field sorted (equality up to storage order)"""
    t = line.split(' ')
    if t[0] != 'ok':
        return line
    out, p = t[:11], 11
    for width in (14, 2, 3, 3, 4, 7, 5, 2):
        n = int(t[p]); p += 1
        rows = sorted(tuple(t[p + j * width: p + (j + 1) * width]) for j in range(n))
        p += n * width
        out.append((n, tuple(rows)))
    out.append(tuple(t[p:]))
    return tuple(out)


# ----------------------------------------------------------------------------- streams
def add_tie_variants(rng, ns, hist):
    """make the coincidences the hypotheses talk about: a second stored time signature (equal or different), a chord
    symbol sharing a step, a note sharing (start time, pitch, start step) with another but differing in end / velocity"""
    k = rng.random()
    if k < 0.25 and ns.time_signatures:
        t = ns.time_signatures.add()
        t.CopyFrom(ns.time_signatures[0])
        t.time = rng.choice([0.0, 1.0, 2.0])
        if rng.random() < 0.4:
            t.numerator, t.denominator = rng.choice([(3, 4), (6, 8), (2, 2), (4, 4)])
            hist.add('tie:second-time-signature-different')
        else:
            hist.add('tie:second-time-signature-equal')
    if k > 0.2 and k < 0.5 and ns.text_annotations:
        src = rng.choice(list(ns.text_annotations))
        a = ns.text_annotations.add()
        a.CopyFrom(src)
        if rng.random() < 0.6:
            a.text = rng.choice(['C', 'Am', 'G7'])
        dt = rng.choice([0.0, 0.001])
        a.time = src.time + dt
        hist.add('tie:chord-on-same-step-%s-time' % ('different' if dt else 'same'))
    if k > 0.45 and ns.notes:
        src = rng.choice(list(ns.notes))
        n = ns.notes.add()
        n.CopyFrom(src)
        c = rng.randrange(5)
        if c == 0:
            n.quantized_end_step = src.quantized_end_step + rng.choice([1, 2])
            hist.add('tie:same-start-pitch-different-end')
        elif c == 4:
            # same (start step, pitch), different start time and end step: ordered by the third sort-key component
            n.quantized_end_step = src.quantized_end_step + rng.choice([1, 2])
            n.start_time = src.start_time + rng.choice([0.001, 0.01])
            hist.add('tie:same-step-pitch-different-start-time-and-end')
        elif c == 1:
            n.velocity = rng.choice([1, 64, 127])
            hist.add('tie:same-start-pitch-different-velocity')
        elif c == 2:
            n.voice = src.voice + 1                      # differs only in a field no extractor reads
            hist.add('tie:same-start-pitch-irrelevant-field')
        else:
            n.quantized_start_step = src.quantized_start_step + 1
            n.quantized_end_step = max(n.quantized_end_step, n.quantized_start_step + 1)
            hist.add('tie:same-start-time-different-step')
        ns.total_quantized_steps = max(ns.total_quantized_steps, n.quantized_end_step)


def run_event_cases(chk, cases):
    """cases: (op, params, quantized sequence, permuted copy, hist).  Model = implementation on both storage orders, and
    — whenever the theorem's hypotheses hold — the implementation's two results are equal."""
    from harness import c07
    reqs, impls = [], []
    for (op, p, ns, perm, hist) in cases:
        for x in (ns, perm):
            reqs.append(c07.req_line(op, p, nswire.encode(x)))
            impls.append(c07.run_impl(op, p, x))
    models = chk.driver('drv_c07', reqs)
    for k, (op, p, ns, perm, hist) in enumerate(cases):
        a0, a1, b0, b1 = impls[2 * k], impls[2 * k + 1], models[2 * k], models[2 * k + 1]
        if 'err Unmodelled' in (b0, b1):
            chk.count('model:' + op, None, False, 'skipped:model-declines')
            continue
        hyp = hypotheses(op, p, ns)
        same = a0 == a1
        chk.count('model:' + op, reqs[2 * k][:1500], b0 != 'bad-op' and nswire.encode(perm) != nswire.encode(ns),
                  sorted(hist) + ['hyp:%s,impl-order-independent:%s' % (hyp, same),
                                  'result:' + (a0.split()[1] if a0.startswith('err') else 'ok')])
        for a, b, x in ((a0, b0, ns), (a1, b1, perm)):
            if a != b:
                chk.disagree('model:' + op, {'op': op, 'params': p, 'sequence': nswire.encode(x)}, a[:600], b[:600])
        if hyp and not same:
            from harness import c12
            inp = {'event_op': op, 'params': p, 'sequence': nswire.encode(ns), 'permuted': nswire.encode(perm)}
            if c12.in_quantifier(ns) and len(chk.failures) < 8:
                # inside the property's quantifier the two results of the REAL code differ: the property itself fails
                chk.fail('event extraction (%s): result depends on storage order' % op, inp)
            else:
                chk.disagree('theorem:' + op, inp, a0[:600], a1[:600])


# ----------------------------------------------------------------------------- quantization coincidences (direct oracle)
def gen_coincidence(rng):
    """an UNQUANTIZED NoteSequence inside C12's quantifier (no two same-pitch notes overlap or coincide, no two chord
    symbols share a time; one tempo, one time signature) on which quantization at `spq` steps per quarter creates the two
    coincidences the extractors' secondary sort keys are for:
    * two notes of one pitch, disjoint in time, rounded onto ONE start step with different end steps
      ([k-0.4, k-0.1] and [k+0.35, k+d] in steps; the first is at least one step long after quantization);
    * two chord symbols at distinct times rounded onto ONE step, with different figures, BEFORE the start step of the
      chord extraction.
    Returns (sequence, extraction parameters)."""
    from note_seq.protobuf import music_pb2
    ns = music_pb2.NoteSequence()
    ns.ticks_per_quarter = 220
    spq = rng.choice([1, 2, 4, 4, 8])
    u = 60.0 / (120.0 * spq)                       # seconds per step at 120 qpm
    bar = 4 * spq
    x = ns.tempos.add(); x.time, x.qpm = 0.0, 120.0
    x = ns.time_signatures.add(); x.time, x.numerator, x.denominator = 0.0, 4, 4
    hist = set()
    # a monophonic line of low notes on instrument 0 (rests shorter than a bar)
    cursor, onsets = rng.choice([0, 0, 1, 3]), []
    for _ in range(rng.choice([0, 1, 3, 6])):
        d = rng.choice([1, 1, 2, 4])
        n = ns.notes.add()
        n.pitch, n.velocity, n.instrument = rng.choice([48, 50, 52, 55, 57]), rng.choice([100, 64, 30]), 0
        n.start_time, n.end_time = cursor * u, (cursor + d) * u
        onsets.append(cursor)
        cursor += d + rng.choice([0, 0, 1, 2])
    # the same-pitch pairs (pitch above the line: the melody keeps the higher note of an onset)
    pitch_pool = [72, 74, 76, 79]
    rng.shuffle(pitch_pool)
    k_prev_end = 0
    for j in range(rng.choice([1, 1, 2])):
        k = rng.choice(onsets + [k_prev_end, k_prev_end + 1, cursor]) if rng.random() < 0.8 else rng.randrange(0, cursor + 2)
        k = max(k, k_prev_end)                      # pairs of different pitch may share steps; keep them apart anyway
        d = rng.choice([2, 3, 4])
        pair = []
        for (a, b) in ((max(k - 0.4, 0.0), k - 0.1 if k > 0 else 0.3), (k + 0.35, float(k + d))):
            n = music_pb2.NoteSequence.Note()
            n.pitch, n.velocity, n.instrument = pitch_pool[j], rng.choice([100, 90]), 0
            n.start_time, n.end_time = a * u, b * u
            pair.append(n)
        if rng.random() < 0.5:
            pair.reverse()                           # stored later-first half of the time
        ns.notes.extend(pair)
        k_prev_end = k + d + rng.choice([0, 1])
        hist.add('pair:same-pitch-one-start-step')
    # chord symbols: singles at distinct steps, and pairs on one step
    steps_used = set()
    c_tie = []
    figs = ['C', 'Am', 'G7', 'F', 'Dm7', 'E7']
    for j in range(rng.choice([1, 1, 2])):
        c = rng.choice([0, 1, 2, bar - 1, bar, rng.randrange(0, 2 * bar)])
        if c in steps_used:
            continue
        steps_used.add(c)
        f = rng.sample(figs, 2)
        pair = [(max(c - 0.3, 0.0) * u, f[0]), ((c + 0.2) * u, f[1])]
        if rng.random() < 0.5:
            pair.reverse()
        for (t, fig) in pair:
            a = ns.text_annotations.add()
            a.time, a.text, a.annotation_type = t, fig, 1
        c_tie.append(c)
        hist.add('pair:chords-one-step')
    for _ in range(rng.choice([0, 1, 2])):
        c = rng.randrange(0, 3 * bar)
        if c in steps_used:
            continue
        steps_used.add(c)
        a = ns.text_annotations.add()
        a.time, a.text, a.annotation_type = c * u, rng.choice(figs), 1
    ns.total_time = max(n.end_time for n in ns.notes)
    start = max(c_tie) + rng.choice([1, 1, 2, bar]) if rng.random() < 0.85 else rng.choice(c_tie)
    params = {'spq': spq, 'gap_bars': rng.choice([1, 1, 2]), 'pad_end': rng.random() < 0.3,
              'chords': [start, start + rng.choice([1, 4, bar, 2 * bar])]}
    return ns, params, hist


def extract_ties(ns, params):
    """Melody (both polyphony settings) and ChordProgression extraction of the real code on `ns` quantized at
    params['spq']: a hashable canonical result (events, start/end step, or the exception class)."""
    from note_seq import sequences_lib as sl, melodies_lib, chords_lib
    q = sl.quantize_note_sequence(ns, params['spq'])
    out = []
    for ip in (True, False):
        m = melodies_lib.Melody()
        try:
            m.from_quantized_sequence(q, search_start_step=0, instrument=0, gap_bars=params['gap_bars'],
                                      ignore_polyphonic_notes=ip, pad_end=params['pad_end'], filter_drums=True)
            out.append(('melody', ip, tuple(int(e) for e in m), m.start_step, m.end_step))
        except Exception as e:  # pylint: disable=broad-except
            out.append(('melody', ip, type(e).__name__))
    c = chords_lib.ChordProgression()
    try:
        c.from_quantized_sequence(q, params['chords'][0], params['chords'][1])
        out.append(('chords', tuple(c), c.start_step, c.end_step))
    except Exception as e:  # pylint: disable=broad-except
        out.append(('chords', type(e).__name__))
    return tuple(out), q


def reversed_fields(ns):
    """a copy with notes and text annotations in reverse storage order (flips every pair)"""
    from note_seq.protobuf import music_pb2
    c = music_pb2.NoteSequence()
    c.CopyFrom(ns)
    for f in ('notes', 'text_annotations'):
        items = list(getattr(c, f))[::-1]
        c.ClearField(f)
        getattr(c, f).extend(items)
    return c


def run_tie_stream(chk):
    """direct permutation oracle on the implementation (the property itself) for Melody / ChordProgression extraction
    on quantization coincidences, plus the model tie on the same quantized inputs"""
    rng = chk.subrng('permB-coincidences')
    cases = []
    for i in range(chk.n(250, 3000)):
        ns, params, hist = gen_coincidence(rng)
        base, q = extract_ties(ns, params)
        mel = base[0]
        labels = sorted(hist) + ['melody(ignore_poly):' + ('ok' if len(mel) > 3 else mel[2]),
                                 'melody(strict):' + ('ok' if len(base[1]) > 3 else base[1][2]),
                                 'chords:' + ('ok' if len(base[2]) > 2 else base[2][1]),
                                 'chords-start-after-shared-step:%s' % any(
                                     sum(1 for a in q.text_annotations if a.quantized_step == b.quantized_step) > 1
                                     and b.quantized_step < params['chords'][0] for b in q.text_annotations)]
        chk.count('impl:event_extraction_coincidences', ('coinc', i), len(mel) > 3 and len(base[2]) > 2, labels)
        perms = [reversed_fields(ns), nswire.shuffled(ns, rng)]
        for p in perms:
            r, qp = extract_ties(p, params)
            if r != base and len(chk.failures) < 6:
                diff = sorted({a[0] for a, b in zip(base, r) if a != b})
                chk.fail('event_extraction: result depends on storage order',
                         {'operation': 'event_extraction', 'sequence': nswire.encode(ns), 'permuted': nswire.encode(p),
                          'extraction': params, 'differs': diff})
                break
        # the same quantized inputs through the model (both storage orders) and the theorem hypotheses
        qp = extract_ties(perms[0], params)[1]
        for ip in (True, False):
            cases.append(('melody', [0, 0, params['gap_bars'], ip, params['pad_end'], True], q, qp, {'coincidence-stream'}))
        cases.append(('chords', list(params['chords']), q, qp, {'coincidence-stream'}))
        if i < 2:
            chk.sample({'coincidence_sequence': nswire.encode(ns)[:300] + ' …', 'extraction': params, 'result': repr(base)[:300]})
    run_event_cases(chk, cases)


def replay_model_stream(chk, obj):
    """replay of a failure found by the model-tie streams: the real extractor / sustain application on the two storage
    orders (inputs are inside the property's quantifier)"""
    from harness import c07, c14, c12
    from note_seq import sequences_lib as sl
    ns, perm = nswire.decode(obj['sequence']), nswire.decode(obj['permuted'])
    if 'event_op' in obj:
        a, b = c07.run_impl(obj['event_op'], obj['params'], ns), c07.run_impl(obj['event_op'], obj['params'], perm)
        what = 'event extraction %s %s' % (obj['event_op'], obj['params'])
    else:
        a, b = canon_line(c14._call(sl, obj['sustain_ctl'], ns)), canon_line(c14._call(sl, obj['sustain_ctl'], perm))  # pylint: disable=protected-access
        what = 'apply_sustain_control_changes (controller %d)' % obj['sustain_ctl']
    print('replay C12 %s; input in quantifier: %s' % (what, c12.in_quantifier(ns)))
    print('  stored order: %s\n  permuted:     %s' % (str(a)[:400], str(b)[:400]))
    bad = a != b
    print('PROPERTY FAILS: result depends on storage order' if bad else 'property holds on this input')
    return 1 if bad else 0


def replay(chk, obj):
    """replay of a `run_tie_stream` failure: {'operation': 'event_extraction', 'sequence', 'permuted', 'extraction'}
    (harness/c12.py's replay only re-runs its own `operations()`, which extract chords from step 0)"""
    ns, p, params = nswire.decode(obj['sequence']), nswire.decode(obj['permuted']), obj['extraction']
    a, b = extract_ties(ns, params)[0], extract_ties(p, params)[0]
    print('replay C12 event_extraction (quantization coincidences):', params)
    for x, y in zip(a, b):
        print('  %-7s stored order: %s\n  %-7s permuted:     %s%s' % (x[0], x[1:], '', y[1:], '   <-- differs' if x != y else ''))
    bad = a != b
    print('PROPERTY FAILS: extraction result depends on storage order' if bad else 'property holds on this input')
    return 1 if bad else 0


def run_streams(chk):
    import warnings
    warnings.filterwarnings('ignore')
    from absl import logging as absl_logging
    absl_logging.set_verbosity(absl_logging.ERROR)
    from note_seq import sequences_lib as sl
    from harness import c07, c14

    # ---- event extraction: C07's extractors on a quantized sequence and on a permutation of it
    rng = chk.subrng('permB-events')
    cases = []
    for i in range(chk.n(800, 8000)):
        rel = rng.random() < 0.65
        hist = set()
        ns = c07.gen_seq(rng, rel, hist)
        if rng.random() < 0.5:
            add_tie_variants(rng, ns, hist)
        perm = nswire.shuffled(ns, rng)
        for op in (c07.REL_OPS if rel else c07.ABS_OPS):
            if op == 'spb':
                continue
            p = c07.gen_params(rng, op, ns, False)
            cases.append((op, p, ns, perm, hist))
    run_event_cases(chk, cases)
    run_tie_stream(chk)

    # ---- sustain: C14's model on a sequence and on a permutation of it
    rng = chk.subrng('permB-sustain')
    cases = []
    for i in range(chk.n(2500, 30000)):
        k = rng.random()
        ctl, ns = (c14.gen_valid if k < 0.7 else c14.gen_overlap if k < 0.9 else c14.gen_malformed)(rng)
        if rng.random() < 0.3:
            ns.total_time = rng.choice([0.0, ns.total_time / 2])      # total_time NOT covering the note ends
        cases.append((ctl, ns, nswire.shuffled(ns, rng)))
    reqs, impls = [], []
    for (ctl, ns, perm) in cases:
        for x in (ns, perm):
            reqs.append('sustain %d %s' % (ctl, nswire.encode(x)))
            impls.append(c14._call(sl, ctl, x))  # pylint: disable=protected-access
    models = chk.driver('drv_c14', reqs)
    for k, (ctl, ns, perm) in enumerate(cases):
        a0, a1, b0, b1 = impls[2 * k], impls[2 * k + 1], models[2 * k], models[2 * k + 1]
        hyp = sustain_hyp(ns)
        same = canon_line(a0) == canon_line(a1)
        covers = all(n.end_time <= ns.total_time for n in ns.notes)
        changed = a0.startswith('err') or a0.split(' ', 1)[1] != reqs[2 * k].split(' ', 2)[2]
        chk.count('model:sustain', reqs[2 * k][:1500], changed and nswire.encode(perm) != nswire.encode(ns),
                  ['hyp:%s,impl-order-independent:%s' % (hyp, same), 'total_time-covers:%s' % covers,
                   'result:' + (a0.split()[1] if a0.startswith('err') else 'ok')])
        for a, b, x in ((a0, b0, ns), (a1, b1, perm)):
            if a != b:
                chk.disagree('model:sustain', {'ctl': ctl, 'sequence': nswire.encode(x)}, a[:800], b[:800])
        if hyp and a0.startswith('ok'):
            from harness.common import rat
            exp = rat(total_spec(ns, ctl))
            chk.count('spec:sustain-total', None, False,
                      'total_time raised' if exp != rat(ns.total_time) else 'total_time unchanged')
            if a0.split(' ')[2] != exp:
                chk.disagree('spec:sustain-total', {'ctl': ctl, 'sequence': nswire.encode(ns)}, a0.split(' ')[2], exp)
        if hyp and not same:
            from harness import c12
            inp = {'sustain_ctl': ctl, 'sequence': nswire.encode(ns), 'permuted': nswire.encode(perm)}
            if c12.in_quantifier(ns) and len(chk.failures) < 8:
                chk.fail('apply_sustain_control_changes: result depends on storage order', inp)
            else:
                chk.disagree('theorem:sustain', inp, a0[:800], a1[:800])
