"""C16 — decoding arbitrary bytes as MIDI fails only with MIDIConversionError (DESIGN 6.16).

Proved (Lean, `Props/C16.lean`): for EVERY behaviour of the third-party constructor
`pretty_midi.PrettyMIDI` (a parameter of the model) and every byte string, if the object it
returns satisfies the explicit invariant `Inv`, `midi_to_note_sequence` returns a well-formed
sequence or raises MIDIConversionError.  The classes caught around the constructor, the `try`
context of every statement that can fail, the resolution guard, the key decoding and the whole
statement order are regenerated from the AST of the function on every run (`generate`).

Monitored here (not a proof): a structure-aware byte stream is decoded by the REAL constructor in
memory/time-capped forked workers; `Inv` is evaluated on every real object it returns (a violation
= broken assumption, reported with the bytes); the real outcome of `midi_to_note_sequence` is
compared with the compiled Lean model run on the object's contents; an independent oracle checks
the property statement on the real outcome.  A second stream feeds hand-built PrettyMIDI objects
(inside and outside `Inv`) to the real function and to the Lean `post`.
"""
import ast
import builtins
import glob
import hashlib
import io
import json
import math
import os
import resource
import signal
import struct
import sys
import tempfile
import time
import traceback
import warnings
from pathlib import Path

from harness import nswire
from harness.common import rat, wl, corpus_cases, MachineryError

PID = 'C16'
MODULES = ['NoteSeqVerif.Props.C16']
EXE = 'drv_c16'
THEOREMS = [
    'NSV.C16.midi_errors_closed', 'NSV.C16.midi_post_total', 'NSV.C16.midi_post_wf',
    'NSV.C16.midi_post_rejects_iff', 'NSV.C16.midi_post_returns', 'NSV.C16.midi_returns_iff',
    'NSV.C16.ctor_handler_catches_everything', 'NSV.C16.denominator_overflow_converted',
    'NSV.C16.midi_post_ok_resolution_pos', 'NSV.C16.postValue_wf', 'NSV.C16.postValue_total_time',
    'NSV.C16.invB_iff', 'NSV.C16.wfB_iff', 'NSV.C16.source_order_tied',
]

INV_TEXT = ('Inv (assumption on third-party pretty_midi/mido, evaluated on every real object): resolution fits int32; and when '
            'resolution > 0: every time-signature numerator, instrument program, pitch-bend value, control number and value '
            'fits int32 (and is a Python/numpy integer, not bool); note pitch and velocity are integers in 0..127; every time '
            '(time/key signature, tempo change, note start/end, bend, control change) is a finite float >= 0; start <= end for '
            'every note; get_tempo_changes() returns; is_drum is a bool; instrument names are str encodable as UTF-8; fewer '
            'than 2^31 instruments.  No clause on denominators or key numbers (any integer is either converted or rejected).')

# ============================================================================= generate
class GiveUp(Exception):
    pass


CMP = {ast.LtE: '≤', ast.Lt: '<', ast.GtE: '≥', ast.Gt: '>', ast.Eq: '=', ast.NotEq: '≠'}
KIND = {1: 'int32', 2: 'int64', 3: 'uint32', 4: 'uint64', 5: 'double', 6: 'float', 7: 'bool', 8: 'enum',
        9: 'string', 10: 'message'}


def _lean_str(s):
    return '"' + s.replace('\\', '\\\\').replace('"', '\\"') + '"'


def _lean_int(i):
    return str(i) if i >= 0 else '(%d)' % i


def ident(s):
    return ''.join(c if c.isalnum() else '_' for c in s)


class Extract:
    def __init__(self, module):
        self.mod = module
        self.path = Path(module.__file__)
        self.tree = ast.parse(self.path.read_text())
        fns = [n for n in self.tree.body if isinstance(n, ast.FunctionDef) and n.name == 'midi_to_note_sequence']
        if len(fns) != 1:
            raise GiveUp('midi_to_note_sequence not found')
        self.fn = fns[0]
        self.order = []          # statement tokens in source order
        self.sites = {}          # site name -> list of enclosing trys (innermost first)
        self.site_kind = {}
        self.ctor_trys = None
        self.var_msg = {}        # local variable -> protobuf message descriptor
        from note_seq.protobuf import music_pb2
        self.pb = music_pb2
        self.var_msg['sequence'] = music_pb2.NoteSequence.DESCRIPTOR
        self.ctor_stmt_index = None
        body = list(self.fn.body)
        if body and isinstance(body[0], ast.Expr) and isinstance(body[0].value, ast.Constant) and isinstance(body[0].value.value, str):
            body = body[1:]
        self.body = body
        for i, s in enumerate(body):
            n_before = self.ctor_trys
            self.walk([s], [])
            if n_before is None and self.ctor_trys is not None:
                self.ctor_stmt_index = i
        if self.ctor_trys is None:
            raise GiveUp('no call of pretty_midi.PrettyMIDI found')

    # ------------------------------------------------------------------ helpers
    def resolve_classes(self, node):
        """names of the exception classes of an `except <node>` clause (aliases resolved)."""
        if node is None:
            return None
        ns = dict(vars(builtins))
        ns.update(vars(self.mod))
        try:
            v = eval(compile(ast.Expression(node), '<except>', 'eval'), ns)  # pylint: disable=eval-used
            v = v if isinstance(v, tuple) else (v,)
            return [c.__name__ for c in v]
        except Exception:  # pylint: disable=broad-except
            return [ast.unparse(node)]

    def raised_class(self, stmts):
        """class raised by a handler body that ends in `raise X(...)`."""
        if not stmts or not isinstance(stmts[-1], ast.Raise):
            raise GiveUp('an except clause does not end in raise (swallows the error)')
        return self.raise_name(stmts[-1])

    def raise_name(self, r):
        e = r.exc
        if e is None:
            return '*reraise'
        if isinstance(e, ast.Call):
            e = e.func
        return ast.unparse(e).split('.')[-1]

    def try_desc(self, t):
        return [(self.resolve_classes(h.type), self.raised_class(h.body)) for h in t.handlers]

    def field_kind(self, target):
        """protobuf kind of `var.field[.field]` when var is a known message variable."""
        parts = ast.unparse(target).split('.')
        d = self.var_msg.get(parts[0])
        if d is None:
            return None
        k = None
        for p in parts[1:]:
            f = d.fields_by_name.get(p) if d is not None else None
            if f is None:
                return None
            k = KIND.get(f.cpp_type, str(f.cpp_type))
            d = f.message_type
        return k

    def note_vars(self, s):
        """`x = sequence.notes.add()` binds x to the Note message type."""
        if (isinstance(s, ast.Assign) and len(s.targets) == 1 and isinstance(s.targets[0], ast.Name)
                and isinstance(s.value, ast.Call) and isinstance(s.value.func, ast.Attribute)
                and s.value.func.attr == 'add' and not s.value.args):
            path = ast.unparse(s.value.func.value).split('.')
            d = self.var_msg.get(path[0])
            for p in path[1:]:
                f = d.fields_by_name.get(p) if d is not None else None
                d = f.message_type if f is not None else None
            if d is not None:
                self.var_msg[s.targets[0].id] = d

    def add_site(self, name, trys, kind=None):
        desc = [self.try_desc(t) for t in trys]
        if name in self.sites and self.sites[name] != desc:
            raise GiveUp('site %s occurs under different try statements' % name)
        self.sites[name] = desc
        if kind:
            self.site_kind[name] = kind

    # ------------------------------------------------------------------ walk
    def walk(self, stmts, trys):
        for s in stmts:
            if isinstance(s, ast.Try):
                self.order.append('try:')
                self.walk(s.body, [s] + trys)
                for h in s.handlers:
                    cl = self.resolve_classes(h.type)
                    self.order.append('except%s:' % ('' if cl is None else ' ' + ','.join(cl)))
                    self.walk(h.body, trys)
                if s.orelse:
                    self.order.append('else:')
                    self.walk(s.orelse, trys)
                if s.finalbody:
                    self.order.append('finally:')
                    self.walk(s.finalbody, trys)
                self.order.append('end')
            elif isinstance(s, (ast.For, ast.While)):
                if isinstance(s, ast.For):
                    self.order.append('for %s in %s:' % (ast.unparse(s.target), ast.unparse(s.iter)))
                    self.scan_calls(s.iter, trys)
                else:
                    self.order.append('while %s:' % ast.unparse(s.test))
                self.walk(s.body, trys)
                if s.orelse:
                    self.order.append('else:')
                    self.walk(s.orelse, trys)
                self.order.append('end')
            elif isinstance(s, ast.If):
                self.order.append('if %s:' % ast.unparse(s.test))
                self.walk(s.body, trys)
                if s.orelse:
                    self.order.append('else:')
                    self.walk(s.orelse, trys)
                self.order.append('end')
            elif isinstance(s, ast.With):
                self.order.append('with %s:' % ', '.join(ast.unparse(i) for i in s.items))
                self.walk(s.body, trys)
                self.order.append('end')
            elif isinstance(s, ast.Raise):
                nm = self.raise_name(s)
                self.order.append('raise %s' % nm)
                self.add_site('raise#%d' % sum(1 for t in self.order if t.startswith('raise ')), trys)
            elif isinstance(s, ast.Expr) and isinstance(s.value, ast.Constant):
                continue
            else:
                txt = ast.unparse(s)
                self.note_vars(s)
                if isinstance(s, ast.Assign) and len(s.targets) == 1 and isinstance(s.targets[0], ast.Attribute):
                    k = self.field_kind(s.targets[0])
                    if k:
                        txt += '  # ' + k
                    self.add_site(ast.unparse(s.targets[0]), trys, k)
                self.order.append(txt)
                self.scan_calls(s, trys)

    def scan_calls(self, node, trys):
        for n in ast.walk(node):
            if isinstance(n, ast.Call):
                f = ast.unparse(n.func)
                if f == 'pretty_midi.PrettyMIDI':
                    if self.ctor_trys is not None:
                        raise GiveUp('more than one PrettyMIDI constructor call')
                    self.ctor_trys = [self.try_desc(t) for t in trys]
                elif f.endswith('.get_tempo_changes'):
                    self.add_site('call get_tempo_changes', trys)

    # ------------------------------------------------------------------ semantic parameters
    def resolution_guard(self):
        """first statement after the constructor statement, when it has the form
        `if midi.resolution <op> <int>: raise X(...)`; returns (lean_test, raised, site) or None."""
        i = self.ctor_stmt_index + 1
        if i >= len(self.body):
            return None
        s = self.body[i]
        if not (isinstance(s, ast.If) and not s.orelse and len(s.body) == 1 and isinstance(s.body[0], ast.Raise)):
            return None
        t = s.test
        if not (isinstance(t, ast.Compare) and len(t.ops) == 1 and type(t.ops[0]) in CMP
                and ast.unparse(t.left) == 'midi.resolution' and isinstance(t.comparators[0], ast.Constant)
                and isinstance(t.comparators[0].value, int) and not isinstance(t.comparators[0].value, bool)):
            return None
        return ('decide (r %s %s)' % (CMP[type(t.ops[0])], _lean_int(t.comparators[0].value)), self.raise_name(s.body[0]))

    def find_assign(self, pred):
        out = [n for n in ast.walk(self.fn) if isinstance(n, ast.Assign) and len(n.targets) == 1 and pred(n)]
        return out

    def int_binop(self, node, arg):
        """`<arg> % c` / `<arg> // c` -> Lean term in k."""
        if (isinstance(node, ast.BinOp) and ast.unparse(node.left) == arg and isinstance(node.right, ast.Constant)
                and isinstance(node.right.value, int) and node.right.value > 0):
            if isinstance(node.op, ast.Mod):
                return 'Int.fmod k %d' % node.right.value
            if isinstance(node.op, ast.FloorDiv):
                return 'Int.fdiv k %d' % node.right.value
        raise GiveUp('key decoding expression not of the form key_number %%|// <positive int>: %s' % ast.unparse(node))

    def key_decoding(self):
        a = self.find_assign(lambda n: ast.unparse(n.targets[0]) == 'key_signature.key')
        m = self.find_assign(lambda n: ast.unparse(n.targets[0]) == 'midi_mode')
        if len(a) != 1 or len(m) != 1:
            raise GiveUp('key_signature.key / midi_mode assignment not found exactly once')
        key_of = self.int_binop(a[0].value, 'midi_key.key_number')
        mode_of = self.int_binop(m[0].value, 'midi_key.key_number')
        # the if/elif chain on midi_mode
        chains = [n for n in ast.walk(self.fn) if isinstance(n, ast.If) and isinstance(n.test, ast.Compare)
                  and ast.unparse(n.test.left) == 'midi_mode']
        tops = [c for c in chains if not any(c in o.orelse for o in chains)]
        if len(tops) != 1:
            raise GiveUp('mode if-chain not found')
        cases, node, els = [], tops[0], None
        KS = self.pb.NoteSequence.KeySignature
        while True:
            t = node.test
            if not (len(t.ops) == 1 and isinstance(t.ops[0], ast.Eq) and isinstance(t.comparators[0], ast.Constant)
                    and isinstance(t.comparators[0].value, int)):
                raise GiveUp('mode test not `midi_mode == <int>`')
            if not (len(node.body) == 1 and isinstance(node.body[0], ast.Assign)
                    and ast.unparse(node.body[0].targets[0]) == 'key_signature.mode'
                    and isinstance(node.body[0].value, ast.Attribute)):
                raise GiveUp('mode case body not `key_signature.mode = key_signature.<NAME>`')
            cases.append((t.comparators[0].value, int(getattr(KS, node.body[0].value.attr))))
            if len(node.orelse) == 1 and isinstance(node.orelse[0], ast.If) and node.orelse[0] in chains:
                node = node.orelse[0]
                continue
            if node.orelse:
                if not (len(node.orelse) == 1 and isinstance(node.orelse[0], ast.Raise)):
                    raise GiveUp('mode else branch is not a single raise')
                els = self.raise_name(node.orelse[0])
            break
        return key_of, mode_of, cases, els

    def raise_site_of(self, raise_node):
        """site name given by walk() to a Raise node (numbered in source order)."""
        k = 0
        for n in self._raises_in_order(self.body):
            k += 1
            if n is raise_node:
                return 'raise#%d' % k
        raise GiveUp('raise not found')

    def _raises_in_order(self, stmts):
        for s in stmts:
            if isinstance(s, ast.Raise):
                yield s
            elif isinstance(s, ast.Try):
                yield from self._raises_in_order(s.body)
                for h in s.handlers:
                    yield from self._raises_in_order(h.body)
                yield from self._raises_in_order(s.orelse)
                yield from self._raises_in_order(s.finalbody)
            elif isinstance(s, (ast.For, ast.While, ast.If)):
                yield from self._raises_in_order(s.body)
                yield from self._raises_in_order(s.orelse)
            elif isinstance(s, ast.With):
                yield from self._raises_in_order(s.body)


def lean_trys(desc):
    def clause(c):
        cl, r = c
        return '(%s, %s)' % ('none' if cl is None else 'some [%s]' % ', '.join(_lean_str(x) for x in cl), _lean_str(r))
    return '[' + ', '.join('[' + ', '.join(clause(c) for c in t) + ']' for t in desc) + ']'


# the statements of the typed model that can fail -> (Lean def name, site name in the source)
MODEL_SITES = [
    ('h_ticks_per_quarter', 'sequence.ticks_per_quarter'),
    ('h_ts_numerator', 'time_signature.numerator'),
    ('h_ts_denominator', 'time_signature.denominator'),
    ('h_get_tempo_changes', 'call get_tempo_changes'),
    ('h_info_instrument', 'instrument_info.instrument'),
    ('h_note_instrument', 'note.instrument'), ('h_note_program', 'note.program'),
    ('h_note_pitch', 'note.pitch'), ('h_note_velocity', 'note.velocity'),
    ('h_bend_instrument', 'pitch_bend.instrument'), ('h_bend_program', 'pitch_bend.program'),
    ('h_bend_bend', 'pitch_bend.bend'),
    ('h_cc_instrument', 'control_change.instrument'), ('h_cc_program', 'control_change.program'),
    ('h_cc_number', 'control_change.control_number'), ('h_cc_value', 'control_change.control_value'),
]
INT32_SITES = [s for _, s in MODEL_SITES if not s.startswith('call ')]
DOUBLE_SITES = ['time_signature.time', 'key_signature.time', 'tempo.time', 'tempo.qpm', 'sequence.total_time',
                'note.start_time', 'note.end_time', 'pitch_bend.time', 'control_change.time']


def render(module):
    """Lean source of Generated/C16.lean for the module's current source; raises GiveUp."""
    import pretty_midi
    x = Extract(module)
    TY = 'List (List (Option (List String) × String))'
    L = ['/-! GENERATED from /repo/note_seq/midi_io.py (AST of midi_to_note_sequence) on every run by',
         'harness/c16.py — do not edit.  A `try` is the list of its `except` clauses',
         '(classes caught, `none` = bare except; class raised by the clause body); a statement carries the',
         'list of the `try` statements that enclose it, innermost first. -/',
         'namespace NSV.C16.Gen',
         '/-- the `try` statements around `pretty_midi.PrettyMIDI(io.BytesIO(midi_data))` -/',
         'def ctorTrys : %s := %s' % (TY, lean_trys(x.ctor_trys))]
    g = x.resolution_guard()
    L.append('/-- `if midi.resolution <op> <c>: raise X` directly after the constructor statement (false/absent if not there) -/')
    if g:
        site = x.raise_site_of(x.body[x.ctor_stmt_index + 1].body[0])
        L += ['def resolutionGuardPresent : Bool := true',
              'def resolutionRejected (r : Int) : Bool := %s' % g[0],
              'def resolutionGuardRaises : String := %s' % _lean_str(g[1]),
              'def h_resolution_guard : %s := %s' % (TY, lean_trys(x.sites[site]))]
    else:
        L += ['def resolutionGuardPresent : Bool := false',
              'def resolutionRejected (_r : Int) : Bool := false',
              'def resolutionGuardRaises : String := ""',
              'def h_resolution_guard : %s := []' % TY]
    for name, site in MODEL_SITES:
        if site not in x.sites:
            raise GiveUp('statement `%s` not found in midi_to_note_sequence' % site)
        L.append('def %s : %s := %s   -- %s' % (name, TY, lean_trys(x.sites[site]), site))
    for s in INT32_SITES:
        if x.site_kind.get(s) != 'int32':
            raise GiveUp('protobuf field %s is %s, the model treats it as int32' % (s, x.site_kind.get(s)))
    for s in DOUBLE_SITES:
        if x.site_kind.get(s) != 'double':
            raise GiveUp('protobuf field %s is %s, the model treats it as double' % (s, x.site_kind.get(s)))
    key_of, mode_of, cases, els = x.key_decoding()
    chain_top = [n for n in ast.walk(x.fn) if isinstance(n, ast.If) and isinstance(n.test, ast.Compare)
                 and ast.unparse(n.test.left) == 'midi_mode']
    L += ['/-- `key_signature.key = …` and `midi_mode = …` as functions of `midi_key.key_number` -/',
          'def keyOf (k : Int) : Int := %s' % key_of,
          'def modeOf (k : Int) : Int := %s' % mode_of,
          '/-- `if midi_mode == a: key_signature.mode = <enum b>` cases, in order -/',
          'def modeCases : List (Int × Int) := [%s]' % ', '.join('(%s, %s)' % (_lean_int(a), _lean_int(b)) for a, b in cases),
          'def modeElseRaises : Option String := %s' % ('none' if els is None else 'some ' + _lean_str(els))]
    if els is not None:
        # the else-raise of the chain
        node = [n for n in chain_top if not any(n in o.orelse for o in chain_top)][0]
        while len(node.orelse) == 1 and isinstance(node.orelse[0], ast.If):
            node = node.orelse[0]
        L.append('def h_mode_raise : %s := %s' % (TY, lean_trys(x.sites[x.raise_site_of(node.orelse[0])])))
    else:
        L.append('def h_mode_raise : %s := []' % TY)
    ns = dict(vars(module))
    par = [n for n in ast.walk(x.fn) if isinstance(n, ast.Assign) and ast.unparse(n.targets[0]) == 'sequence.source_info.parser']
    enc = [n for n in ast.walk(x.fn) if isinstance(n, ast.Assign) and ast.unparse(n.targets[0]) == 'sequence.source_info.encoding_type']
    if len(par) != 1 or len(enc) != 1:
        raise GiveUp('source_info assignments not found')
    L += ['def PARSER : Int := %d' % int(eval(ast.unparse(par[0].value), ns)),  # pylint: disable=eval-used
          'def ENCODING : Int := %d' % int(eval(ast.unparse(enc[0].value), ns)),  # pylint: disable=eval-used
          '/-- pretty_midi.pretty_midi.MAX_TICK as set by midi_io at import (allocation hazard, not used by a theorem) -/',
          'def MAX_TICK : Nat := %d' % int(pretty_midi.pretty_midi.MAX_TICK),
          '/-- every statement of midi_to_note_sequence in source order (raise messages dropped; protobuf field kinds appended) -/',
          'def sourceOrder : List String := [']
    L += ['  %s%s' % (_lean_str(t), ',' if i + 1 < len(x.order) else '') for i, t in enumerate(x.order)]
    L += [']', 'end NSV.C16.Gen', '']
    return '\n'.join(L), x



def generate(chk):
    """Generated/C16.lean from the working tree's midi_io.py (AST)."""
    from note_seq import midi_io
    try:
        txt, x = render(midi_io)
    except GiveUp as e:
        chk.translit['midi_to_note_sequence handler structure'] = 'BROKEN: %s' % e
        chk.broken.append('translator:C16 (%s)' % e)
        return None
    chk.translit['midi_to_note_sequence handler structure'] = (
        'regenerated from AST of %s: ctor trys %s; %d statements in source order; %d try contexts'
        % (midi_io.__file__, x.ctor_trys, len(x.order), len(x.sites)))
    chk.regenerate('NoteSeqVerif/Generated/C16.lean', txt)
    return x


# ============================================================================= SMF bytes
def vlq(n, pad=0):
    out = [n & 0x7f]
    n >>= 7
    while n:
        out.append((n & 0x7f) | 0x80)
        n >>= 7
    out += [0x80] * pad
    return bytes(reversed(out))


def _read_vlq(d, p):
    v = 0
    while True:
        b = d[p]
        p += 1
        v = (v << 7) | (b & 0x7f)
        if b < 0x80:
            return v, p


DATA_LEN = {0x8: 2, 0x9: 2, 0xA: 2, 0xB: 2, 0xC: 1, 0xD: 1, 0xE: 2}
SYS_LEN = {0xF1: 1, 0xF2: 2, 0xF3: 1}


def parse_smf(b):
    """tolerant parser for the (valid) seed files -> dict(fmt, ntrks, div, hlen, tracks=[[(delta, msg)]])"""
    if b[:4] != b'MThd':
        raise ValueError('no MThd')
    hlen = struct.unpack('>I', b[4:8])[0]
    fmt, ntrks, div = struct.unpack('>HHH', b[8:14])
    pos = 8 + hlen
    tracks = []
    while pos + 8 <= len(b):
        name, ln = struct.unpack('>4sI', b[pos:pos + 8])
        pos += 8
        data = b[pos:pos + ln]
        pos += ln
        if name != b'MTrk':
            continue
        evs, p, status = [], 0, None
        while p < len(data):
            d, p = _read_vlq(data, p)
            st = data[p]
            if st < 0x80:
                st = status
            else:
                p += 1
                if st < 0xf0:
                    status = st
            if st == 0xff:
                typ = data[p]
                p += 1
                n, p = _read_vlq(data, p)
                msg = bytes([0xff, typ]) + vlq(n) + data[p:p + n]
                p += n
            elif st in (0xf0, 0xf7):
                n, p = _read_vlq(data, p)
                msg = bytes([st]) + vlq(n) + data[p:p + n]
                p += n
            else:
                n = DATA_LEN.get(st >> 4, SYS_LEN.get(st, 0)) if st < 0xf0 else SYS_LEN.get(st, 0)
                msg = bytes([st]) + data[p:p + n]
                p += n
            evs.append((d, msg))
        tracks.append(evs)
    return {'fmt': fmt, 'ntrks': ntrks, 'div': div, 'hlen': 6, 'tracks': tracks}


def build_smf(s, running=False, pad=0):
    """serialise; s may carry 'lens' (track index -> declared length) and 'hlen'."""
    hl = s.get('hlen', 6)
    hdr = struct.pack('>HHH', s['fmt'] & 0xffff, s['ntrks'] & 0xffff, s['div'] & 0xffff)
    hdr = (hdr + b'\x00' * 8)[:max(hl, 0)] if hl != 6 else hdr
    out = [b'MThd', struct.pack('>I', s.get('hlen_field', len(hdr)) & 0xffffffff), hdr]
    for ti, evs in enumerate(s['tracks']):
        body, status = bytearray(), None
        for (d, msg) in evs:
            body += vlq(d, pad if pad and d % 3 == 0 else 0)
            st = msg[0]
            if running and 0x80 <= st < 0xf0 and st == status:
                body += msg[1:]
            else:
                body += msg
            status = st if 0x80 <= st < 0xf0 else (status if st == 0xff else None)
        ln = s.get('lens', {}).get(ti, len(body))
        out += [s.get('names', {}).get(ti, b'MTrk'), struct.pack('>I', ln & 0xffffffff), bytes(body)]
    return b''.join(out)


DIVS = [0, 1, 2, 24, 96, 220, 480, 960, 0x7fff, 0x8000, 0x8001, 0xE250, 0xE728, 0xFFFF]
# deltas: mostly small; a few that make the tick table large (2e6 ticks = 16 MB … 2e10 > MAX_TICK)
SMALL_DELTAS = [0] * 10 + [1] * 4 + [10, 55, 110, 120, 240, 480, 481, 960, 5000] * 3
BIG_DELTAS = [200000, 2 * 10**6, 3 * 10**7, 2 * 10**8, 5 * 10**9, 10**10 - 2, 10**10 - 1, 10**10, 2 * 10**10, 2**40, 2**70]
DELTAS = SMALL_DELTAS + BIG_DELTAS


def delta_profile(rng):
    """per file: 86 % only small deltas, 9 % also 2e5 / 2e6 ticks (16 MB table), 5 % any (up to 2^70)."""
    k = rng.random()
    return SMALL_DELTAS if k < 0.86 else SMALL_DELTAS + BIG_DELTAS[:2] * 3 if k < 0.95 else DELTAS
DD = [0, 1, 2, 3, 4, 5, 8, 29, 30, 31, 32, 33, 62, 63, 64, 127, 128, 254, 255]
NN = [0, 1, 2, 3, 4, 6, 7, 9, 12, 127, 128, 255]
SF = [0, 1, 2, 6, 7, 8, 9, 127, 128, 129, 247, 248, 249, 250, 255]
MI = [0, 0, 1, 1, 2, 3, 127, 128, 255]


def rbytes(rng, n):
    return bytes(rng.randrange(256) for _ in range(n))


def rand_meta(rng):
    """a meta event: every type, valid and out-of-range payloads, wrong lengths."""
    k = rng.random()
    if k < 0.18:
        data = bytes([rng.choice(NN), rng.choice(DD), rng.choice([24, 0, 255]), rng.choice([8, 0, 255])])
        if rng.random() < 0.1:
            data = data[:rng.randrange(0, 4)] if rng.random() < 0.5 else data + rbytes(rng, rng.randrange(1, 3))
        return b'\xff\x58' + vlq(len(data)) + data, 'time_signature'
    if k < 0.36:
        data = bytes([rng.choice(SF), rng.choice(MI)])
        if rng.random() < 0.1:
            data = data[:rng.randrange(0, 2)] if rng.random() < 0.5 else data + rbytes(rng, 1)
        return b'\xff\x59' + vlq(len(data)) + data, 'key_signature'
    if k < 0.52:
        v = rng.choice([500000, 500000, 1, 0, 0xFFFFFF, 250000, 1000000, 3, rng.randrange(1 << 24)])
        data = v.to_bytes(3, 'big')
        if rng.random() < 0.1:
            data = data[:rng.randrange(0, 3)] if rng.random() < 0.5 else data + rbytes(rng, 1)
        return b'\xff\x51' + vlq(len(data)) + data, 'set_tempo'
    if k < 0.66:
        typ = rng.choice([1, 2, 3, 3, 3, 4, 5, 6, 7, 8, 9])
        n = rng.choice([0, 1, 3, 8, 20])
        data = bytes(rng.choice([0, 0x41, 0x61, 0x20, 0x7f, 0x80, 0xe9, 0xff, rng.randrange(256)]) for _ in range(n))
        return bytes([0xff, typ]) + vlq(n) + data, 'text%d' % typ
    if k < 0.72:
        return b'\xff\x2f' + (b'\x00' if rng.random() < 0.8 else b'\x01\x00'), 'end_of_track'
    if k < 0.78:
        data = bytes([rng.choice([0, 0x20, 0x40, 0x60, 0x80, 0xff, rng.randrange(256)]), rng.randrange(256),
                      rng.randrange(256), rng.randrange(256), rng.randrange(256)])
        if rng.random() < 0.2:
            data = data[:rng.randrange(0, 5)]
        return b'\xff\x54' + vlq(len(data)) + data, 'smpte_offset'
    if k < 0.86:
        typ, n = rng.choice([(0x00, 2), (0x00, 0), (0x20, 1), (0x21, 1), (0x7f, 4), (0x00, 3), (0x20, 0), (0x21, 2)])
        return bytes([0xff, typ]) + vlq(n) + rbytes(rng, n), 'meta%02x' % typ
    typ = rng.randrange(256)
    n = rng.choice([0, 1, 2, 5, 130])
    return bytes([0xff, typ]) + vlq(n) + rbytes(rng, n), 'meta-any'


def rand_channel(rng, bad=0.03):
    """a channel / system message; with probability `bad` a data byte >= 0x80."""
    ch = rng.choice([0, 0, 1, 2, 9, 9, 15, rng.randrange(16)])
    k = rng.random()
    d = lambda: rng.randrange(128) if rng.random() > bad else rng.randrange(128, 256)
    pit = lambda: rng.choice([60, 60, 62, 64, 36, 0, 127, rng.randrange(128)]) if rng.random() > bad else rng.randrange(128, 256)
    if k < 0.34:
        return bytes([0x90 | ch, pit(), rng.choice([0, 1, 64, 100, 127, d()])]), 'note_on'
    if k < 0.56:
        return bytes([0x80 | ch, pit(), d()]), 'note_off'
    if k < 0.68:
        return bytes([0xB0 | ch, rng.choice([64, 7, 1, 0, 127, d()]), d()]), 'control_change'
    if k < 0.76:
        return bytes([0xC0 | ch, d()]), 'program_change'
    if k < 0.86:
        return bytes([0xE0 | ch, d(), d()]), 'pitchwheel'
    if k < 0.90:
        return bytes([0xA0 | ch, d(), d()]), 'polytouch'
    if k < 0.93:
        return bytes([0xD0 | ch, d()]), 'aftertouch'
    if k < 0.96:
        n = rng.choice([0, 1, 4])
        return bytes([rng.choice([0xf0, 0xf7])]) + vlq(n) + rbytes(rng, n), 'sysex'
    st = rng.choice([0xf1, 0xf2, 0xf3, 0xf4, 0xf5, 0xf6, 0xf8, 0xfa, 0xfe])
    return bytes([st]) + bytes(rng.randrange(128) for _ in range(SYS_LEN.get(st, 0))), 'system%02x' % st


def synth(rng, tags):
    """a file written message by message: 1-3 tracks, tempo/time/key events (also on non-zero
    tracks), overlapping notes on one pitch, on/off on the same tick, note_on velocity 0 as off,
    program changes while notes sound, controllers and bends before the first note, drums."""
    ntr = rng.choice([1, 1, 2, 3])
    tracks = []
    deltas = delta_profile(rng)
    for ti in range(ntr):
        evs = []
        if rng.random() < 0.5:
            nm = rng.choice([b'Piano', b'', b'\xe9t\xe9', b'a\x00b', b'x' * 40])
            evs.append((0, b'\xff\x03' + vlq(len(nm)) + nm))
        open_notes = []
        for _ in range(rng.choice([0, 2, 6, 12, 30])):
            d = rng.choice(deltas) if rng.random() < 0.93 else rng.randrange(0, 3000)
            k = rng.random()
            if k < 0.2 and (ti == 0 or rng.random() < 0.15):
                m, tag = rand_meta(rng)
            elif k < 0.3 and open_notes:
                ch, p = open_notes.pop(rng.randrange(len(open_notes)))
                m, tag = (bytes([0x80 | ch, p, 64]) if rng.random() < 0.6 else bytes([0x90 | ch, p, 0])), 'close'
            else:
                m, tag = rand_channel(rng)
                if m[0] >> 4 == 9 and len(m) == 3 and m[2] > 0 and m[1] < 128:
                    open_notes.append((m[0] & 15, m[1]))
                    if rng.random() < 0.15:     # same pitch again -> overlapping notes closed by one off
                        evs.append((d, m))
                        d = rng.choice([0, 10])
            tags.add('ev:' + tag)
            evs.append((d, m))
        if rng.random() < 0.5:
            for ch, p in open_notes:
                evs.append((rng.choice([0, 0, 10, 480]), bytes([0x80 | ch, p, 0])))
        if rng.random() < 0.9:
            evs.append((rng.choice([0, 0, 1, 480]), b'\xff\x2f\x00'))
        tracks.append(evs)
    s = {'fmt': rng.choice([0, 1, 1, 1, 2, 3, 0xffff]) if rng.random() < 0.3 else (0 if ntr == 1 else 1),
         'ntrks': ntr if rng.random() < 0.92 else rng.choice([0, ntr + 1, ntr - 1, 0xffff]),
         'div': rng.choice(DIVS) if rng.random() < 0.45 else rng.choice([96, 220, 480]), 'tracks': tracks}
    if s['div'] >= 0x8000:
        tags.add('div>=0x8000')
    if rng.random() < 0.08:
        s['lens'] = {rng.randrange(ntr): rng.choice([0, 1, 3, 10**6, 0xffffffff])}
        tags.add('track-length-wrong')
    return build_smf(s, running=rng.random() < 0.5, pad=rng.choice([0, 0, 0, 1, 3]))


def mutate_struct(rng, seed, tags):
    """1-4 structural mutations of a parsed valid file."""
    s = {'fmt': seed['fmt'], 'ntrks': seed['ntrks'], 'div': seed['div'], 'hlen': 6,
         'tracks': [list(t) for t in seed['tracks']]}
    running, pad = rng.random() < 0.5, 0
    for _ in range(rng.choice([1, 1, 2, 3, 4])):
        op = rng.choice(['div', 'div', 'fmt', 'ntrks', 'hlen', 'tracklen', 'delta', 'delta', 'meta', 'meta', 'meta',
                         'chan', 'chan', 'del', 'dup', 'swap', 'vel0', 'unclosed', 'eot', 'addtrack', 'deltrack',
                         'movemeta', 'vlqpad', 'trackname', 'databyte'])
        tags.add('mut:' + op)
        tr = s['tracks'][rng.randrange(len(s['tracks']))] if s['tracks'] else None
        if op == 'div':
            s['div'] = rng.choice(DIVS)
            if s['div'] >= 0x8000:
                tags.add('div>=0x8000')
        elif op == 'fmt':
            s['fmt'] = rng.choice([0, 1, 2, 3, 0x7fff, 0x8000, 0xffff])
        elif op == 'ntrks':
            s['ntrks'] = rng.choice([0, 1, len(s['tracks']) + 1, max(len(s['tracks']) - 1, 0), 0x7fff, 0x8000, 0xffff])
        elif op == 'hlen':
            if rng.random() < 0.5:
                s['hlen'] = rng.choice([0, 4, 5, 7, 8, 12])
            else:
                s['hlen_field'] = rng.choice([0, 5, 7, 100, 0x7fffffff, 0xffffffff])
        elif op == 'tracklen' and tr is not None:
            ti = rng.randrange(len(s['tracks']))
            real = len(build_smf({'fmt': 0, 'ntrks': 1, 'div': 1, 'tracks': [s['tracks'][ti]]}, running)) - 22
            s.setdefault('lens', {})[ti] = rng.choice([0, 1, real - 1, real + 1, real // 2, real * 2, 10**6 + 1, 0xffffffff])
        elif op == 'delta' and tr:
            i = rng.randrange(len(tr))
            tr[i] = (rng.choice(delta_profile(rng)), tr[i][1])
        elif op == 'meta' and tr is not None:
            t0 = s['tracks'][0] if rng.random() < 0.8 else tr
            m, tag = rand_meta(rng)
            tags.add('ev:' + tag)
            t0.insert(rng.randrange(len(t0) + 1), (rng.choice([0, 0, 0, 10, 480, 1000]), m))
        elif op == 'chan' and tr is not None:
            m, tag = rand_channel(rng, bad=0.1)
            tags.add('ev:' + tag)
            tr.insert(rng.randrange(len(tr) + 1), (rng.choice([0, 0, 10, 480]), m))
        elif op == 'del' and tr:
            del tr[rng.randrange(len(tr))]
        elif op == 'dup' and tr:
            i = rng.randrange(len(tr))
            tr.insert(i, tr[i])
        elif op == 'swap' and tr and len(tr) > 1:
            i = rng.randrange(len(tr) - 1)
            tr[i], tr[i + 1] = tr[i + 1], tr[i]
        elif op == 'vel0' and tr:
            idx = [i for i, (d, m) in enumerate(tr) if m[0] >> 4 == 9]
            if idx:
                i = rng.choice(idx)
                tr[i] = (tr[i][0], tr[i][1][:2] + b'\x00')
        elif op == 'unclosed' and tr:
            tr[:] = [(d, m) for (d, m) in tr if not (m[0] >> 4 == 8 and rng.random() < 0.5)]
        elif op == 'eot' and tr is not None:
            if rng.random() < 0.5:
                tr[:] = [(d, m) for (d, m) in tr if m[:2] != b'\xff\x2f']
            else:
                tr.insert(rng.randrange(len(tr) + 1), (0, b'\xff\x2f\x00'))
        elif op == 'addtrack' and tr is not None:
            s['tracks'].insert(rng.randrange(len(s['tracks']) + 1), list(tr))
            if rng.random() < 0.7:
                s['ntrks'] = len(s['tracks'])
        elif op == 'deltrack' and len(s['tracks']) > 0:
            del s['tracks'][rng.randrange(len(s['tracks']))]
            if rng.random() < 0.7:
                s['ntrks'] = len(s['tracks'])
        elif op == 'movemeta' and len(s['tracks']) > 1:
            metas = [e for e in s['tracks'][0] if e[1][:2] in (b'\xff\x51', b'\xff\x58', b'\xff\x59')]
            if metas:
                s['tracks'][-1].insert(0, rng.choice(metas))
        elif op == 'vlqpad':
            pad = rng.choice([1, 2, 4, 9])
        elif op == 'trackname' and tr is not None:
            if rng.random() < 0.5:
                s.setdefault('names', {})[rng.randrange(len(s['tracks']))] = rng.choice([b'MTrk', b'MThd', b'XTrk', b'mtrk', b'RIFF'])
            else:
                nm = rng.choice([b'', b'Lead', b'\xff\xfe', b'caf\xe9', b'\x00'])
                tr.insert(0, (0, b'\xff\x03' + vlq(len(nm)) + nm))
        elif op == 'databyte' and tr:
            i = rng.randrange(len(tr))
            m = bytearray(tr[i][1])
            if len(m) > 1:
                m[rng.randrange(1, len(m))] = rng.choice([0, 0x7f, 0x80, 0xff, rng.randrange(256)])
                tr[i] = (tr[i][0], bytes(m))
    return build_smf(s, running=running, pad=pad)


def mutate_raw(rng, b):
    b = bytearray(b)
    for _ in range(rng.randint(1, 8)):
        if not b:
            break
        op, pos = rng.random(), rng.randrange(len(b))
        if op < 0.45:
            b[pos] = rng.randrange(256)
        elif op < 0.65:
            b[pos] = rng.choice([0, 0x7f, 0x80, 0xff])
        elif op < 0.75:
            b[pos] ^= 1 << rng.randrange(8)
        elif op < 0.88:
            del b[pos:pos + rng.randint(1, 8)]
        else:
            b[pos:pos] = rbytes(rng, rng.randint(1, 6))
    return bytes(b)


def forced_cases():
    """the coincidences the property text names, one file each (always run, every tier)."""
    out = []
    eot = (0, b'\xff\x2f\x00')
    note = [(0, b'\x90\x3c\x64'), (480, b'\x80\x3c\x40')]

    def f(name, div=480, t0=(), t1=None, fmt=1, **kw):
        tracks = [list(t0) + [eot]] + ([list(t1) + [eot]] if t1 is not None else [])
        s = {'fmt': fmt if t1 is not None else 0, 'ntrks': len(tracks), 'div': div, 'tracks': tracks}
        s.update(kw)
        out.append((name, build_smf(s)))
    tempo = lambda v: b'\xff\x51\x03' + v.to_bytes(3, 'big')
    for div in DIVS + [0x8000 | 25, 0xE764]:
        f('division=0x%04x tempo-change, no note (F-C16-1 shape)' % div, div, [(0, tempo(500000)), (100, tempo(400000))])
        f('division=0x%04x completed note' % div, div, [(0, tempo(500000))], note)
        f('division=0x%04x tempo-change + note + bend + cc' % div, div, [(0, tempo(500000)), (100, tempo(400000))],
          [(0, b'\xb0\x40\x7f'), (0, b'\xe0\x00\x40')] + note)
    for dd in DD:
        for nn in (4, 0, 255):
            f('time signature %d/2^%d' % (nn, dd), 480, [(0, b'\xff\x58\x04' + bytes([nn, dd, 24, 8]))], note)
    f('two time signatures, second 4/2^255 after a valid one', 480,
      [(0, b'\xff\x58\x04\x04\x02\x18\x08'), (480, b'\xff\x58\x04\x04\xff\x18\x08')], note)
    for sf in SF:
        for mi in (0, 1, 2, 255):
            f('key signature sf=%d mi=%d' % (sf if sf < 128 else sf - 256, mi), 480, [(0, b'\xff\x59\x02' + bytes([sf, mi]))], note)
    for v in (0, 1, 3, 0xFFFFFF):
        f('set_tempo %d at 0' % v, 480, [(0, tempo(v))], note)
        f('set_tempo %d at tick 480' % v, 480, [(0, tempo(500000)), (480, tempo(v))], note)
    for dl in (2 * 10**6, 3 * 10**7, 2 * 10**8, 5 * 10**9, 10**10 - 2, 10**10 - 1, 10**10, 2**70):
        f('last tick %d (MAX_TICK = 1e10)' % dl, 480, [(0, tempo(500000))], [(0, b'\x90\x3c\x64'), (dl, b'\x80\x3c\x40')])
        f('tempo change at tick %d' % dl, 480, [(0, tempo(500000)), (dl, tempo(400000))], note)
    f('note on/off same tick, then off', 480, [], [(0, b'\x90\x3c\x64'), (0, b'\x80\x3c\x40'), (10, b'\x80\x3c\x40')])
    f('two note-ons one off', 480, [], [(0, b'\x90\x3c\x64'), (10, b'\x90\x3c\x50'), (10, b'\x80\x3c\x40')])
    f('cc + bend before first note (straggler), program change mid note', 480, [],
      [(0, b'\xb0\x07\x64'), (0, b'\xe0\x00\x00'), (0, b'\x90\x3c\x64'), (5, b'\xc0\x05'), (5, b'\x80\x3c\x40'),
       (0, b'\xe0\x7f\x7f'), (0, b'\xb0\x40\x7f')])
    f('drum channel + named track latin1', 480, [(0, b'\xff\x03\x04caf\xe9')], [(0, b'\xff\x03\x03\x00\xff\x80'), (0, b'\x99\x24\x7f'), (1, b'\x89\x24\x00')])
    f('tempo/key/time events on track 1 only', 480, [], [(0, tempo(300000)), (0, b'\xff\x59\x02\x08\x00'), (0, b'\xff\x58\x04\x04\xff\x18\x08')] + note)
    f('no tracks', 480, [], None, ntrks=0, tracks=[])
    f('ntrks=0xffff', 480, [], note, ntrks=0xffff)
    f('empty track (no events)', 480, [], None, tracks=[[]], ntrks=1)
    out.append(('empty input', b''))
    out.append(('MThd only', b'MThd'))
    out.append(('RIFF wrapper', b'RIFF\x00\x00\x00\x20RMIDdata' + build_smf({'fmt': 0, 'ntrks': 1, 'div': 96, 'tracks': [note + [eot]]})))
    out.append(('running status without status', build_smf({'fmt': 0, 'ntrks': 1, 'div': 96, 'tracks': [[(0, b'\x3c\x40'), eot]]})))
    out.append(('unterminated vlq', b'MThd\x00\x00\x00\x06\x00\x00\x00\x01\x00\x60MTrk\x00\x00\x00\x04\x81\x81\x81\x81'))
    out.append(('meta length beyond 1e6', b'MThd\x00\x00\x00\x06\x00\x00\x00\x01\x00\x60MTrk\x00\x00\x00\x08\x00\xff\x01\xff\xff\xff\x7f\x00'))
    return out


# ============================================================================= Inv on the real object, wire form
INT32 = (-2**31, 2**31 - 1)


class Unencodable(Exception):
    pass


def _is_int(x):
    import numpy as np
    return isinstance(x, (int, np.integer)) and not isinstance(x, (bool, np.bool_))


def _is_time(x):
    import numpy as np
    return isinstance(x, (float, int, np.floating, np.integer)) and not isinstance(x, (bool, np.bool_)) and math.isfinite(x)


def _i32(x):
    return _is_int(x) and INT32[0] <= int(x) <= INT32[1]


def tempo_changes(pm):
    """outcome of the third-party call the function makes after the constructor."""
    try:
        t, q = pm.get_tempo_changes()
        return ('ok', [(float(a), float(b)) for a, b in zip(t, q)], [(a, b) for a, b in zip(t, q)])
    except BaseException as e:  # pylint: disable=broad-except
        return ('err', exc_wire(e), None)


def exc_wire(e):
    cls = e if isinstance(e, type) else type(e)
    mro = [c.__name__ for c in cls.__mro__]
    return '%s %s' % (cls.__name__, wl(mro))


def check_inv(pm, tempo):
    """`Inv` (Model/C16.lean) evaluated directly on the actual PrettyMIDI object, types included.
    Returns (violations, departures from the documented loader ranges)."""
    v, r = [], []
    res = pm.resolution
    if not _i32(res):
        v.append('resolution %r' % (res,))
        return v, r
    if not -32768 <= res <= 32767:
        r.append('resolution outside int16')
    if res <= 0:
        return v, r
    for t in pm.time_signature_changes:
        if not _i32(t.numerator):
            v.append('time signature numerator %r' % (t.numerator,))
        elif not 1 <= t.numerator <= 255:
            r.append('numerator outside 1..255')
        if not _is_int(t.denominator):
            v.append('time signature denominator type %r' % (t.denominator,))
        elif not (1 <= t.denominator <= 2**255 and t.denominator & (t.denominator - 1) == 0):
            r.append('denominator not 2^k, k in 0..255')
        if not (_is_time(t.time) and t.time >= 0):
            v.append('time signature time %r' % (t.time,))
    for k in pm.key_signature_changes:
        if not _is_int(k.key_number):
            v.append('key number type %r' % (k.key_number,))
        elif not 0 <= k.key_number <= 23:
            r.append('key number outside 0..23')
        if not (_is_time(k.time) and k.time >= 0):
            v.append('key signature time %r' % (k.time,))
    if tempo[0] != 'ok':
        v.append('get_tempo_changes raised %s' % tempo[1].split()[0])
    else:
        for (a, b) in tempo[2]:
            if not (_is_time(a) and a >= 0):
                v.append('tempo time %r' % (a,))
            if not _is_time(b):
                v.append('tempo qpm %r' % (b,))
            elif not b > 0:
                r.append('qpm not positive')
    if len(pm.instruments) > 2**31:
        v.append('2^31 instruments')
    import numpy as np
    for ins in pm.instruments:
        if not _i32(ins.program):
            v.append('program %r' % (ins.program,))
        elif not 0 <= ins.program <= 127:
            r.append('program outside 0..127')
        if not isinstance(ins.is_drum, (bool, np.bool_)):
            v.append('is_drum %r' % (ins.is_drum,))
        try:
            if not isinstance(ins.name, str):
                raise TypeError
            ins.name.encode('utf-8')
        except Exception:  # pylint: disable=broad-except
            v.append('instrument name %r' % (ins.name,))
        for n in ins.notes:
            if not (_is_int(n.pitch) and 0 <= n.pitch <= 127):
                v.append('pitch %r' % (n.pitch,))
            if not (_is_int(n.velocity) and 0 <= n.velocity <= 127):
                v.append('velocity %r' % (n.velocity,))
            elif n.velocity == 0:
                r.append('note with velocity 0')
            if not (_is_time(n.start) and _is_time(n.end) and 0 <= n.start <= n.end):
                v.append('note times %r %r' % (n.start, n.end))
        for b in ins.pitch_bends:
            if not _i32(b.pitch):
                v.append('bend %r' % (b.pitch,))
            elif not -8192 <= b.pitch <= 8191:
                r.append('bend outside -8192..8191')
            if not (_is_time(b.time) and b.time >= 0):
                v.append('bend time %r' % (b.time,))
        for c in ins.control_changes:
            if not (_i32(c.number) and _i32(c.value)):
                v.append('control change %r %r' % (c.number, c.value))
            elif not (0 <= c.number <= 127 and 0 <= c.value <= 127):
                r.append('control number/value outside 0..127')
            if not (_is_time(c.time) and c.time >= 0):
                v.append('control change time %r' % (c.time,))
    return v[:8], sorted(set(r))


def _int(x):
    if not _is_int(x):
        raise Unencodable('not an integer: %r' % (x,))
    return str(int(x))


def _t(x):
    if not _is_time(x):
        raise Unencodable('not a finite time: %r' % (x,))
    return rat(float(x))


def pm_wire(pm, tempo):
    """contents of a PrettyMIDI object as the driver's <PM> (exact rationals for times)."""
    import numpy as np
    t = ['PM', _int(pm.resolution)]
    t.append(wl('%s %s %s' % (_int(x.numerator), _int(x.denominator), _t(x.time)) for x in pm.time_signature_changes))
    t.append(wl('%s %s' % (_int(x.key_number), _t(x.time)) for x in pm.key_signature_changes))
    if tempo[0] == 'ok':
        t.append('T ok ' + wl('%s %s' % (_t(a), _t(b)) for a, b in tempo[2]))
    else:
        t.append('T err ' + tempo[1])
    ins_t = []
    for ins in pm.instruments:
        if not isinstance(ins.is_drum, (bool, np.bool_)):
            raise Unencodable('is_drum %r' % (ins.is_drum,))
        if not isinstance(ins.name, str):
            raise Unencodable('name %r' % (ins.name,))
        try:
            nm = nswire.hx(ins.name)
        except UnicodeEncodeError:
            raise Unencodable('name not utf-8 encodable')
        ins_t.append(' '.join([
            _int(ins.program), '1' if ins.is_drum else '0', nm,
            wl('%s %s %s %s' % (_int(n.velocity), _int(n.pitch), _t(n.start), _t(n.end)) for n in ins.notes),
            wl('%s %s' % (_int(b.pitch), _t(b.time)) for b in ins.pitch_bends),
            wl('%s %s %s' % (_int(c.number), _int(c.value), _t(c.time)) for c in ins.control_changes)]))
    t.append(wl(ins_t))
    return ' '.join(t)


def pm_from_wire(line):
    """inverse of pm_wire: rebuild a PrettyMIDI object (replay of the object stream)."""
    import numpy as np
    import pretty_midi
    from harness.common import unrat
    tk = line.split()
    p = tk.index('PM') + 1
    pm = pretty_midi.PrettyMIDI(resolution=220)
    pm.resolution = int(tk[p]); p += 1

    def take(k):
        nonlocal p
        n = int(tk[p]); p += 1
        rows = [tk[p + j * k: p + (j + 1) * k] for j in range(n)]
        p += n * k
        return rows
    fl = lambda s: float(unrat(s))
    for r in take(3):
        ts = pretty_midi.TimeSignature(4, 4, 0.0)
        ts.numerator, ts.denominator, ts.time = int(r[0]), int(r[1]), fl(r[2])
        pm.time_signature_changes.append(ts)
    for r in take(2):
        ks = pretty_midi.KeySignature(0, 0.0)
        ks.key_number, ks.time = int(r[0]), fl(r[1])
        pm.key_signature_changes.append(ks)
    assert tk[p] == 'T'
    if tk[p + 1] == 'ok':
        p += 2
        rows = take(2)
        tt, qq = np.array([fl(r[0]) for r in rows]), np.array([fl(r[1]) for r in rows])
        pm.get_tempo_changes = lambda: (tt, qq)
    else:
        name = tk[p + 2]
        n = int(tk[p + 3])
        p += 4 + n
        cls = getattr(builtins, name, None)
        if not (isinstance(cls, type) and issubclass(cls, BaseException)):
            cls = type(name, (Exception,), {})

        def boom():
            raise cls('get_tempo_changes')
        pm.get_tempo_changes = boom
    n_ins = int(tk[p]); p += 1
    for _ in range(n_ins):
        ins = pretty_midi.Instrument(int(tk[p]), tk[p + 1] == '1', nswire.unhx(tk[p + 2]))
        p += 3
        for r in take(4):
            nt = pretty_midi.Note(0, 0, 0.0, 0.0)
            nt.velocity, nt.pitch, nt.start, nt.end = int(r[0]), int(r[1]), fl(r[2]), fl(r[3])
            ins.notes.append(nt)
        for r in take(2):
            ins.pitch_bends.append(pretty_midi.PitchBend(int(r[0]), fl(r[1])))
        for r in take(3):
            ins.control_changes.append(pretty_midi.ControlChange(int(r[0]), int(r[1]), fl(r[2])))
        pm.instruments.append(ins)
    return pm


def result_wire(ns):
    """a returned NoteSequence as the driver prints it (`ok NS… | parser encoding infos`)."""
    from note_seq.protobuf import music_pb2
    c = music_pb2.NoteSequence()
    c.CopyFrom(ns)
    for f in nswire.MODELLED + ['instrument_infos', 'source_info']:
        c.ClearField(f)
    if c.ByteSize():
        return 'ok <field outside the model set: %s>' % [d.name for d, _ in c.ListFields()]
    for ii in ns.instrument_infos:
        if ii.ListFields() and {d.name for d, _ in ii.ListFields()} - {'instrument', 'name'}:
            return 'ok <instrument_info field outside the model set>'
    if {d.name for d, _ in ns.source_info.ListFields()} - {'parser', 'encoding_type'}:
        return 'ok <source_info field outside the model set>'
    try:
        t = nswire.encode(ns).split(' ')
    except ValueError as e:
        return 'ok <unencodable: %s>' % e
    t[9] = '-'
    return 'ok ' + ' '.join(t) + ' | %d %d ' % (ns.source_info.parser, ns.source_info.encoding_type) + \
        wl('%d %s' % (ii.instrument, nswire.hx(ii.name)) for ii in ns.instrument_infos)


# ============================================================================= oracle (from the property text)
def oracle(midi_io, outcome):
    """outcome = ('ok', NoteSequence) | ('raise', exception).  Returns what fails, or None.
    The statement: returns a NoteSequence or raises MIDIConversionError, nothing else; a returned
    sequence has, for every note, 0 <= start <= end <= total_time, pitch and velocity in 0..127,
    and every event time is non-negative."""
    kind, val = outcome
    if kind == 'raise':
        if isinstance(val, midi_io.MIDIConversionError):
            return None
        return 'exception %s escaped (only MIDIConversionError may): %s' % (type(val).__name__, str(val)[:120])
    from note_seq.protobuf import music_pb2
    if not isinstance(val, music_pb2.NoteSequence):
        return 'returned %s, not a NoteSequence' % type(val).__name__
    ns = val
    tt = ns.total_time
    for i, n in enumerate(ns.notes):
        if not (0 <= n.start_time <= n.end_time <= tt):
            return 'note %d: start %r end %r total_time %r (need 0 <= start <= end <= total_time)' % (i, n.start_time, n.end_time, tt)
        if not (0 <= n.pitch <= 127 and 0 <= n.velocity <= 127):
            return 'note %d: pitch %d velocity %d outside 0..127' % (i, n.pitch, n.velocity)
    for name in ('tempos', 'time_signatures', 'key_signatures', 'pitch_bends', 'control_changes', 'text_annotations',
                 'section_annotations'):
        for i, e in enumerate(getattr(ns, name)):
            if not e.time >= 0:
                return '%s[%d].time = %r is negative' % (name, i, e.time)
    return None


def caller_edit(ns):
    """A caller owns the NoteSequence it was handed and may edit it in place.  This edit makes THAT object ill-formed in
    every clause of the statement (negative times, end < start, pitch / velocity outside 0..127, total_time below the note
    ends, one more note), so that a later call which hands out the same object, or one built from it, is judged by the
    statement itself: `when it returns, the result is well-formed` holds for every call, not only the first."""
    for n in ns.notes:
        n.start_time, n.end_time = -1.0 - abs(n.start_time), -2.0 - abs(n.end_time)
        n.pitch, n.velocity = 200, -5
    for name in ('tempos', 'time_signatures', 'key_signatures', 'pitch_bends', 'control_changes'):
        for e in getattr(ns, name):
            e.time = -1.0 - abs(e.time)
    x = ns.notes.add()
    x.pitch, x.velocity, x.start_time, x.end_time = 300, 300, 5.0, 1.0
    ns.total_time = -1.0


def _outcome_wire(out):
    return ('err ' + type(out[1]).__name__) if out[0] == 'raise' else result_wire(out[1])


# ============================================================================= capped workers
AS_HEADROOM = 1200 * 2**20      # address space a worker may add to what the harness already maps
PER_INPUT_S = 60                # wall-clock bound per input (SIGALRM kills the worker; recorded as hazard)


def _vmsize():
    for ln in open('/proc/self/status'):
        if ln.startswith('VmSize:'):
            return int(ln.split()[1]) * 1024
    return 2 * 2**30


def eval_bytes(midi_io, pretty_midi, REC, data, with_file, tmp_path):
    """everything the monitor does with one byte string, inside a capped worker."""
    rec = {'hz': [], 'hist': []}
    del REC[:]
    try:
        out = ('ok', midi_io.midi_to_note_sequence(data))
    except BaseException as e:  # pylint: disable=broad-except
        out = ('raise', e)
    ctor = list(REC)
    del REC[:]
    first = out[1] if out[0] == 'ok' else None
    rec['oracle'] = oracle(midi_io, out)
    if out[0] == 'raise':
        rec['impl'] = 'err ' + type(out[1]).__name__
        rec['msg'] = str(out[1])[:160]
    else:
        rec['impl'] = result_wire(out[1])
    if len(ctor) != 1:
        rec['ctor'] = 'calls=%d' % len(ctor)
        rec['req'] = None
        ctor = None
        history_bytes(midi_io, REC, data, first, rec)
        return rec
    kind, val = ctor[0]
    if kind == 'err':
        name, wire, fmt = val
        rec['ctor'] = 'err ' + name
        rec['req'] = 'bytes err %s %s' % (wire, fmt)
        if name == 'MemoryError':
            rec['hz'].append('MemoryError inside constructor (tick table; RLIMIT_AS)')
    else:
        pm = val
        rec['ctor'] = 'ok'
        tempo = tempo_changes(pm)
        rec['inv'], rec['ranges'] = check_inv(pm, tempo)
        try:
            rec['req'] = 'bytes ok ' + pm_wire(pm, tempo)
        except Unencodable as e:
            rec['req'] = None
            rec['unenc'] = str(e)
        rec['shape'] = [int(pm.resolution) if _is_int(pm.resolution) else 0, len(pm.time_signature_changes),
                        len(pm.key_signature_changes), len(tempo[1]) if tempo[0] == 'ok' else -1, len(pm.instruments),
                        sum(len(i.notes) for i in pm.instruments), sum(len(i.pitch_bends) for i in pm.instruments),
                        sum(len(i.control_changes) for i in pm.instruments), sum(1 for i in pm.instruments if i.name),
                        sum(1 for i in pm.instruments if i.is_drum)]
        if out[0] == 'raise' and isinstance(out[1], MemoryError):
            # address space ran out AFTER the constructor returned (the table it keeps alive is large):
            # an environment condition outside the model, recorded, not a statement about the file
            rec['hz'].append('MemoryError after constructor returned (RLIMIT_AS)')
            rec['oracle'] = None
            rec['req'] = None
    out = ctor = val = pm = tempo = None     # let the first run's tick table go before decoding again
    history_bytes(midi_io, REC, data, first, rec)
    first = None
    if with_file:
        with open(tmp_path, 'wb') as f:
            f.write(data)
        try:
            out2 = ('ok', midi_io.midi_file_to_note_sequence(tmp_path))
        except BaseException as e:  # pylint: disable=broad-except
            out2 = ('raise', e)
        ctor2 = list(REC)
        del REC[:]
        if out2[0] == 'raise' and isinstance(out2[1], MemoryError) and ctor2 and ctor2[0][0] == 'ok':
            rec['hz'].append('MemoryError after constructor returned (RLIMIT_AS), file variant')
        else:
            rec['file_oracle'] = oracle(midi_io, out2)
            mem2 = any(k == 'err' and v[0] == 'MemoryError' for k, v in ctor2)
            mem1 = rec.get('ctor') == 'err MemoryError' or any('MemoryError' in h for h in rec['hz'])
            if not (mem1 or mem2):
                w2 = _outcome_wire(out2)
                rec['file_same'] = (w2 == rec['impl'])
                if w2 != rec['impl']:
                    rec['file_impl'] = w2[:300]
                # history of the file variant: the caller edits what it got, the unchanged file is decoded again
                if out2[0] == 'ok':
                    caller_edit(out2[1])
                ctor2 = None
                try:
                    out3 = ('ok', midi_io.midi_file_to_note_sequence(tmp_path))
                except BaseException as e:  # pylint: disable=broad-except
                    out3 = ('raise', e)
                ctor3 = list(REC)
                del REC[:]
                if not (any(k == 'err' and v[0] == 'MemoryError' for k, v in ctor3) or
                        (out3[0] == 'raise' and isinstance(out3[1], MemoryError))):
                    rec['file_again_oracle'] = oracle(midi_io, out3)
                    w3 = _outcome_wire(out3)
                    if out3[0] == 'ok' and out3[1] is out2[1]:
                        rec['file_again_alias'] = True
                    if w3 != w2:
                        rec['file_again_impl'] = w3[:300]
    return rec


def history_bytes(midi_io, REC, data, first, rec):
    """call history on one byte string: the caller edits (in place) the sequence the first decode returned, then an EQUAL
    byte string is decoded again.  The second outcome is judged by the statement (oracle) and compared with the first."""
    if rec.get('impl') is None or rec.get('ctor') == 'err MemoryError' or any('MemoryError' in h for h in rec['hz']):
        return
    if first is not None:
        caller_edit(first)
    del REC[:]
    try:
        out = ('ok', midi_io.midi_to_note_sequence(bytes(bytearray(data))))
    except BaseException as e:  # pylint: disable=broad-except
        out = ('raise', e)
    ctor = list(REC)
    del REC[:]
    if any(k == 'err' and v[0] == 'MemoryError' for k, v in ctor) or (out[0] == 'raise' and isinstance(out[1], MemoryError)):
        rec['hz'].append('MemoryError in the second decode of the same bytes (RLIMIT_AS)')
        return
    ctor = None
    rec['again_oracle'] = oracle(midi_io, out)
    if out[0] == 'ok' and out[1] is first:
        rec['again_alias'] = True
    w = _outcome_wire(out)
    if w != rec['impl']:
        rec['again_impl'] = w[:300]


def _claim(cpath):
    """next unclaimed input index (atomic across workers: flock on the counter file)."""
    import fcntl
    with open(cpath, 'r+') as f:
        fcntl.flock(f, fcntl.LOCK_EX)
        i = int(f.read() or 0)
        f.seek(0)
        f.write(str(i + 1))
        f.truncate()
    return i


def worker(midi_io, inputs, file_every, path, cpath, limit):
    """forked child: cap address space, claim inputs one by one, decode, one JSON line per input
    (preceded by a `start` line, so the parent knows which input a killed worker was on)."""
    import pretty_midi
    warnings.filterwarnings('ignore')
    resource.setrlimit(resource.RLIMIT_AS, (limit, limit))
    resource.setrlimit(resource.RLIMIT_CORE, (0, 0))
    REC = []
    Orig = pretty_midi.PrettyMIDI

    class Recording(Orig):           # records what the real constructor did, then behaves identically
        def __init__(self, *a, **k):
            try:
                Orig.__init__(self, *a, **k)
            except BaseException as e:   # pylint: disable=broad-except
                try:
                    'Midi decoding error %s: %s' % (type(e), e)
                    fmt = '-'
                except BaseException as e2:  # pylint: disable=broad-except
                    fmt = 'raises ' + exc_wire(e2)
                REC.append(('err', (type(e).__name__, exc_wire(e), fmt)))
                raise
            REC.append(('ok', self))
    Recording.__name__ = 'PrettyMIDI'
    pretty_midi.PrettyMIDI = Recording
    tmp = path + '.mid'
    with open(path, 'w') as f:
        while True:
            i = _claim(cpath)
            if i >= len(inputs):
                break
            f.write('{"start": %d}\n' % i)
            f.flush()
            signal.setitimer(signal.ITIMER_REAL, PER_INPUT_S)
            try:
                rec = eval_bytes(midi_io, pretty_midi, REC, inputs[i], i % file_every == 0, tmp)
            except MemoryError:
                rec = {'hz': ['MemoryError in the monitor itself (RLIMIT_AS)'], 'hist': [], 'impl': None, 'req': None,
                       'oracle': None, 'ctor': 'monitor-oom'}
            except BaseException:  # pylint: disable=broad-except
                rec = {'machinery': traceback.format_exc()[-1500:], 'hz': [], 'hist': []}
            signal.setitimer(signal.ITIMER_REAL, 0)
            rec['i'] = i
            f.write(json.dumps(rec) + '\n')
            f.flush()
            del REC[:]
    try:
        os.unlink(tmp)
    except OSError:
        pass


def run_pool(midi_io, inputs, file_every=4, nproc=None):
    """inputs: list of bytes.  Returns one record per input (same order).  Workers claim inputs
    dynamically; a worker that is killed (timer, OOM killer, crash) yields {'killed': status} for the
    input it was on and is replaced."""
    nproc = max(1, min(nproc or max(1, min(8, (os.cpu_count() or 2) // 2)), len(inputs)))
    limit = _vmsize() + AS_HEADROOM
    results = [None] * len(inputs)
    d = tempfile.mkdtemp(prefix='c16_')
    cpath = os.path.join(d, 'counter')
    with open(cpath, 'w') as f:
        f.write('0')
    live, serial = {}, [0]

    def spawn():
        serial[0] += 1
        path = os.path.join(d, 'w%d.jsonl' % serial[0])
        sys.stdout.flush()
        sys.stderr.flush()
        pid = os.fork()
        if pid == 0:
            code = 0
            try:
                worker(midi_io, inputs, file_every, path, cpath, limit)
            except BaseException:  # pylint: disable=broad-except
                traceback.print_exc()
                code = 3
            finally:
                os._exit(code)
        live[pid] = path
    try:
        for _ in range(nproc):
            spawn()
        while live:
            pid, status = os.waitpid(-1, 0)
            if pid not in live:
                continue
            path = live.pop(pid)
            started = None
            if os.path.exists(path):
                for ln in open(path):
                    try:
                        r = json.loads(ln)
                    except ValueError:
                        break
                    if 'start' in r:
                        started = r['start']
                    else:
                        results[r['i']] = r
                        started = None
                os.unlink(path)
            if status != 0:
                if not (status & 0x7f) and (status >> 8) == 3:
                    raise MachineryError('C16 worker failed outside an input (see stderr)')
                if started is not None:
                    results[started] = {'i': started, 'hz': [], 'hist': [],
                                        'killed': 'signal %d' % (status & 0x7f) if status & 0x7f else 'exit %d' % (status >> 8)}
                with open(cpath) as f:
                    nxt = int(f.read() or 0)
                if nxt < len(inputs):
                    spawn()
    finally:
        for pid in list(live):
            try:
                os.kill(pid, signal.SIGKILL)
                os.waitpid(pid, 0)
            except OSError:
                pass
        for f in glob.glob(os.path.join(d, '*')):
            try:
                os.unlink(f)
            except OSError:
                pass
        try:
            os.rmdir(d)
        except OSError:
            pass
    missing = [i for i, r in enumerate(results) if r is None]
    if missing:
        raise MachineryError('C16 pool: no record for %d input(s), first %d' % (len(missing), missing[0]))
    return results


# ============================================================================= streams
def load_seeds(rng):
    """the fixture files plus files written by note-seq's own MIDI writer from generated sequences."""
    from note_seq import midi_io
    import note_seq
    d = os.path.join(os.path.dirname(note_seq.__file__), 'testdata')
    seeds = []
    for f in sorted(glob.glob(os.path.join(d, '*.mid'))):
        b = open(f, 'rb').read()
        seeds.append((os.path.basename(f), b))
    for i in range(12):
        ns = nswire.NSGen(rng, max_notes=rng.choice([2, 6, 15]), with_meta=False).make(texts=False, sections=False)
        for j, ii in enumerate(range(rng.choice([0, 1, 2]))):
            x = ns.instrument_infos.add()
            x.instrument, x.name = j, rng.choice(['Lead', 'Bass', 'café'])
        try:
            pm = midi_io.note_sequence_to_pretty_midi(ns)
            buf = io.BytesIO()
            pm.write(buf)
            seeds.append(('written#%d' % i, buf.getvalue()))
        except Exception:  # pylint: disable=broad-except
            pass
    parsed = []
    for name, b in seeds:
        try:
            parsed.append((name, b, parse_smf(b)))
        except Exception:  # pylint: disable=broad-except
            parsed.append((name, b, None))
    return parsed


def gen_bytes(rng, seeds):
    """one input of the structure-aware stream -> (kind, bytes, tags)"""
    tags = set()
    small = [s for s in seeds if len(s[1]) < 3000]
    pick = lambda: rng.choice(seeds) if rng.random() < 0.06 else rng.choice(small)
    k = rng.random()
    if k < 0.30:
        name, b, p = pick()
        if p is not None:
            return 'struct-mutation', mutate_struct(rng, p, tags), tags
        return 'raw-mutation', mutate_raw(rng, b), tags
    if k < 0.44:
        return 'raw-mutation', mutate_raw(rng, pick()[1]), tags
    if k < 0.52:
        b = pick()[1]
        return 'truncation', b[:rng.randrange(len(b))], tags
    if k < 0.59:
        a, c = pick()[1], pick()[1]
        if rng.random() < 0.5:
            return 'splice', a[:rng.randrange(len(a))] + c[rng.randrange(len(c)):], tags
        pa, pc = parse_smf(a), parse_smf(c)     # track-level splice under one header
        s = {'fmt': 1, 'div': rng.choice([pa['div'], pc['div']]), 'tracks': pa['tracks'][:rng.randrange(1, 3)] + pc['tracks'][:2]}
        s['ntrks'] = len(s['tracks'])
        return 'splice', build_smf(s), tags
    if k < 0.92:
        return 'synthesised', synth(rng, tags), tags
    if k < 0.96:
        return 'valid', pick()[1], tags
    return 'garbage', rng.choice([b'', b'MThd', b'MTrk', rbytes(rng, rng.randrange(1, 64)),
                                  b'MThd\x00\x00\x00\x06' + rbytes(rng, rng.randrange(0, 40))]), tags


def gen_object(rng, tags):
    """a hand-built PrettyMIDI object: half of them inside `Inv`, half leaving it somewhere
    (int32 overflows in every field, negative / inverted times, failing get_tempo_changes)."""
    import numpy as np
    import pretty_midi
    pm = pretty_midi.PrettyMIDI(resolution=220)
    bad = rng.random() < 0.5
    tags.add('objects:outside-Inv-allowed' if bad else 'objects:inside-Inv')
    maybe = lambda p: bad and rng.random() < p
    OVER = [2**31 - 1, 2**31, -2**31, -2**31 - 1, 2**40, -2**63, 2**255]
    pm.resolution = rng.choice([220, 480, 96, 1, 32767])
    if rng.random() < 0.08:
        pm.resolution = rng.choice([0, -1, -32768, -2**31])
        tags.add('resolution<=0')
    if maybe(0.05):
        pm.resolution = rng.choice([2**31 - 1, 2**31, -2**31 - 1])
    pool = [0.0, 0.0, 0.5, 1.0, 1.0, 2.25, rng.uniform(0, 4), rng.uniform(0, 4)]

    def tm():
        t = rng.choice(pool)
        if maybe(0.04):
            t = -t - rng.choice([0.0, 0.5])
            tags.add('negative-time')
        return np.float64(t) if rng.random() < 0.5 else t
    for _ in range(rng.choice([0, 1, 1, 2, 3])):
        ts = pretty_midi.TimeSignature(4, 4, 0.0)
        ts.numerator = rng.choice([4, 3, 6, 1, 255])
        ts.denominator = rng.choice([4, 8, 2, 1, 2**30, 2**30, 2**31 - 1])
        if rng.random() < 0.12:
            ts.denominator = rng.choice([2**31, 2**32, 2**255, -2**31, -2**31 - 1, 0, -4])
            tags.add('denominator-special')
        if maybe(0.1):
            ts.numerator = rng.choice([0, -1] + OVER)
            tags.add('numerator-special')
        ts.time = tm()
        pm.time_signature_changes.append(ts)
    for _ in range(rng.choice([0, 1, 1, 2])):
        ks = pretty_midi.KeySignature(0, 0.0)
        ks.key_number = rng.randrange(24)
        if rng.random() < 0.15:
            ks.key_number = rng.choice([24, 25, 35, 36, -1, -11, -12, -13, 2**40, -2**40])
            tags.add('key-number-special')
        ks.time = tm()
        pm.key_signature_changes.append(ks)
    n_t = rng.choice([1, 1, 2, 3])
    tt = np.array([0.0] + sorted(float(tm()) for _ in range(n_t - 1)))
    qq = np.array([rng.choice([120.0, 60.0, 97.5, 1e-3, 6e7]) for _ in range(n_t)])
    if maybe(0.04):
        cls = rng.choice([IndexError, ValueError, ZeroDivisionError, KeyboardInterrupt, MemoryError])
        tags.add('get_tempo_changes-raises')

        def boom(cls=cls):
            raise cls('get_tempo_changes')
        pm.get_tempo_changes = boom
    else:
        pm.get_tempo_changes = lambda tt=tt, qq=qq: (tt, qq)
    for _ in range(rng.choice([0, 1, 1, 2, 4])):
        prog = rng.randrange(128)
        if maybe(0.05):
            prog = rng.choice([-1, 128] + OVER)
            tags.add('program-special')
        ins = pretty_midi.Instrument(np.int64(prog) if -2**63 <= prog < 2**63 and rng.random() < 0.5 else prog,
                                     rng.random() < 0.25, rng.choice(['', '', 'Piano', 'café', 'a\x00b', '日本']))
        for _ in range(rng.choice([0, 1, 2, 5])):
            a, b = tm(), tm()
            if a > b and not maybe(0.1):
                a, b = b, a
            nt = pretty_midi.Note(0, 0, 0.0, 0.0)
            nt.velocity, nt.pitch = rng.choice([1, 64, 127, rng.randrange(128)]), rng.choice([0, 60, 127, rng.randrange(128)])
            if maybe(0.04):
                nt.pitch = rng.choice([-1, 128] + OVER)
                tags.add('pitch-special')
            if maybe(0.04):
                nt.velocity = rng.choice([-1, 128] + OVER)
                tags.add('velocity-special')
            nt.start, nt.end = a, b
            ins.notes.append(nt)
        for _ in range(rng.choice([0, 0, 1, 3])):
            v = rng.randrange(-8192, 8192)
            if maybe(0.05):
                v = rng.choice(OVER)
                tags.add('bend-special')
            ins.pitch_bends.append(pretty_midi.PitchBend(v, tm()))
        for _ in range(rng.choice([0, 0, 1, 3])):
            c, v = rng.choice([64, 7, rng.randrange(128)]), rng.randrange(128)
            if maybe(0.05):
                c = rng.choice(OVER)
                tags.add('control-special')
            if maybe(0.05):
                v = rng.choice(OVER)
                tags.add('control-special')
            ins.control_changes.append(pretty_midi.ControlChange(c, v, tm()))
        pm.instruments.append(ins)
    return pm


def split_model(line):
    """driver response -> (inv flag or None, wf flag or None, 'err X' | 'ok NS…')"""
    t = line.split(' ')
    inv = wf = None
    while t and (t[0].startswith('inv=') or t[0].startswith('wf=')):
        k, v = t.pop(0).split('=')
        v = None if v == '-' else v == '1'
        if k == 'inv':
            inv = v
        else:
            wf = v
    return inv, wf, ' '.join(t)


def reject_reason(msg):
    for pre, tag in (('Unsupported MIDI time division', 'resolution<=0'), ('Invalid time signature denominator', 'denominator>int32'),
                     ('Invalid midi_mode', 'key mode not 0/1'), ('Midi decoding error', 'constructor raised')):
        if msg.startswith(pre):
            return tag
    return 'other: ' + msg[:40]


def bucket(n):
    return '0' if n == 0 else '1-9' if n < 10 else '10-99' if n < 100 else '100+'


def process_bytes(chk, midi_io, cases):
    """cases: list of (kind, bytes, tags).  Runs the capped workers, the driver, the comparisons."""
    recs = run_pool(midi_io, [c[1] for c in cases])
    reqs, idx = [], []
    for i, r in enumerate(recs):
        if r is None:
            raise MachineryError('worker returned no record for input %d' % i)
        if 'machinery' in r:
            raise MachineryError('monitor failed on input %d (%s): %s' % (i, cases[i][1][:40].hex(), r['machinery']))
        if r.get('req'):
            reqs.append(r['req'])
            idx.append(i)
    model = dict(zip(idx, chk.driver(EXE, reqs)))
    n_inv = 0
    for i, ((kind, data, tags), r) in enumerate(zip(cases, recs)):
        rp = {'stream': 'bytes', 'kind': kind, 'hex': data.hex()}
        hist = ['kind:' + kind] + sorted(tags)
        if 'killed' in r:
            hist.append('hazard:worker killed while decoding (%s); input skipped' % r['killed'])
            chk.count('bytes', None, False, hist)
            chk.notes.setdefault('hazard_inputs', [])
            if len(chk.notes['hazard_inputs']) < 5:
                chk.notes['hazard_inputs'].append({'kind': kind, 'hex': data.hex()[:400], 'what': r['killed']})
            continue
        for h in r['hz']:
            hist.append('hazard:' + h)
        ctor = r.get('ctor', '?')
        hist.append('ctor:' + ('returned' if ctor == 'ok' else ctor))
        impl = r.get('impl')
        if impl is not None:
            if impl.startswith('err '):
                hist.append('outcome:' + impl[4:])
                if impl == 'err MIDIConversionError':
                    hist.append('reject:' + reject_reason(r.get('msg', '')))
            else:
                hist.append('outcome:returned')
        if ctor == 'ok':
            sh = r['shape']
            hist += ['notes:' + bucket(sh[5]), 'instruments:' + bucket(sh[4]), 'tempos:' + bucket(sh[3]),
                     'timesigs:' + bucket(sh[1]), 'keysigs:' + bucket(sh[2])]
            if sh[6]:
                hist.append('has pitch bends')
            if sh[7]:
                hist.append('has control changes')
            if sh[8]:
                hist.append('has named instrument')
            if sh[9]:
                hist.append('has drum instrument')
            if sh[0] <= 0:
                hist.append('object with resolution<=0')
            for x in r.get('ranges', []):
                hist.append('loader-range departure: ' + x)
        chk.count('bytes', hashlib.md5(data).hexdigest(), ctor == 'ok', hist)
        # ---- oracle: the property statement on the real outcome
        if r.get('oracle'):
            chk.fail('midi_to_note_sequence: ' + r['oracle'], rp)
        if r.get('file_oracle'):
            chk.fail('midi_file_to_note_sequence: ' + r['file_oracle'], dict(rp, variant='file'))
        if r.get('file_same') is False:
            chk.disagree('file-variant', rp, r.get('file_impl'), 'same outcome as midi_to_note_sequence: ' + str(impl)[:300])
        # ---- call histories: decode, caller edits the result in place, decode the same bytes again
        if 'again_oracle' in r:
            hist.append('history: decoded twice, first result edited in between')
            chk.count('history', None, False, ['bytes decoded twice'])
        if 'file_again_oracle' in r:
            chk.count('history', None, False, ['file decoded twice'])
        HB = 'decode; the caller edits the returned sequence in place; decode the same bytes again'
        if r.get('again_oracle'):
            chk.fail('midi_to_note_sequence, SECOND decode of the same bytes after the caller edited the first result%s: %s' % (
                ' (the very same object is handed out again)' if r.get('again_alias') else '', r['again_oracle']), dict(rp, history=HB))
        elif r.get('again_alias') or r.get('again_impl'):
            chk.disagree('history', dict(rp, history=HB), 'second decode: %s' % ('the same object' if r.get('again_alias') else r.get('again_impl')),
                         'a new object with the outcome of the first decode: ' + str(impl)[:300])
        if r.get('file_again_oracle'):
            chk.fail('midi_file_to_note_sequence, SECOND decode of the unchanged file after the caller edited the first result%s: %s' % (
                ' (the very same object is handed out again)' if r.get('file_again_alias') else '', r['file_again_oracle']),
                dict(rp, variant='file', history=HB))
        elif r.get('file_again_alias') or r.get('file_again_impl'):
            chk.disagree('history', dict(rp, variant='file', history=HB), 'second decode of the file: %s' % (
                'the same object' if r.get('file_again_alias') else r.get('file_again_impl')), 'a new object with the outcome of the first decode')
        # ---- the assumption, on the real object
        if ctor == 'ok' and (r.get('inv') or r.get('unenc')):
            n_inv += 1
            chk.disagree('assumption:Inv', rp, 'real PrettyMIDI object violates Inv: %s' % (r.get('inv') or r.get('unenc')),
                         'Inv assumed of every object the constructor returns')
        # ---- correspondence with the Lean model
        if ctor.startswith('calls='):
            chk.disagree('bytes', rp, 'PrettyMIDI constructor %s, outcome %s' % (ctor, str(impl)[:100]), 'constructor called exactly once')
            continue
        if i not in model:
            continue
        inv, wf, out = split_model(model[i])
        if out == 'bad-op':
            raise MachineryError('driver rejected request: %s' % r['req'][:300])
        if out != impl:
            chk.disagree('bytes', rp, impl[:1500], out[:1500])
        if ctor == 'ok' and inv is not None and inv != (not r['inv']):
            chk.disagree('inv-evaluation', rp, 'harness Inv: %s' % (r['inv'] or 'holds'), 'driver invB: %s' % inv)
        if wf is not None and impl.startswith('ok ') and out == impl and wf != (r.get('oracle') is None):
            chk.disagree('wf-evaluation', rp, 'oracle: %s' % r.get('oracle'), 'driver wfB: %s' % wf)
        if len(chk.samples) < 3 and ctor == 'ok' and impl.startswith('ok ') and r['shape'][5] > 0 and len(data) < 200:
            chk.sample({'bytes_hex': data.hex(), 'kind': kind, 'constructor': 'returned', 'impl': impl[:160] + ' …',
                        'model_equal': out == impl, 'Inv': not r['inv']})
    hz = {}
    for r in recs:
        for h in r.get('hz', []):
            hz[h] = hz.get(h, 0) + 1
        if 'killed' in r:
            hz['worker killed (%s)' % r['killed']] = hz.get('worker killed (%s)' % r['killed'], 0) + 1
    return n_inv, hz


def process_objects(chk, midi_io, n, rng):
    reqs, impl, keep = [], [], []
    for _ in range(n):
        tags = set()
        pm = gen_object(rng, tags)
        tempo = tempo_changes(pm)
        inv, _ = check_inv(pm, tempo)
        line = 'post ' + pm_wire(pm, tempo)
        try:
            out = ('ok', midi_io.midi_to_note_sequence(pm))
        except BaseException as e:  # pylint: disable=broad-except
            out = ('raise', e)
        reqs.append(line)
        impl.append(_outcome_wire(out))
        keep.append((tags, inv, oracle(midi_io, out)))
        # history: the argument is left as it was (also when the call raised); the caller edits the result; same object again
        rp = {'stream': 'objects', 'pm': line}
        after = 'post ' + pm_wire(pm, tempo_changes(pm))
        if after != line:
            chk.disagree('objects-history', rp, 'midi_to_note_sequence changed the PrettyMIDI object it was given: ' + after[:600],
                         'argument left as it was')
        if out[0] == 'ok':
            caller_edit(out[1])
        try:
            out2 = ('ok', midi_io.midi_to_note_sequence(pm))
        except BaseException as e:  # pylint: disable=broad-except
            out2 = ('raise', e)
        chk.count('history', None, False, ['object decoded twice'])
        if _outcome_wire(out2) != impl[-1] or (out2[0] == 'ok' and out2[1] is out[1]):
            chk.disagree('objects-history', rp, 'second call on the same object after the caller edited the first result: %s' % (
                'the same NoteSequence object' if out2[0] == 'ok' and out2[1] is out[1] else _outcome_wire(out2)[:600]),
                'a new object with the outcome of the first call: ' + impl[-1][:600])
    model = chk.driver(EXE, reqs)
    for req, a, m, (tags, inv, orc) in zip(reqs, impl, model, keep):
        minv, wf, out = split_model(m)
        rp = {'stream': 'objects', 'pm': req}
        hist = sorted(tags) + ['Inv:' + ('holds' if not inv else 'violated'),
                               'outcome:' + (a[4:] if a.startswith('err ') else 'returned')]
        if not inv and a.startswith('ok ') and orc:
            hist.append('?')
        chk.count('objects', req, True, hist)
        if out == 'bad-op':
            raise MachineryError('driver rejected request: %s' % req[:300])
        if out != a:
            chk.disagree('objects', rp, a[:1500], out[:1500])
        if minv != (not inv):
            chk.disagree('inv-evaluation', rp, 'harness Inv: %s' % (inv or 'holds'), 'driver invB: %s' % minv)
        if wf is not None and out == a and wf != (orc is None):
            chk.disagree('wf-evaluation', rp, 'oracle: %s' % orc, 'driver wfB: %s' % wf)
        # inside Inv the theorem's conclusion must be what the real code does (not a property failure of
        # the byte-level statement, but the model/assumption would be inadequate): report as disagreement
        if not inv and orc:
            chk.disagree('objects-inside-Inv', rp, 'real code on an Inv object: %s' % orc, 'theorem midi_errors_closed')
    chk.sample({'request': reqs[0][:300], 'impl': impl[0][:200], 'model': model[0][:200]})


def known_finding_cases():
    """F-C16-1 (fixed d3bf6d5): MThd division 0x8000, one set_tempo at tick 100, no completed note."""
    tempo = lambda v: b'\xff\x51\x03' + v.to_bytes(3, 'big')
    s = {'fmt': 0, 'ntrks': 1, 'div': 0x8000, 'tracks': [[(0, tempo(500000)), (100, tempo(400000)), (0, b'\xff\x2f\x00')]]}
    return [('known-finding F-C16-1', build_smf(s), {'div>=0x8000'})]


def run(chk):
    warnings.filterwarnings('ignore')
    from note_seq import midi_io
    generate(chk)
    chk.prove(MODULES, THEOREMS, [EXE], extra_trusted=[
        'pretty_midi %s + mido (byte-level MIDI parsing, tick->time table, get_tempo_changes): NOT modelled; enter the theorems '
        'as the parameter decodeCtor constrained by Inv, which is evaluated on every real object of this run' % _pm_version(),
        'protobuf (upb) field assignment semantics: int32 range -> ValueError, open enums, doubles exact (validated by the object stream)',
        'harness/c16.py AST extraction of the try/except structure of midi_to_note_sequence'])
    chk.assumptions.append(INV_TEXT)
    chk.assumptions.append('building the handler message str(exception) does not raise (checked on every exception the real constructor raised)')
    chk.rule = ('bytes: every input is decoded by the real pretty_midi constructor inside midi_to_note_sequence in a forked worker with '
                'RLIMIT_AS = current VmSize + %d MiB and a %d s timer; streams: structural mutations of parsed valid files (header '
                'format/ntrks/division incl. >= 0x8000, header and track lengths, deltas up to 2^70, every meta type with out-of-range '
                'payloads and wrong lengths, data bytes >= 0x80, running status, padded VLQs, track order/duplication), raw byte '
                'mutations, truncations, byte- and track-level splices of two files, files synthesised message by message, garbage, plus a '
                'fixed list of named coincidences (every division x {no note, note}, n/2^dd for dd around 31 and 255, key signatures '
                'sf x mi beyond 7 accidentals, tempo 0, last tick around MAX_TICK). non-trivial = distinct input for which the constructor '
                'returned an object (so `post` and Inv were exercised). objects: hand-built PrettyMIDI objects, half inside Inv, half '
                'leaving it (int32 overflow in every integer field, negative/inverted times, failing get_tempo_changes).'
                % (AS_HEADROOM >> 20, PER_INPUT_S))
    try:
        chk.notes['generated_tables'] = chk.driver(EXE, ['gen'])[0]
    except Exception as e:  # pylint: disable=broad-except
        chk.notes['generated_tables'] = 'driver unavailable: %s' % e
        return
    rng = chk.subrng('bytes')
    seeds = load_seeds(chk.subrng('seeds'))
    cases = []
    for name, obj in corpus_cases(PID):
        if obj.get('hex') is not None:
            cases.append(('corpus:' + name, bytes.fromhex(obj['hex']), set()))
    cases += known_finding_cases()
    cases += [('forced', b, {'forced: ' + ' '.join(n.split(' ')[:2]).split('=')[0]}) for n, b in forced_cases()]
    cases += [('valid', b, {'seed file'}) for _, b, _ in seeds]
    for _ in range(chk.n(5000, 150000)):
        cases.append(gen_bytes(rng, seeds))
    t0 = time.time()
    n_inv, hz = 0, {}
    for c0 in range(0, len(cases), 4000):          # chunks bound the memory held by records
        a, b = process_bytes(chk, midi_io, cases[c0:c0 + 4000])
        n_inv += a
        for k, v in b.items():
            hz[k] = hz.get(k, 0) + v
    if n_inv:
        chk.broken.append('assumption:Inv violated by the real pretty_midi constructor on %d input(s)' % n_inv)
    chk.notes['bytes_stream_wall_s'] = round(time.time() - t0, 1)
    chk.notes['resource_hazards'] = hz or 'none'
    chk.notes['hazard_policy'] = ('a worker killed by its timer/the OOM killer, or a MemoryError raised after the constructor returned '
                                  '(address-space cap), is recorded here and NOT counted as a violation: the statement is about exception '
                                  'types on files, not about resource exhaustion of the host')
    process_objects(chk, midi_io, chk.n(2000, 40000), chk.subrng('objects'))
    # the shortest failing inputs become the replay files
    chk.failures.sort(key=lambda f: len(str(f['replay'].get('hex', ''))))


def _pm_version():
    try:
        import pretty_midi
        import mido
        return '%s / mido %s' % (pretty_midi.__version__, getattr(mido, '__version__', '?'))
    except Exception:  # pylint: disable=broad-except
        return '?'


def replay(chk, obj):
    warnings.filterwarnings('ignore')
    from note_seq import midi_io
    if obj.get('stream') == 'objects':
        pm = pm_from_wire(obj['pm'])
        try:
            out = ('ok', midi_io.midi_to_note_sequence(pm))
        except BaseException as e:  # pylint: disable=broad-except
            out = ('raise', e)
        inv, _ = check_inv(pm, tempo_changes(pm))
        print('replay C16 (hand-built PrettyMIDI object; Inv %s): %s' % ('violated: %s' % inv if inv else 'holds',
              'raised %s: %s' % (type(out[1]).__name__, out[1]) if out[0] == 'raise' else 'returned a NoteSequence'))
        r = oracle(midi_io, out) if not inv else None
        print('PROPERTY FAILS: %s' % r if r else 'property statement not violated on this input (objects are not byte strings)')
        return 1 if r else 0
    data = bytes.fromhex(obj['hex'])
    print('replay C16: %d bytes (%s)%s' % (len(data), obj.get('kind', '?'), ' via midi_file_to_note_sequence' if obj.get('variant') == 'file' else ''))
    r = run_pool(midi_io, [data], file_every=1, nproc=1)[0]
    if 'killed' in r:
        print('worker killed while decoding (%s): resource hazard, not a violation' % r['killed'])
        return 0
    if 'machinery' in r:
        print(r['machinery'])
        return 2
    print('constructor: %s; outcome: %s %s' % (r.get('ctor'), str(r.get('impl'))[:200], r.get('msg', '')))
    if r.get('inv'):
        print('Inv violated by the real object: %s' % r['inv'])
    for k, label in (('again_oracle', 'second decode of the same bytes after the caller edited the first result'),
                     ('file_again_oracle', 'second decode of the unchanged file after the caller edited the first result')):
        if k in r:
            print('%s: %s' % (label, r[k] or 'well-formed / MIDIConversionError, as the statement demands'))
    bad = r.get('oracle') or r.get('file_oracle') or r.get('again_oracle') or r.get('file_again_oracle')
    print('PROPERTY FAILS: %s' % bad if bad else 'property holds on this input')
    return 1 if bad else 0
