"""C20 — audio sample helpers are lossless on 16-bit PCM and exact about lengths (DESIGN 6.20).

Proved (Lean): the int16 -> float32 -> int16 round trip for all 65 536 values (16 kernel-decided
chunks over the scale constants regenerated from the source), its array / WAV-level corollaries with
the WAV codec as the identity, crop / cyclic repeat / stereo packing over lists of any length.
Monitored here: the model against numpy for all 65 536 values and for generated arrays, the scipy
WAV codec as an identity on int16 arrays, the side condition of the float ceiling in repeat.
crop / repeat also run on stereo input of shape [n, 2] (frames; the Lean model at `α := Rat × Rat`).
Call histories (stream `history`): every function of the statement is called several times in ONE process from a
small pool of argument objects, with in-place modification of earlier results and of the argument objects in
between; every call is judged against an independent reference evaluated on the CURRENT contents of its arguments,
must leave its arguments unchanged, and must not return memory shared with any argument object or earlier result
(np.shares_memory; the one exception is crop_samples, whose result is a slice view of its own input).
"""
import ast
import inspect
import io
import math
import warnings
from fractions import Fraction as F

import numpy as np

from harness.common import rat, corpus_cases

PID = 'C20'
CHUNKS = ['NoteSeqVerif.Props.C20_chunk%02d' % c for c in range(16)]
PCM = 'NoteSeqVerif.Props.C20_pcm'
REP = 'NoteSeqVerif.Props.C20_repeat'      # float side condition of repeat discharged (uses Proofs/Rounding*)
MODULES = (['NoteSeqVerif.Proofs.C20_rne', 'NoteSeqVerif.Proofs.C20', 'NoteSeqVerif.Proofs.C20_pcm'] + CHUNKS +
           ['NoteSeqVerif.Proofs.C20_pcm_all', PCM, 'NoteSeqVerif.Proofs.C20_repeat', REP, 'NoteSeqVerif.Props.C20'])
EXE = 'drv_c20'
# translator tie T2 (gen/translit2.py): the sample counts of crop_samples / repeat_samples_to_duration, by symbolic execution
BRIDGE = 'NoteSeqVerif.Props.C20_bridge'
BRIDGE_THEOREMS = ['NSV.C20.t2_crop_begin', 'NSV.C20.t2_crop_length', 'NSV.C20.t2_num_repeats', 'NSV.C20.t2_crop_slice']
THEOREMS = [
    (PCM, 'NSV.C20.pcm_roundtrip'), (PCM, 'NSV.C20.pcm_roundtrip_formula'), (PCM, 'NSV.C20.pcm_roundtrip_list'),
    (PCM, 'NSV.C20.int16ToFloat_injective'), (PCM, 'NSV.C20.int16_to_float_rejects'),
    (PCM, 'NSV.C20.float_to_int16_rejects'), (PCM, 'NSV.C20.wav_roundtrip'),
    'NSV.C20.signPreserving_rne53',
    'NSV.C20.crop_spec', 'NSV.C20.crop_getElem?', 'NSV.C20.crop_length', 'NSV.C20.crop_spec_float',
    'NSV.C20.repeat_errors', 'NSV.C20.repeat_empty', 'NSV.C20.repeat_prefix', 'NSV.C20.repeat_spec',
    'NSV.C20.repeatEnough_exact', 'NSV.C20.repeat_spec_exact', 'NSV.C20.repeat_spec_float',
    'NSV.C20.repeat_nonpos_exact', 'NSV.C20.crop_map', 'NSV.C20.repeat_map', 'NSV.C20.repeat_spec_frames',
    (REP, 'NSV.C20.repeatEnough_float'), (REP, 'NSV.C20.repeatEnough_rne53'), (REP, 'NSV.C20.repeat_spec_float_total'),
    'NSV.C20.stereo_spec', 'NSV.C20.stereo_channels', 'NSV.C20.stereo_dtype_error',
]

RATES = [8000, 16000, 22050, 44100, 48000]
SMALL_RATES = [1, 2, 3, 7, 10, 100]
DT = {'int16': np.int16, 'int32': np.int32, 'uint8': np.uint8,
      'float16': np.float16, 'float32': np.float32, 'float64': np.float64}


# ----------------------------------------------------------------------------- generate
class _Unrecognised(Exception):
    pass


def _scale_constants(A):
    """the divisor / multiplier of the two scaling helpers, read off the source (AST) and evaluated."""
    tree = ast.parse(inspect.getsource(A))
    fns = {n.name: n for n in tree.body if isinstance(n, ast.FunctionDef)}
    env = {'np': np, 'math': math}

    def ret(name):
        if name not in fns:
            raise _Unrecognised('%s not found' % name)
        rets = [s for s in ast.walk(fns[name]) if isinstance(s, ast.Return)]
        if len(rets) != 1:
            raise _Unrecognised('%s: %d return statements' % (name, len(rets)))
        return rets[0].value

    def is_astype(e, dtname):
        return (isinstance(e, ast.Call) and isinstance(e.func, ast.Attribute) and e.func.attr == 'astype'
                and len(e.args) == 1 and not e.keywords and isinstance(e.args[0], ast.Attribute)
                and isinstance(e.args[0].value, ast.Name) and e.args[0].value.id == 'np' and e.args[0].attr == dtname)

    def const(e, what):
        try:
            v = eval(compile(ast.Expression(e), '<c20>', 'eval'), dict(env))  # pylint: disable=eval-used
        except Exception as ex:  # pylint: disable=broad-except
            raise _Unrecognised('%s: cannot evaluate %s (%s)' % (what, ast.dump(e)[:80], ex))
        if isinstance(v, (float, np.floating)) and float(v) == int(v):
            v = int(v)
        if isinstance(v, (bool, np.bool_)) or not isinstance(v, (int, np.integer)) or not 0 < int(v) < 2 ** 24:
            raise _Unrecognised('%s: %r is not an integer in (0, 2^24)' % (what, v))
        return int(v)

    e = ret('int16_samples_to_float32')
    if not (isinstance(e, ast.BinOp) and isinstance(e.op, ast.Div) and is_astype(e.left, 'float32')
            and isinstance(e.left.func.value, ast.Name)):
        raise _Unrecognised('int16_samples_to_float32 is not `y.astype(np.float32) / C`')
    div = const(e.right, 'int16_samples_to_float32 divisor')
    e = ret('float_samples_to_int16')
    if not (is_astype(e, 'int16') and isinstance(e.func.value, ast.BinOp) and isinstance(e.func.value.op, ast.Mult)
            and isinstance(e.func.value.left, ast.Name)):
        raise _Unrecognised('float_samples_to_int16 is not `(y * C).astype(np.int16)`')
    mul = const(e.func.value.right, 'float_samples_to_int16 multiplier')
    return div, mul


def generate(chk):
    import note_seq.audio_io as A
    from harness.t2 import generate_t2
    generate_t2(chk, 'C20', [
        dict(fn=A.crop_samples, module=A, name='crop_samples',
             params={'sample_rate': 'int', 'crop_beginning_seconds': 'float', 'total_length_seconds': 'float'},
             export=['samples_to_crop', 'total_samples']),
        dict(fn=A.repeat_samples_to_duration, module=A, name='repeat_samples_to_duration',
             params={'sample_rate': 'int', 'duration': 'float'}, paths={'len(samples)': ('n', 'int')},
             export=['num_repeats']),
    ])
    try:
        div, mul = _scale_constants(A)
    except _Unrecognised as e:
        # T3 (correspondence over all 65 536 values) still ties the model; recorded, not reported alone
        chk.translit['scale constants'] = 'translit_tie: broken (%s); Generated/C20.lean left as it was' % e
        return
    chk.translit['scale constants'] = 'regenerated from source: divisor %d, multiplier %d' % (div, mul)
    txt = ('/-! GENERATED from /repo on every run by harness/c20.py — do not edit. -/\n'
           'namespace NSV.C20.Gen\n'
           '/-- `int16_samples_to_float32`: `y.astype(np.float32) / <toFloatDiv>` -/\n'
           'def toFloatDiv : Int := %d\n'
           '/-- `float_samples_to_int16`: `(y * <toIntMul>).astype(np.int16)` -/\n'
           'def toIntMul : Int := %d\n'
           'end NSV.C20.Gen\n' % (div, mul))
    chk.regenerate('NoteSeqVerif/Generated/C20.lean', txt)


# ----------------------------------------------------------------------------- helpers
def dtname(a):
    return a.dtype.name


def ints_wl(a):
    a = np.asarray(a)
    return '%d %s' % (a.size, ' '.join(map(str, a.astype(np.int64).ravel().tolist()))) if a.size else '0'


def rats_wl(a):
    """exact values of a floating array as `n num/den*` (every float32/16 widens exactly to float64)."""
    v = np.asarray(a).astype(np.float64).ravel().tolist()
    return ' '.join([str(len(v))] + [rat(x) for x in v])


def test_array(n, dtype, off=0):
    """recognisable integer-valued samples (neighbours always differ; exact in every dtype used)."""
    mod = 251 if np.dtype(dtype) in (np.dtype(np.uint8), np.dtype(np.float16)) else 30011
    return ((np.arange(n, dtype=np.int64) * 7 + off) % mod).astype(dtype)


def frames_wl(a):
    """`<frames> l0 r0 l1 r1 …` for an array of shape [n, 2]"""
    a = np.asarray(a)
    return ' '.join([str(a.shape[0])] + list(map(str, a.astype(np.int64).ravel().tolist())))


def case_input(o):
    """the sample array of a crop / repeat case: mono [n], or stereo [n, 2] when o['ch'] == 2 — laid out like the
    result of make_stereo (the transpose of a [2, n] array, right channel 5 samples shorter and zero-padded) for
    layout 'T', C-contiguous for layout 'C'.  Built without calling the code under test."""
    dt = DT[o['dtype']]
    if o.get('ch', 1) == 1:
        return test_array(o['n'], dt)
    n = o['n']
    rows = np.zeros((2, n), dtype=dt)
    rows[0, :] = test_array(n, dt, 1)
    k = max(0, n - 5)
    rows[1, :k] = test_array(k, dt, 3)
    return rows.T if o.get('layout', 'T') == 'T' else np.ascontiguousarray(rows.T)


def show_out(x, out):
    """canonical text of a crop / repeat result for an input of x.ndim dimensions"""
    out = np.asarray(out)
    if x.ndim == 1:
        return 'ok ' + ints_wl(out) if out.ndim == 1 else 'shape %r' % (out.shape,)
    if out.ndim != 2 or out.shape[1] != 2:
        return 'shape %r' % (out.shape,)
    return 'ok ' + frames_wl(out)


def nextafter_n(x, k):
    for _ in range(abs(k)):
        x = math.nextafter(x, math.inf if k > 0 else -math.inf)
    return x


def int16_signal(style, n, seed):
    r = np.random.RandomState(seed & 0x7FFFFFFF)
    if style == 'uniform':
        return r.randint(-32768, 32768, size=n).astype(np.int16)
    if style == 'extremes':
        return r.choice(np.array([-32768, -32767, -1, 0, 1, 32766, 32767], dtype=np.int16), size=n)
    if style == 'ramp':
        return ((np.arange(n, dtype=np.int64) * 257 + seed) % 65536 - 32768).astype(np.int16)
    return (np.round(12000 * np.sin(np.arange(n) * 0.05 + seed)) + r.randint(-3, 4, size=n)).astype(np.int16)


# ----------------------------------------------------------------------------- purity guard around EVERY call of the run
# The statement describes pure functions of the sample values ("returns ...", "reproduces ... exactly"): a call must not
# change the caller's arrays (also when it raises) and must hand back an object of its own - the one exception being
# crop_samples, whose result is a slice view of its input by construction.  Every call the harness makes to one of the
# seven functions (all streams, corpus cases and oracles, not only the call histories) goes through `Guard`, which
# compares each array argument byte for byte before/after, records a self-contained replay when one changed, and puts
# the original contents back so that nothing downstream is computed from values the library scribbled over.
GUARDED = {'i2f': 'int16_samples_to_float32', 'f2i': 'float_samples_to_int16', 'enc': 'samples_to_wav_data',
           'dec': 'wav_data_to_samples', 'crop': 'crop_samples', 'repeat': 'repeat_samples_to_duration', 'stereo': 'make_stereo'}
_GUARDED_NAMES = set(GUARDED.values())


def _enc_arg(a, sl=None):
    if isinstance(a, np.ndarray):
        b = a if sl is None else a[:sl]
        flat = b.astype(np.float64 if issubclass(b.dtype.type, np.floating) else np.int64).ravel().tolist()
        return {'nd': b.dtype.name, 'shape': list(b.shape), 'v': flat}
    if isinstance(a, (bytes, bytearray)):
        return {'hex': bytes(a).hex()}
    if isinstance(a, (np.integer,)):
        return int(a)
    if isinstance(a, (np.floating,)):
        return float(a)
    return a


def _dec_arg(a):
    if isinstance(a, dict) and 'nd' in a:
        return np.array(a['v'], dtype=np.float64 if a['nd'].startswith('float') else np.int64).astype(DT[a['nd']]).reshape(a['shape'])
    if isinstance(a, dict) and 'hex' in a:
        return bytes.fromhex(a['hex'])
    return a


def purity_probe(fn, name, args):
    """calls fn(*args) once; returns (result or None, exception or None, list of purity failures, restored?)"""
    snaps = [(i, a, a.copy(), a.tobytes(), a.dtype, a.shape) for i, a in enumerate(args) if isinstance(a, np.ndarray)]
    out, err, bad = None, None, []
    try:
        with np.errstate(all='ignore'):
            out = fn(*args)
    except BaseException as e:  # pylint: disable=broad-except
        if isinstance(e, (KeyboardInterrupt, SystemExit)):
            raise
        err = e
    for i, a, snap, b, dt, shp in snaps:
        if a.dtype != dt or a.shape != shp or a.tobytes() != b:
            chg = np.flatnonzero(np.frombuffer(a.tobytes(), np.uint8) != np.frombuffer(b, np.uint8)) if a.shape == shp and a.dtype == dt else [0]
            k = int(chg[0]) // max(1, a.itemsize)
            bad.append('%s changed its argument #%d in place%s: element %d was %r, is %r afterwards (%d of %d elements changed)' % (
                name, i + 1, ' although it raised %s' % type(err).__name__ if err is not None else '', k,
                snap.ravel()[k].item(), a.ravel()[k].item(), len(set(int(c) // max(1, a.itemsize) for c in chg)), a.size))
            try:
                a[...] = snap
            except Exception:  # pylint: disable=broad-except
                pass
        if isinstance(out, np.ndarray):
            if out is a:
                bad.append('%s returned its argument #%d itself (result is argument), not a new array' % (name, i + 1))
            elif name != 'crop_samples' and a.size and out.size and np.shares_memory(out, a):
                bad.append('%s returned an array that shares memory with its argument #%d' % (name, i + 1))
    return out, err, bad


class Guard(object):
    """stands in for the note_seq.audio_io module inside run(): the seven functions of the statement are wrapped by
    purity_probe, everything else (exception classes, ...) passes through"""

    def __init__(self, raw):
        self.raw = raw
        self.impure = []      # (text, replay object)
        self.calls = 0

    def __getattr__(self, name):
        v = getattr(self.raw, name)
        if name not in _GUARDED_NAMES:
            return v

        def call(*args):
            self.calls += 1
            out, err, bad = purity_probe(v, name, args)
            if bad and len(self.impure) < 8:
                # smallest self-contained replay: the first 4 samples / frames of every array argument
                small = [a[:4].copy() if isinstance(a, np.ndarray) else a for a in args]
                if purity_probe(v, name, [a.copy() if isinstance(a, np.ndarray) else a for a in small])[2]:
                    rep = {'kind': 'purity', 'fn': name, 'args': [_enc_arg(a) for a in small]}
                else:
                    rep = {'kind': 'purity', 'fn': name, 'args': [_enc_arg(a, 20000) for a in args]}
                self.impure.append((bad[0], rep))
            if err is not None:
                raise err
            return out
        return call


def oracle_purity(A, o):
    """replays one recorded call on private copies of its arguments: the arguments must come back byte for byte, and
    calling again on the same objects must give the same answer"""
    raw = getattr(A, 'raw', A)
    fn = getattr(raw, o['fn'])
    args = [_dec_arg(a) for a in o['args']]
    out1, err1, bad = purity_probe(fn, o['fn'], args)
    if bad:
        return bad[0]
    out2, err2, bad = purity_probe(fn, o['fn'], args)
    if bad:
        return bad[0]
    if (err1 is None) != (err2 is None) or (err1 is not None and type(err1) is not type(err2)):
        return '%s: second call on the same arguments ended differently (%r / %r)' % (o['fn'], err1, err2)
    if err1 is None:
        same = (out1 == out2) if isinstance(out1, bytes) else (
            isinstance(out2, np.ndarray) and out1.dtype == out2.dtype and out1.shape == out2.shape and out1.tobytes() == out2.tobytes())
        if not same:
            return '%s: second call on the same (unchanged) argument objects returned a different value' % o['fn']
    return None


# ----------------------------------------------------------------------------- one case = request + impl + oracle
# A case is a JSON-able dict (ints stay ints, floats round-trip exactly through repr).
# build_* gives (stream, request line, canonical implementation answer, histogram keys);
# oracle_* evaluates the property statement on the implementation (None = holds / outside the quantifier).
def impl_crop(A, o):
    x = case_input(o)
    out = A.crop_samples(x, o['rate'], o['begin'], o['length'])
    return x, out


def build_crop(A, o):
    x, out = impl_crop(A, o)
    two = x.ndim == 2
    req = '%s %d %s %s %s' % ('crop2' if two else 'crop', o['rate'], rat(o['begin']), rat(o['length']),
                              frames_wl(x) if two else ints_wl(x))
    hist = ['input:' + ('stereo[n,2]/' + o.get('layout', 'T') if two else 'mono')]
    b, L, r = o['begin'], o['length'], o['rate']
    if b >= 0 and L >= 0 and r > 0:
        a, n = int(b * r), int(L * r)
        hist.append('begin:' + ('beyond-end' if a >= len(x) else 'inside'))
        hist.append('end:' + ('beyond-end' if a + n > len(x) else 'at-end' if a + n == len(x) else 'inside'))
        if n == 0:
            hist.append('length-zero')
        if a != math.floor(F(b) * r) or n != math.floor(F(L) * r):
            hist.append('float-product-rounds-to-next-integer')
        if isinstance(b, int) or isinstance(L, int):
            hist.append('python-int-seconds')
    else:
        hist.append('malformed:negative')
    return 'crop', req, show_out(x, out), hist


def ref_crop(x, rate, b, L):
    """the statement: the samples (frames, along axis 0) of [int(b*rate), int(b*rate) + int(L*rate)) that exist"""
    a, n = int(b * rate), int(L * rate)
    idx = np.arange(a, max(a, min(a + n, len(x))))
    return (x[idx] if idx.size else x[:0]).copy(), a, n


def oracle_crop(A, o):
    b, L, r = o['begin'], o['length'], o['rate']
    if not (b >= 0 and L >= 0 and r > 0):
        return None  # outside the quantifier (negative offsets wrap like any Python slice)
    try:
        x, out = impl_crop(A, o)
    except Exception as e:  # pylint: disable=broad-except
        return 'crop_samples raised %s: %s' % (type(e).__name__, e)
    want, a, n = ref_crop(x, r, b, L)     # the statement's own reading: int(seconds*rate)
    out = np.asarray(out)
    if out.shape != want.shape or not np.array_equal(out, want) or out.dtype != x.dtype:
        return 'crop_samples on input of shape %r: got shape %r (first %s), want the %d existing samples of [%d, %d), shape %r' % (
            x.shape, out.shape, out[:3].tolist(), want.shape[0], a, a + n, want.shape)
    return None


def impl_repeat(A, o):
    x = case_input(o)
    try:
        return x, A.repeat_samples_to_duration(x, o['rate'], o['duration']), None
    except Exception as e:  # pylint: disable=broad-except
        return x, None, e


def build_repeat(A, o):
    x, out, err = impl_repeat(A, o)
    two = x.ndim == 2
    req = '%s %d %s %s' % ('repeat2' if two else 'repeat', o['rate'], rat(o['duration']), frames_wl(x) if two else ints_wl(x))
    D, r, n = o['duration'], o['rate'], o['n']
    hist = ['input:' + ('stereo[n,2]/' + o.get('layout', 'T') if two else 'mono')]
    if n > 0 and r > 0 and D > 0:
        m = F(D) * r / n
        hist.append('duration:' + ('exact-multiple' if m.denominator == 1 else 'shorter-than-signal' if m < 1 else 'longer-than-signal'))
        if int(D * r) != math.floor(F(D) * r):
            hist.append('float-product-rounds-to-next-integer')
        if math.ceil(D / (n / r)) != math.ceil(m):
            hist.append('float-ceiling-differs-from-exact')
        if isinstance(D, int):
            hist.append('python-int-seconds')
    else:
        hist.append('malformed:' + ('empty' if n == 0 else 'rate<=0' if r <= 0 else 'duration<=0'))
    return 'repeat', req, ('err ' + type(err).__name__) if err is not None else show_out(x, out), hist


def ref_repeat(x, rate, D):
    """the statement: exactly int(D*rate) samples (frames, along axis 0), sample i = input sample i mod len"""
    want_len = int(D * rate)
    return (x[np.arange(want_len) % len(x)] if want_len else x[:0]).copy()


def oracle_repeat(A, o):
    D, r, n = o['duration'], o['rate'], o['n']
    if not (n > 0 and r > 0 and D > 0):
        return None
    x, out, err = impl_repeat(A, o)
    if err is not None:
        return 'repeat_samples_to_duration raised %s: %s' % (type(err).__name__, err)
    want = ref_repeat(x, r, D)
    out = np.asarray(out)
    if out.shape != want.shape:
        return 'repeat_samples_to_duration on input of shape %r: result of shape %r, want int(duration*rate) = %d %s, shape %r' % (
            x.shape, out.shape, want.shape[0], 'frames' if x.ndim == 2 else 'samples', want.shape)
    if not np.array_equal(out, want) or out.dtype != x.dtype:
        bad = int(np.nonzero((out != want).reshape(len(out), -1).any(axis=1))[0][0]) if out.dtype == x.dtype else -1
        return 'repeat_samples_to_duration: sample %d is not input sample %d' % (bad, bad % n)
    return None


def impl_stereo(A, o):
    l = test_array(o['nl'], DT[o['dl']], 1)
    r = test_array(o['nr'], DT[o['dr']], 3)
    try:
        return l, r, A.make_stereo(l, r), None
    except A.AudioIOError as e:      # BaseException subclass
        return l, r, None, e
    except Exception as e:  # pylint: disable=broad-except
        return l, r, None, e


def build_stereo(A, o):
    l, r, out, err = impl_stereo(A, o)
    req = 'stereo %s %s %s %s' % (o['dl'], o['dr'], ints_wl(l), ints_wl(r))
    if o['dl'] != o['dr']:
        hist = ['malformed:dtype-mismatch']
    else:
        hist = ['left-shorter' if o['nl'] < o['nr'] else 'right-shorter' if o['nr'] < o['nl'] else 'equal-length']
        if min(o['nl'], o['nr']) == 0:
            hist.append('one-channel-empty' if max(o['nl'], o['nr']) else 'both-empty')
    if err is not None:
        return 'stereo', req, 'err ' + type(err).__name__, hist
    if out.ndim != 2 or out.shape[1] != 2:
        return 'stereo', req, 'shape %r' % (out.shape,), hist
    flat = ints_wl(out).split(' ', 1)     # row-major (frame, channel) = l0 r0 l1 r1 …, counted in frames
    return 'stereo', req, ' '.join(['ok', str(out.shape[0])] + flat[1:]), hist


def ref_stereo(l, r):
    m = max(len(l), len(r))
    out = np.zeros((m, 2), dtype=l.dtype)
    out[:len(l), 0] = l
    out[:len(r), 1] = r
    return out


def oracle_stereo(A, o):
    if o['dl'] != o['dr']:
        return None
    l, r, out, err = impl_stereo(A, o)
    if err is not None:
        return 'make_stereo raised %s: %s' % (type(err).__name__, err)
    m = max(len(l), len(r))
    if out.shape != (m, 2):
        return 'make_stereo: shape %r, want (%d, 2)' % (out.shape, m)
    if out.dtype != l.dtype:
        return 'make_stereo: dtype %s, want %s' % (out.dtype, l.dtype)
    for ch, src, name in ((0, l, 'left'), (1, r, 'right')):
        if not np.array_equal(out[:len(src), ch], src):
            return 'make_stereo: %s channel not kept in order' % name
        if np.any(out[len(src):, ch] != 0):
            return 'make_stereo: %s channel not padded with zeros' % name
    return None


def wav_signal(o):
    return int16_signal(o['style'], o['n'], o['seed'])


def wav_through(A, s, rate):
    f = A.int16_samples_to_float32(s)
    wav = A.samples_to_wav_data(f, rate)
    f2 = A.wav_data_to_samples(wav, rate)
    return f, wav, f2


def oracle_wav(A, o):
    s = wav_signal(o)
    try:
        f, _, f2 = wav_through(A, s, o['rate'])
        back = A.float_samples_to_int16(f2)
    except A.AudioIOError as e:
        return 'WAV round trip raised %s: %s' % (type(e).__name__, e)
    except Exception as e:  # pylint: disable=broad-except
        return 'WAV round trip raised %s: %s' % (type(e).__name__, e)
    if f2.dtype != np.float32 or f2.shape != f.shape:
        return 'WAV round trip: dtype/shape %s %r, want float32 %r' % (f2.dtype, f2.shape, f.shape)
    if not np.array_equal(f2, f):
        i = int(np.nonzero(f2 != f)[0][0])
        return 'WAV round trip: sample %d (int16 %d) came back as %r, was %r' % (i, int(s[i]), float(f2[i]), float(f[i]))
    if back.dtype != np.int16 or not np.array_equal(back, s):
        i = int(np.nonzero(back != s)[0][0])
        return 'WAV round trip: int16 sample %d was %d, is %d' % (i, int(s[i]), int(back[i]))
    return None


def oracle_pcm(A, ks):
    """float_samples_to_int16(int16_samples_to_float32(k)) == k; returns the list of failing k."""
    ks = np.asarray(ks, dtype=np.int16)
    with np.errstate(all='ignore'):
        back = A.float_samples_to_int16(A.int16_samples_to_float32(ks))
    if back.dtype != np.int16 or back.shape != ks.shape:
        return ks.tolist()[:1]
    return ks[back != ks].tolist()


# ----------------------------------------------------------------------------- call histories in one process
# A history is JSON: {'kind': 'history', 'pool': [spec…], 'ops': [op…]}.
#   spec = {'n', 'dtype', 'off', 'ch'}                      a sample array (mono, or stereo [n, 2] in make_stereo layout)
#        | {'pcm': 1, 'n', 'seed', 'style'}                 an int16 signal (for i2f / f2i / enc / dec)
#   op   = {'op': 'call', 'fn': 'crop'|'repeat'|'stereo'|'i2f'|'f2i'|'enc'|'dec', 'x': pool index (, 'y': pool index),
#           'fresh': bool (pass a private copy instead of the pool object), + the scalar arguments}
#        | {'op': 'mutate_result', 'k': index of an earlier call}      in-place modification of what that call returned
#        | {'op': 'mutate_arg', 'x': pool index, 'off'|'seed': new}     in-place rewrite of the pool object's contents
HIST_FNS = ['crop', 'repeat', 'stereo', 'i2f', 'f2i', 'enc', 'dec']


def ref_i2f(k):
    """float32 nearest to k/32767 (a double division, correctly rounded, then narrowed: k/32767 has a binary expansion
    of period 15, so the double is never on a float32 rounding boundary); equals the all-values table of stream (a)"""
    return (np.asarray(k).astype(np.float64) / 32767.0).astype(np.float32)


def ref_wav_bytes(k, rate):
    """a canonical 16-bit mono PCM WAV file, written by hand (RIFF header of 44 bytes + little-endian samples)"""
    import struct
    data = np.asarray(k, dtype='<i2').tobytes()
    return (b'RIFF' + struct.pack('<I', 36 + len(data)) + b'WAVEfmt ' + struct.pack('<IHHIIHH', 16, 1, 1, rate, rate * 2, 2, 16)
            + b'data' + struct.pack('<I', len(data)) + data)


def hist_build(spec):
    if spec.get('pcm'):
        return int16_signal(spec['style'], spec['n'], spec['seed'])
    dt = DT[spec['dtype']]
    if spec.get('ch', 1) == 2:
        rows = np.zeros((2, spec['n']), dtype=dt)
        rows[0, :] = test_array(spec['n'], dt, spec['off'] + 1)
        k = max(0, spec['n'] - 5)
        rows[1, :k] = test_array(k, dt, spec['off'] + 3)
        return rows.T
    return test_array(spec['n'], dt, spec['off'])


def hist_mutate(r):
    """modify a returned object in place (what a caller post-processing ITS buffer does); False if it cannot be"""
    if not isinstance(r, np.ndarray) or r.size == 0:
        return False
    if not r.flags.writeable:
        return False
    if issubclass(r.dtype.type, np.floating):
        r *= 0.5
        r += 0.25
    else:
        r[...] = r // 2 + 1
    return True


def run_history(A, h, count=None):
    """replays the history against the real code; returns the first failure text or None.  `count(hist key)` records
    coverage."""
    count = count or (lambda key: None)
    A = getattr(A, 'raw', A)          # the history does its own before/after comparison on the objects it keeps
    pool = [hist_build(sp) for sp in h['pool']]
    fpool = [ref_i2f(a) if sp.get('pcm') else None for a, sp in zip(pool, h['pool'])]     # float32 twin of each int16 signal
    keep = []        # every array handed in or returned so far, kept alive: (label, array)
    results = []     # per call op: the returned object
    for step, op in enumerate(h['ops']):
        where = 'step %d of the call history (%s)' % (step + 1, ' '.join('%s=%r' % kv for kv in sorted(op.items())))
        if op['op'] == 'mutate_arg':
            sp = dict(h['pool'][op['x']])
            sp.update({k: v for k, v in op.items() if k in ('off', 'seed')})
            pool[op['x']][...] = hist_build(sp)
            if fpool[op['x']] is not None:
                fpool[op['x']][...] = ref_i2f(pool[op['x']])
            count('argument object rewritten in place')
            continue
        if op['op'] == 'mutate_result':
            ok = hist_mutate(results[op['k']]) if op['k'] < len(results) else False
            count('earlier result modified in place' if ok else 'earlier result not modifiable (bytes / empty / read-only)')
            continue
        fn, fresh = op['fn'], op.get('fresh', False)
        src = fpool if fn in ('f2i', 'enc') else pool
        x0 = src[op['x']]
        x = x0.copy() if (fresh or fn == 'crop') else x0          # crop returns a view of its input: always a private copy
        if fn == 'crop' and x0.ndim == 2:
            x = np.array(x0.T, copy=True).T                       # private copy in the same (transposed) layout
        y = None
        if fn == 'stereo':
            y0 = pool[op['y']]
            y = y0.copy() if fresh else y0
        snap_x, snap_y = x.copy(), (y.copy() if y is not None else None)
        try:
            with np.errstate(all='ignore'):
                if fn == 'crop':
                    got = A.crop_samples(x, op['rate'], op['begin'], op['length'])
                    want = ref_crop(snap_x, op['rate'], op['begin'], op['length'])[0]
                elif fn == 'repeat':
                    got = A.repeat_samples_to_duration(x, op['rate'], op['duration'])
                    want = ref_repeat(snap_x, op['rate'], op['duration'])
                elif fn == 'stereo':
                    got = A.make_stereo(x, y)
                    want = ref_stereo(snap_x, snap_y)
                elif fn == 'i2f':
                    got = A.int16_samples_to_float32(x)
                    want = ref_i2f(snap_x)
                elif fn == 'f2i':
                    got = A.float_samples_to_int16(x)
                    want = pool[op['x']].copy()
                elif fn == 'enc':
                    got = A.samples_to_wav_data(x, op['rate'])
                    want = ref_wav_bytes(pool[op['x']], op['rate'])
                else:
                    wav = ref_wav_bytes(snap_x, op['rate'])
                    if fresh:
                        wav = wav[:20] + wav[20:]           # an equal bytes object that is not the same object
                    got = A.wav_data_to_samples(wav, op['rate'])
                    want = ref_i2f(snap_x)
        except A.AudioIOError as e:
            return '%s: %s raised %s: %s' % (where, fn, type(e).__name__, e)
        except Exception as e:  # pylint: disable=broad-except
            return '%s: %s raised %s: %s' % (where, fn, type(e).__name__, e)
        results.append(got)
        nth = sum(1 for o2 in h['ops'][:step] if o2.get('op') == 'call' and o2['fn'] == fn and o2['x'] == op['x'])
        count('%s: %s' % (fn, 'first call on this argument' if nth == 0 else 'repeated call on this argument'))
        if isinstance(want, bytes):
            if got != want:
                return '%s: samples_to_wav_data did not return the 16-bit PCM WAV encoding of its argument (%d bytes, want %d)' % (
                    where, len(got) if isinstance(got, bytes) else -1, len(want))
        else:
            g = np.asarray(got)
            if g.shape != want.shape or g.dtype != want.dtype or not np.array_equal(g, want):
                bad = int(np.flatnonzero((g != want).ravel())[0]) if g.shape == want.shape else -1
                return ('%s: %s returned %s%r %s, the value for the CURRENT contents of its arguments is %s%r %s%s' % (
                    where, fn, g.dtype, g.shape, g.ravel()[:4].tolist(), want.dtype, want.shape, want.ravel()[:4].tolist(),
                    '; first difference at flat index %d: %r instead of %r' % (bad, g.ravel()[bad].item(), want.ravel()[bad].item())
                    if bad >= 0 else ''))
        if not np.array_equal(x, snap_x) or (y is not None and not np.array_equal(y, snap_y)):
            return '%s: %s modified its argument in place' % (where, fn)
        if isinstance(got, np.ndarray):
            if fn == 'crop':
                count('crop result is a view of its own input' if np.shares_memory(got, x) else 'crop result owns its data')
            for label, other in keep + [('the array passed to this call', a) for a in ((x, y) if fn != 'crop' else (y,)) if a is not None]:
                if other is not got and np.shares_memory(got, other):
                    return '%s: the array returned by %s shares memory with %s' % (where, fn, label)
            keep.append(('the result of step %d (%s)' % (step + 1, fn), got))
        for a, nm in ((x, 'x'), (y, 'y')):
            if a is not None and not any(a is o for _, o in keep):
                keep.append(('an array passed to %s at step %d' % (fn, step + 1), a))
    return None


def gen_history(rng):
    """a pool of three sample arrays and two int16 signals; 4-6 call sites, each called 2-3 times with the same
    arguments, interleaved with the other call sites, with in-place modification of returned arrays and of the
    argument objects in between"""
    rate = rng.choice(SMALL_RATES[2:] + RATES)
    n = rng.choice([6, 9, 17, 40]) if rate < 1000 else rng.choice([50, 441, 800, 1500])
    dt = rng.choice(['float32', 'int16', 'float64'])
    pool = [{'n': n, 'dtype': dt, 'off': rng.randrange(1000), 'ch': 1},
            {'n': rng.choice([n, n + 3, max(1, n - 2)]), 'dtype': dt, 'off': rng.randrange(1000), 'ch': 1},
            {'n': n, 'dtype': dt, 'off': rng.randrange(1000), 'ch': 2},
            {'pcm': 1, 'n': rng.choice([8, 100, 1000, 4000]), 'seed': rng.randrange(1 << 30), 'style': rng.choice(['uniform', 'extremes', 'ramp', 'sine'])},
            {'pcm': 1, 'n': rng.choice([1, 8, 300]), 'seed': rng.randrange(1 << 30), 'style': rng.choice(['uniform', 'ramp'])}]
    sites = []
    for fn in rng.sample(HIST_FNS, rng.choice([4, 5, 6])) + [rng.choice(['dec', 'repeat', 'crop'])]:
        c = {'op': 'call', 'fn': fn, 'fresh': rng.random() < 0.4}
        if fn in ('crop', 'repeat'):
            c['x'] = rng.choice([0, 1, 2])
            m = pool[c['x']]['n']
            c['rate'] = rate
            if fn == 'crop':
                c['begin'], c['length'] = rng.randrange(0, m) / rate, rng.randrange(1, m + 3) / rate
            else:
                c['duration'] = rng.choice([rng.randrange(1, 3 * m) / rate, rng.uniform(0.2, 3.0) * m / rate])
        elif fn == 'stereo':
            c['x'], c['y'] = rng.choice([(0, 1), (1, 0), (0, 0)])
        else:
            c['x'] = rng.choice([3, 4])
            if fn in ('enc', 'dec'):
                c['rate'] = rng.choice(RATES)
        sites.append(c)
        # a sibling site: same function and argument object, ONE scalar argument different (larger and smaller duration,
        # other offset / length, other rate) - state keyed on part of the arguments goes stale inside this history
        if fn in ('crop', 'repeat', 'enc', 'dec') and rng.random() < 0.7:
            c2 = dict(c, fresh=rng.random() < 0.4)
            if fn == 'repeat':
                c2['duration'] = c['duration'] * rng.choice([0.3, 0.5, 1.7, 2.5, 4.0])
            elif fn == 'crop':
                k2 = rng.choice(['begin', 'length'])
                c2[k2] = rng.randrange(0, m + 1) / rate if k2 == 'begin' else rng.randrange(1, m + 3) / rate
            else:
                c2['rate'] = rng.choice([r for r in RATES if r != c['rate']])
            sites.append(c2)
    ops, ncalls, last = [], 0, {}
    order = []
    for i, c in enumerate(sites):
        order += [i] * rng.choice([2, 2, 3])
    rng.shuffle(order)
    for i in order:
        ops.append(dict(sites[i]))
        if i in last and rng.random() < 0.15:
            ops[-1]['fresh'] = not ops[-1]['fresh']
        last[i] = ncalls
        ncalls += 1
        k = rng.random()
        if k < 0.7:
            ops.append({'op': 'mutate_result', 'k': last[i] if rng.random() < 0.8 else rng.randrange(ncalls)})
        if rng.random() < 0.2:
            x = rng.randrange(len(pool))
            ops.append(dict({'op': 'mutate_arg', 'x': x}, **({'seed': rng.randrange(1 << 30)} if pool[x].get('pcm') else {'off': rng.randrange(1000)})))
    return {'kind': 'history', 'pool': pool, 'ops': ops}


def oracle_history(A, h):
    return run_history(A, h)


BUILD = {'crop': build_crop, 'repeat': build_repeat, 'stereo': build_stereo}
ORACLE = {'crop': oracle_crop, 'repeat': oracle_repeat, 'stereo': oracle_stereo, 'wav': oracle_wav, 'history': oracle_history,
          'purity': oracle_purity}


# ----------------------------------------------------------------------------- generators
def gen_seconds(rng, rate, n, allow_neg=False):
    """seconds value for a signal of n samples at `rate`: structure-aware kinds."""
    k = rng.random()
    dur = n / rate
    if allow_neg and k < 0.5:
        return -rng.choice([1, 0.5, rng.uniform(0, dur + 1), (rng.randrange(0, n + 2)) / rate])
    if k < 0.08:
        return rng.choice([0, 0.0])
    if k < 0.18:
        return rng.randrange(0, int(dur) + 3)                      # Python int seconds
    if k < 0.45:
        return rng.randrange(0, n + 3) / rate                       # on a sample boundary (as a double)
    if k < 0.65:
        return nextafter_n(rng.randrange(1, n + 3) / rate, rng.choice([-2, -1, 1, 2]))   # boundary +- ulps
    if k < 0.75:
        return round(rng.uniform(0, dur * 1.3 + 0.02), 2)           # decimal literals like 0.35
    if k < 0.9:
        return rng.uniform(0, dur * 1.3 + 1e-3)
    return dur + rng.choice([0.0, 1.0 / rate, rng.uniform(0, 2 * dur + 1)])   # at / beyond the end


def gen_crop(rng, big):
    if big:
        rate, n = rng.choice(RATES), rng.choice([10 ** 5, 99999, 65536, rng.randrange(20000, 100001)])
    else:
        rate = rng.choice(SMALL_RATES + RATES)
        n = rng.choice([0, 1, 5, 17, 40, rng.randrange(0, 60), rng.randrange(0, 60)]) if rate < 1000 else \
            rng.choice([0, 100, 4410, rng.randrange(0, 3000), rng.randrange(0, 3000)])
    neg = rng.random() < 0.06
    o = {'kind': 'crop', 'n': n, 'dtype': rng.choice(['float32', 'int16', 'float64', 'int32']), 'rate': rate,
         'begin': gen_seconds(rng, rate, n if rng.random() < 0.15 else n // 2, neg),
         'length': gen_seconds(rng, rate, n, neg and rng.random() < 0.5)}
    return gen_channels(rng, o, big)


def gen_channels(rng, o, big):
    """a quarter of the crop / repeat cases get stereo input [n, 2] (make_stereo layout, sometimes C-contiguous)"""
    if rng.random() < (0.15 if big else 0.27):
        o['ch'] = 2
        o['layout'] = rng.choice(['T', 'T', 'C'])
    return o


def gen_repeat(rng, big):
    if big:
        rate, n = rng.choice(RATES), rng.choice([10 ** 5, 99999, rng.randrange(20000, 100001)])
        maxm = 3.2
    else:
        rate = rng.choice(SMALL_RATES + RATES)
        n = rng.choice([1, 2, 3, 5, 17, rng.randrange(1, 60)]) if rate < 1000 else rng.choice([1, 3, 100, 441, rng.randrange(1, 2000)])
        maxm = 6.0
    k = rng.random()
    if k < 0.04:
        n = 0
    if k < 0.08 and k >= 0.04:
        rate = 0
    sd = n / rate if rate and n else 1.0
    k = rng.random()
    if k < 0.25:
        D = rng.randrange(1, int(maxm) + 1) * n / rate if rate and n else 1.0        # exact multiple of the signal (as doubles)
    elif k < 0.45:
        D = nextafter_n(rng.randrange(1, int(maxm) + 1) * sd, rng.choice([-2, -1, 1, 2]))
    elif k < 0.55:
        D = rng.uniform(0, 1) * sd                                                  # shorter than the signal
    elif k < 0.62:
        D = rng.randrange(1, max(2, int(maxm * sd) + 1)) if maxm * sd >= 1 else sd   # Python int seconds
    elif k < 0.70:
        D = rng.randrange(0, int(maxm * n) + 1) / rate if rate else 1.0             # whole number of samples
    elif k < 0.76:
        D = rng.choice([0.0, 0, -1.0, -sd, -0.5 * sd, -1e-9])                        # malformed: not positive
    else:
        D = rng.uniform(0, maxm) * sd
    return gen_channels(rng, {'kind': 'repeat', 'n': n, 'dtype': rng.choice(['float32', 'int16', 'float64']), 'rate': rate,
                             'duration': D}, big)


def gen_stereo(rng, big):
    if big:
        nl, nr = rng.choice([10 ** 5, 99999, 50000]), rng.choice([10 ** 5, 1, 0, 77777])
    else:
        nl = rng.choice([0, 1, 2, 5, rng.randrange(0, 50)])
        nr = rng.choice([nl, nl, 0, 1, nl + 1, max(0, nl - 1), rng.randrange(0, 50)])
    dl = rng.choice(['float32', 'int16', 'float64', 'int32', 'uint8', 'float16'])
    dr = dl if rng.random() < 0.85 else rng.choice(['float32', 'int16', 'float64', 'int32', 'uint8', 'float16'])
    return {'kind': 'stereo', 'nl': nl, 'nr': nr, 'dl': dl, 'dr': dr}


def enum_small():
    """thorough tier: exhaustive small scope (quarter-second grid, rates 1-3, up to 6 samples)."""
    for rate in (1, 2, 3):
        for n in range(0, 7):
            for b in range(0, 15):
                for L in range(0, 15):
                    yield {'kind': 'crop', 'n': n, 'dtype': 'int16', 'rate': rate, 'begin': b / 4, 'length': L / 4}
    for rate in (1, 2, 3):
        for n in range(1, 6):
            for d in range(1, 33):
                yield {'kind': 'repeat', 'n': n, 'dtype': 'float32', 'rate': rate, 'duration': d / 4}
    for rate in (1, 2):
        for n in range(0, 5):
            for d in range(1, 25):
                yield {'kind': 'repeat', 'n': n, 'dtype': 'int16', 'rate': rate, 'duration': d / 4, 'ch': 2, 'layout': 'T'}
            for b in range(0, 9):
                for L in range(0, 9):
                    yield {'kind': 'crop', 'n': n, 'dtype': 'int16', 'rate': rate, 'begin': b / 4, 'length': L / 4, 'ch': 2, 'layout': 'T'}
    for nl in range(0, 8):
        for nr in range(0, 8):
            yield {'kind': 'stereo', 'nl': nl, 'nr': nr, 'dl': 'int16', 'dr': 'int16'}


def f2i_values(rng, dtype, count):
    """floating samples around everything the int16 cast can distinguish."""
    dt = DT[dtype]
    out = []
    for _ in range(count):
        k = rng.random()
        q = rng.randrange(-32768, 32768)
        if k < 0.25:
            v = dt(q) / dt(32767)
        elif k < 0.5:
            v = np.nextafter(dt(q) / dt(32767), dt(rng.choice([-2, 2])))
            if rng.random() < 0.5:
                v = np.nextafter(v, dt(rng.choice([-2, 2])))
        elif k < 0.6:
            v = dt(q) / dt(32768)
        elif k < 0.7:
            v = dt((q + 0.5) / 32767)
        elif k < 0.75:
            v = dt(rng.choice([0.0, 1.0, -1.0, 0.5, -0.5, 1e-3, -1e-3, 1.0000305, -1.0000305, 3e-5, -3e-5]))
        elif k < 0.8:
            v = dt(rng.choice([1.5, -1.5, 2.0, 1.0001, -1.0001, 100.0]))        # outside int16 after scaling
        else:
            v = dt(rng.uniform(-1, 1))
        out.append(v)
    return np.array(out, dtype=dt)


# ----------------------------------------------------------------------------- run
def run(chk):
    warnings.filterwarnings('ignore')
    import note_seq.audio_io as raw
    A = Guard(raw)
    crashed = None
    try:
        _run(chk, A)
    except Exception as e:  # pylint: disable=broad-except
        if not A.impure:
            raise
        crashed = e          # the harness tripped over values the library had changed under it: report the cause below
    st, label = chk.stream('oracle:purity'), 'calls whose array arguments were compared byte for byte before/after'
    st['evaluations'] += A.calls
    st['hist'][label] = st['hist'].get(label, 0) + A.calls
    for text, rep in A.impure[:5]:
        chk.fail(text, rep)
        chk.failures.insert(0, chk.failures.pop())
    if crashed is not None:
        chk.notes['harness_stopped_early'] = '%s: %s (after the purity failure above)' % (type(crashed).__name__, crashed)


def _run(chk, A):
    import scipy.io.wavfile as W
    generate(chk)
    chk.prove(MODULES, THEOREMS, [EXE], extra_trusted=[
        'rne24 / rne53 as models of numpy float32 / float64 arithmetic (validated bit-exactly against numpy for all '
        '65 536 int16 values and every generated array of this run)',
        'numpy astype(int16) of an in-range float = truncation toward zero; numpy slicing, concatenate, boolean-mask '
        'assignment and transpose as modelled (validated by the correspondence)',
        'scipy.io.wavfile write/read = identity on (rate, mono int16 array): third party, monitored on every WAV case, not proved',
        'harness/c20.py AST reader for the two scale constants'])
    chk.prove_bridge([BRIDGE], [(BRIDGE, t) for t in BRIDGE_THEOREMS])
    chk.rule = ('pcm: all 65 536 int16 values through both helpers (both tiers); f2i: float16/32/64 arrays at k/32767 +-ulps, '
                'k/32768, half-way points, limits, out-of-range; wav: int16 mono signals (uniform / extremes / ramp / sine) '
                'and arbitrary float32 signals at the five rates; crop / repeat: arrays of 0..10^5 samples, rates '
                '{1,2,3,7,10,100} and {8000,16000,22050,44100,48000}, seconds on sample boundaries +-ulps, decimal literals, '
                'Python ints, at/beyond the end, multiples of the signal length; stereo: all length relations and dtype pairs; '
                'crop / repeat also on stereo input [n, 2] in the layout make_stereo returns and C-contiguous; '
                'malformed streams: wrong dtypes, negative seconds, empty input, rate 0, duration <= 0, non-16-bit WAV, garbage bytes; '
                'history: 4-12 call sites over the seven functions of the statement (sibling sites differ in one scalar argument), '
                'each called 2-3 times in one process from a pool of '
                'argument objects, interleaved, with in-place modification of earlier results / argument objects in between, results '
                'checked against the reference on the current argument contents and for shared memory. '
                'non-trivial = distinct request whose result is a value with at least one sample')
    ents = []   # dict(stream, req, impl, hist, post)

    def add(stream, req, impl, hist=(), post=None, weight=1):
        ents.append({'stream': stream, 'req': req, 'impl': impl, 'hist': list(hist), 'post': post, 'weight': weight})

    # ---- (a) all 65 536 values, both directions, in both tiers
    allk = np.arange(-32768, 32768, dtype=np.int16)
    with np.errstate(all='ignore'):
        f_all = A.int16_samples_to_float32(allk)
        back_all = A.float_samples_to_int16(f_all)
    pcm_ok = f_all.dtype == np.float32 and back_all.dtype == np.int16 and f_all.shape == allk.shape
    if not pcm_ok:
        chk.fail('int16 <-> float32 helpers returned dtype %s / %s' % (f_all.dtype, back_all.dtype), {'kind': 'pcm', 'k': 0})
    else:
        for c in range(0, 65536, 4096):
            add('pcm:int16->float32', 'i2f int16 ' + ints_wl(allk[c:c + 4096]), 'ok ' + rats_wl(f_all[c:c + 4096]), weight=4096)
            add('pcm:float32->int16', 'f2i float32 ' + rats_wl(f_all[c:c + 4096]), 'ok ' + ints_wl(back_all[c:c + 4096]), weight=4096)
        chk.notes['pcm_product_exact'] = bool(np.array_equal((f_all * np.iinfo(np.int16).max).astype(np.float64),
                                                             allk.astype(np.float64)))
    # oracle (independent): the statement itself on all 65 536 values
    bad = oracle_pcm(A, allk) if pcm_ok else []
    chk.stream('oracle:pcm')['evaluations'] += 65536
    for k in bad[:5]:
        chk.fail('int16 value %d does not survive int16 -> float32 -> int16' % k, {'kind': 'pcm', 'k': int(k)})

    # ---- (b) float -> int16 on generated floating arrays (correspondence only; `undef` = outside int16, not compared)
    rng = chk.subrng('f2i')
    for dtype in ('float32', 'float64', 'float16'):
        for _ in range(chk.n(6, 60)):
            y = f2i_values(rng, dtype, chk.n(400, 2000))
            with np.errstate(all='ignore'):
                out = A.float_samples_to_int16(y)
            add('f2i:' + dtype, 'f2i %s %s' % (dtype, rats_wl(y)), 'ok ' + ints_wl(out), post='undef', weight=len(y))
    # ---- (c) dtype errors (malformed stream)
    for dtype in DT:
        x = test_array(5, DT[dtype])
        if dtype.startswith('float'):
            x = x / DT[dtype](64)          # 0, 7/64, … : inside [-1, 1] and exact in every floating dtype
        for fn, op in ((A.int16_samples_to_float32, 'i2f'), (A.float_samples_to_int16, 'f2i')):
            try:
                with np.errstate(all='ignore'):
                    out = fn(x)
                res = 'ok ' + (rats_wl(out) if op == 'i2f' else ints_wl(out))
            except Exception as e:  # pylint: disable=broad-except
                res = 'err ' + type(e).__name__
            req = '%s %s %s' % (op, dtype, rats_wl(x) if (op == 'f2i') else ints_wl(x))
            add('dtype-check', req, res, ['%s:%s:%s' % (op, dtype, res.split()[0])], post='undef' if op == 'f2i' else None)

    # ---- (d) WAV encode/decode at the same rate
    rng = chk.subrng('wav')
    wav_cases = []
    sizes = [0, 1, 2, 100, 4410] + [rng.randrange(1, 3000) for _ in range(chk.n(10, 60))] + \
            [rng.randrange(3000, 20001) for _ in range(chk.n(3, 20))] + ([10 ** 5, 99999, 65536] if chk.thorough else [10 ** 5])
    for n in sizes:
        wav_cases.append({'kind': 'wav', 'n': n, 'rate': rng.choice(RATES), 'seed': rng.randrange(1 << 30),
                          'style': rng.choice(['uniform', 'uniform', 'extremes', 'ramp', 'sine'])})
    for (name, o) in corpus_cases(PID):
        if o.get('kind') == 'wav':
            wav_cases.insert(0, o)
    for o in wav_cases:
        s = wav_signal(o)
        chk.count('oracle:wav', None)
        r = oracle_wav(A, o)
        if r:
            chk.fail(r, o)
            continue
        f, wav, f2 = wav_through(A, s, o['rate'])
        # monitor: the third-party codec is the identity on (rate, int16 mono array)
        try:
            sr, y = W.read(io.BytesIO(wav))
            codec_ok = sr == o['rate'] and y.dtype == np.int16 and np.array_equal(y, s)
        except Exception:  # pylint: disable=broad-except
            codec_ok = False
        chk.count('monitor:wav-codec-identity', None, hist='holds' if codec_ok else 'VIOLATED')
        if not codec_ok:
            chk.disagree('monitor:wav-codec-identity', o, 'scipy read(write(x)) != x', 'identity')
        add('wav:int16-signal', 'wavrt float32 ' + rats_wl(f), 'ok ' + rats_wl(f2), ['style:' + o['style'], 'rate:%d' % o['rate']], post='undef')
    # arbitrary float32 / float64 signals (not on the int16 grid): the decoded samples are the quantised ones
    for _ in range(chk.n(10, 80)):
        dtype = rng.choice(['float32', 'float32', 'float64'])
        y = f2i_values(rng, dtype, rng.choice([1, 50, 1000]))
        rate = rng.choice(RATES)
        with np.errstate(all='ignore'):
            try:
                f2 = A.wav_data_to_samples(A.samples_to_wav_data(y, rate), rate)
                res = 'ok ' + rats_wl(f2)
            except A.AudioIOError as e:
                res = 'err ' + type(e).__name__
        add('wav:float-signal', 'wavrt %s %s' % (dtype, rats_wl(y)), res, ['dtype:' + dtype], post='undef')
    # decoded dtype handling + unreadable data (malformed stream)
    for dtype in ('int16', 'int32', 'uint8', 'float32', 'float64'):
        x = test_array(6, DT[dtype])
        b = io.BytesIO()
        W.write(b, 8000, x)
        try:
            res = 'ok ' + rats_wl(A.wav_data_to_samples(b.getvalue(), 8000))
        except A.AudioIOError as e:
            res = 'err ' + type(e).__name__
        add('wav:decoded-dtype', 'wavdec %s %s %s' % ('f' if dtype.startswith('float') else 'i', dtype,
                                                      rats_wl(x) if dtype.startswith('float') else ints_wl(x)),
            res, ['%s:%s' % (dtype, res.split()[0] if res.startswith('ok') else res)])
    for junk in (b'', b'garbage', b'RIFF\x00\x00\x00\x00WAVE', bytes(rng.randrange(256) for _ in range(64))):
        try:
            A.wav_data_to_samples(junk, 8000)
            got = 'returned'
        except A.AudioIOReadError:
            got = 'AudioIOReadError'
        except A.AudioIOError as e:
            got = type(e).__name__
        except Exception as e:  # pylint: disable=broad-except
            got = 'leaked ' + type(e).__name__
        chk.count('monitor:unreadable-wav', None, hist=got)
        if got != 'AudioIOReadError':
            chk.disagree('monitor:unreadable-wav', {'bytes': junk.hex()}, got, 'AudioIOReadError')

    # ---- purity corpus (single recorded calls, replayed on private copies, twice)
    for (_, o) in corpus_cases(PID):
        if o.get('kind') == 'purity':
            chk.count('oracle:purity', None, False, 'corpus call replayed twice on the same argument objects')
            r = oracle_purity(A, o)
            if r:
                chk.fail(r, o)

    # ---- (e) crop / repeat / stereo
    cases = [o for (_, o) in corpus_cases(PID) if o.get('kind') in BUILD]
    if chk.thorough:
        cases += list(enum_small())
    for kind, gen, nsmall, nbig in (('crop', gen_crop, chk.n(6000, 120000), chk.n(25, 300)),
                                    ('repeat', gen_repeat, chk.n(5000, 80000), chk.n(15, 200)),
                                    ('stereo', gen_stereo, chk.n(1500, 20000), chk.n(8, 80))):
        rng = chk.subrng(kind)
        cases += [gen(rng, False) for _ in range(nsmall)] + [gen(rng, True) for _ in range(nbig)]
    nfail = 0
    for o in cases:
        stream, req, impl, hist = BUILD[o['kind']](A, o)
        add(stream, req, impl, hist, post='repeat' if o['kind'] == 'repeat' else None)
        ents[-1]['obj'] = o
        chk.count('oracle:' + o['kind'], None)
        r = ORACLE[o['kind']](A, o) if nfail < 20 else None
        if r:
            nfail += 1
            chk.fail(r, o)

    # ---- (f) call histories in one process (oracle only: the Lean model is a pure function, so it has no history)
    rng = chk.subrng('history')
    hists = [o for (_, o) in corpus_cases(PID) if o.get('kind') == 'history'] + [gen_history(rng) for _ in range(chk.n(150, 2500))]
    nfail = 0
    for h in hists:
        ncall = sum(1 for op in h['ops'] if op['op'] == 'call')
        r = run_history(A, h, lambda key: chk.count('history', None, False, key)) if nfail < 5 else None
        chk.stream('history')['evaluations'] += ncall - sum(1 for op in h['ops'])   # evaluations = calls made
        chk.stream('history')['nontrivial'].add(repr(h['ops'])[:2000])
        if r:
            nfail += 1
            m = int(r.split()[1])
            chk.fail(r, {'kind': 'history', 'pool': h['pool'], 'ops': h['ops'][:m]})
            chk.failures.insert(nfail - 1, chk.failures.pop())      # self-contained whatever the cause (state or not): reported first

    # ---- run the model on the same requests and diff exactly
    model = chk.driver(EXE, [e['req'] for e in ents])
    for e, m in zip(ents, model):
        a, hist = e['impl'], list(e['hist'])
        if e['post'] == 'repeat' and m.startswith('ok '):
            t = m.split(' ', 2)
            hist.append('side-condition:' + ('holds' if t[1] == '1' else 'FAILS'))
            m = 'ok ' + t[2]
        if e['post'] == 'undef' and m.startswith('ok') and a.startswith('ok') and 'undef' in m:
            ta, tm = a.split(), m.split()
            if len(ta) == len(tm):
                hist.append('has-values-outside-int16 (those not compared)')
                a = ' '.join('undef' if y == 'undef' else x for x, y in zip(ta, tm))
        w = e.get('weight', 1)
        nontriv = m.startswith('ok') and not m.startswith('ok 0')
        s = chk.stream(e['stream'])
        s['evaluations'] += w - 1
        chk.count(e['stream'], e['req'][:3000], nontriv, hist + ['result:' + (m if m.startswith('err') else m.split()[0])])
        if a != m:
            chk.disagree(e['stream'], e.get('obj') or {'request': e['req'][:3000]}, a[:400], m[:400])
    for want in ('crop', 'repeat', 'stereo', 'wav:int16-signal'):
        for e, m in zip(ents, model):
            if e['stream'] == want and 20 < len(e['req']) < 160:
                chk.sample({'request': e['req'], 'impl': e['impl'][:200], 'model': m[:200]})
                break
    chk.sample({'request': ents[0]['req'][:120] + ' …', 'impl': ents[0]['impl'][:160] + ' …', 'model_equal': ents[0]['impl'] == model[0]})
    chk.exhaustive = chk.thorough
    chk.notes['exhaustive'] = 'pcm streams and the pcm oracle cover all 65 536 int16 values in both tiers; thorough adds the small-scope enumeration of crop/repeat/stereo'


# ----------------------------------------------------------------------------- replay
def replay(chk, obj):
    warnings.filterwarnings('ignore')
    import note_seq.audio_io as A
    print('replay C20:', obj)
    kind = obj.get('kind')
    if kind == 'pcm':
        k = np.array([obj['k']], dtype=np.int16)
        f = A.int16_samples_to_float32(k)
        b = A.float_samples_to_int16(f)
        print('int16 %d -> %r (%s) -> %d' % (obj['k'], float(f[0]), f.dtype, int(b[0])))
        r = None if (int(b[0]) == obj['k'] and b.dtype == np.int16) else 'value changed'
    elif kind in ORACLE:
        r = ORACLE[kind](A, obj)
        if kind in BUILD:
            print('implementation returns:', BUILD[kind](A, obj)[2][:300])
    else:
        print('unknown replay kind')
        return 2
    print('PROPERTY FAILS: %s' % r if r else 'property holds on this input')
    return 1 if r else 0
