"""C05 — MusicXML scores parse to the notes, key, meter and tempo they declare (DESIGN 6.5).

Files: every rendered score is written to one of a small POOL of paths (three .xml, three .mxl) that are REWRITTEN in
place for the whole run, so a conversion that remembers anything per path is judged on stale content by the oracle and
the correspondence of every stream.  Stream `file-history`: sequences of conversions in one process over two or three
paths — the same file converted twice (equal results, also after the first result was modified in place), a path
rewritten with another score (result must be the new content's; also when the new file has the same size and the
old modification time), .xml / .mxl interleaved; every step is compared with the conversion of the same content from a
path used exactly once (itself judged by the oracle).  Class-level tables of the parser must be unchanged afterwards.
"""
import ast
import inspect
from fractions import Fraction as F

from harness.common import lean_int, lean_list, lean_str

PID = 'C05'
_P = 'NoteSeqVerif.Props.C05'
_F = 'NoteSeqVerif.Props.C05_float'      # the timing clause for every `Rounding R` (uses Proofs/Rounding*, Proofs/C05Float)
MODULES = ['NoteSeqVerif.Proofs.C05Float', _F, _P]
EXE = 'drv_c05'
# translator tie T2 (gen/translit2.py): seconds moved by <backup> / <forward>, by symbolic execution of the current source
BRIDGE = 'NoteSeqVerif.Props.C05_bridge'
BRIDGE_THEOREMS = ['NSV.C05.t2_backup_seconds', 'NSV.C05.t2_forward_seconds']
THEOREMS = [(_P, 'NSV.C05.' + t) for t in (
    'mxml_chord_onset_exact', 'mxml_pitch', 'mxml_pitch_steps', 'mxml_key', 'mxml_key_table', 'mxml_key_transpose',
    'mxml_cursor', 'mxml_time_partial', 'mxml_time_first_part', 'mxml_part_start', 'mxml_time_later_part_partial',
    'mxml_note_times', 'mxml_total_time', 'mxml_tempo_marks', 'mxml_harmony_time', 'mxml_time_fails_today',
    'mxml_attrs', 'mxml_rests_dropped', 'mxml_channel_program', 'mxml_score_part_declared',
    'mxml_time_signature_declared', 'mxml_time_signature_complete', 'mxml_time_signatures_reported',
    'mxml_key_signatures_reported', 'mxml_key_signatures_once', 'mxml_harmony', 'mxml_harmony_alter_table', 'mxml_harmony_kind_table')] + [
    (_F, 'NSV.C05.' + t) for t in (
    # where a part starts (float state follows the context in force; F-C05-4 as in the exact theorems)
    'mxml_float_part_start', 'mxml_float_first_part', 'mxml_float_later_part_partial',
    # error bounds: relative without <backup>, absolute with; exactness on dyadic scores
    'mxml_time_float', 'mxml_cursor_float', 'mxml_time_float_backup', 'mxml_cursor_float_backup',
    'mxml_time_float_exact_dyadic', 'mxml_cursor_float_exact_dyadic',
    # structure: signs, representability, order, total_time
    'mxml_float_step', 'mxml_float_cursor', 'mxml_float_structure', 'mxml_float_monotone',
    'mxml_float_total_first_part',
    # the full float statement is violated by the model on the F-C05-4 replay
    'mxml_time_float_fails_today')] + [
    (_F, 'NSV.rounding_rne53')]       # the executable rne53 is a `Rounding`: every float theorem applies to the driver's arithmetic


def lean_rat(x):
    x = F(x)
    return '(%d : Rat)' % x.numerator if x.denominator == 1 else '((%d : Rat) / %d)' % (x.numerator, x.denominator)


def generate(chk):
    """Generated/C05.lean: every constant and table of the MusicXML parser/reader the model uses,
    read from the working tree (values by import, the `music_proto_keys` literal via the AST)."""
    try:
        _generate(chk)
        chk.translit['C05 tables'] = 'regenerated from source'
    except Exception as e:  # pylint: disable=broad-except
        # the code no longer has the shape the extractor reads: the tie is broken, not the machinery
        chk.translit['C05 tables'] = 'BROKEN: %s: %s' % (type(e).__name__, e)
        chk.broken.append('translator:C05 (%s: %s)' % (type(e).__name__, e))


def _generate(chk):
    from note_seq import musicxml_parser as mp, musicxml_reader as mr, constants
    # the fifths -> proto-key table: a literal of 15 pitch classes assigned to a name, inside the conversion function (as in
    # the pinned source) or at module level (a maintainer's "hoist the constant" refactoring); whatever its name is
    cands = []
    for node in ast.walk(ast.parse(inspect.getsource(mr))):
        if isinstance(node, ast.Assign) and len(node.targets) == 1 and isinstance(node.targets[0], ast.Name) \
                and isinstance(node.value, (ast.List, ast.Tuple)):
            try:
                v = list(ast.literal_eval(node.value))
            except (ValueError, SyntaxError):
                continue
            if len(v) == 15 and all(isinstance(k, int) and not isinstance(k, bool) for k in v):
                cands.append(v)
    if len(cands) != 1:
        # leave the last regenerated file in place: a translator give-up (recorded; the correspondence still ties the model)
        raise ValueError('fifths -> key table literal of musicxml_reader not found (%d candidates)' % len(cands))
    keys = cands[0]
    st = mp.MusicXMLParserState()
    # step -> pitch class, by evaluating pitch_to_midi_pitch(step, 0, 0) - 12 on every printable ASCII
    # character and a few longer strings; steps that raise PitchStepParseError are not in the table
    steps = []
    for s in [chr(c) for c in range(33, 127)] + ['', 'Cb', 'CC', 'do', 'H']:
        try:
            steps.append((s, mp.Note.pitch_to_midi_pitch(s, 0, '0') - 12))
        except mp.PitchStepParseError:
            pass
    # chord-symbol alteration spelling, by evaluating ChordSymbol._alter_to_string on -9..9
    cs = object.__new__(mp.ChordSymbol)
    alters = []
    for a in range(-9, 10):
        try:
            alters.append((a, cs._alter_to_string(str(a))))
        except mp.ChordSymbolParseError:
            pass
    trm = mp.NoteDuration.TYPE_RATIO_MAP
    cka = mp.ChordSymbol.CHORD_KIND_ABBREVIATIONS
    txt = ('/-! GENERATED from /repo on every run by harness/c05.py — do not edit. -/\n'
           'namespace NSV.C05.Gen\n'
           'def STANDARD_PPQ : Int := %d\n' % constants.STANDARD_PPQ
           + 'def DEFAULT_QPM : Rat := %s\n' % lean_rat(constants.DEFAULT_QUARTERS_PER_MINUTE)
           + 'def DEFAULT_MIDI_PROGRAM : Int := %s\n' % lean_int(mp.DEFAULT_MIDI_PROGRAM)
           + 'def DEFAULT_MIDI_CHANNEL : Int := %s\n' % lean_int(mp.DEFAULT_MIDI_CHANNEL)
           + '/-- `MusicXMLParserState()` -/\n'
           + 'def INIT_DIVISIONS : Int := %s\n' % lean_int(st.divisions)
           + 'def INIT_QPM : Rat := %s\n' % lean_rat(st.qpm)
           + 'def INIT_SPQ : Rat := %s\n' % lean_rat(st.seconds_per_quarter)
           + 'def INIT_VELOCITY : Int := %s\n' % lean_int(st.velocity)
           + '/-- the `music_proto_keys` literal of `musicxml_to_sequence_proto` -/\n'
           + 'def musicProtoKeys : List Int := %s\n' % lean_list(lean_int(k) for k in keys)
           + '/-- `NoteDuration.TYPE_RATIO_MAP` (dict order) -/\n'
           + 'def typeRatioMap : List (String × Rat) := %s\n'
           % lean_list('(%s, %s)' % (lean_str(k), lean_rat(v)) for k, v in trm.items())
           + '/-- `ChordSymbol.CHORD_KIND_ABBREVIATIONS` (dict order) -/\n'
           + 'def chordKindAbbreviations : List (String × String) := %s\n'
           % lean_list('(%s, %s)' % (lean_str(k), lean_str(v)) for k, v in cka.items())
           + '/-- steps accepted by `Note.pitch_to_midi_pitch` with their pitch class -/\n'
           + 'def stepTable : List (String × Int) := %s\n'
           % lean_list('(%s, %s)' % (lean_str(k), lean_int(v)) for k, v in steps)
           + '/-- semitone counts accepted by `ChordSymbol._alter_to_string` with their spelling -/\n'
           + 'def alterStrings : List (Int × String) := %s\n'
           % lean_list('(%s, %s)' % (lean_int(k), lean_str(v)) for k, v in alters)
           + 'end NSV.C05.Gen\n')
    chk.regenerate('NoteSeqVerif/Generated/C05.lean', txt)
    # translator tie T2: the duration -> seconds arithmetic of <backup> / <forward> by symbolic execution
    from harness.t2 import generate_t2
    cur = {'int(xml_duration.text)': ('d', 'int'), 'self.state.divisions': ('divisions', 'int'),
           'self.state.seconds_per_quarter': ('spq', 'float')}
    generate_t2(chk, 'C05', [
        dict(fn=mp.Measure._parse_backup, module=mp, name='backup', paths=cur, export=['seconds']),
        dict(fn=mp.Measure._parse_forward, module=mp, name='forward', paths=cur, export=['seconds']),
    ])


# ============================================================================= abstract score
# A score is JSON: {'score_parts': [{'id', 'name', 'chan', 'prog'}], 'parts': [{'id', 'measures': [[el…]…]}],
#                   'title': str|None}
# el = ['A', [attr…]] | ['N', note] | ['B', d] | ['F', d] | ['D', [[tempo_text|None, dynamics|None]…]]
#    | ['H', [hchild…]] | ['O', tag]
# attr = ['d', int] | ['k', fifths|None, mode|None] | ['t', [beats…], [beat_types…]] (ints or non-integer texts)
#      | ['x', chromatic]
# note = {'k': 'p'|'r'|'u', 'step', 'alter': text|None, 'oct', 'chord': bool, 'dur': int|None, 'voice': int|None,
#         'type': str|None, 'dots': int, 'tup': [actual, normal]|None, 'extra': [ignored child tags]}
# hchild = ['r', step|None, alter] | ['k', text|None] | ['g', value, alter, type|None] | ['b', step|None, alter]
#        | ['o', int|text];   alter = None (no element) | int | non-integer text;
#        value = None (no element) | int | text ('' = empty element)
import os
import shutil
import tempfile
import zipfile
from xml.sax.saxutils import escape, quoteattr

from harness import nswire
from harness.common import MachineryError, rat

NOTE_DEFAULT = {'k': 'p', 'step': 'C', 'alter': None, 'oct': 4, 'chord': False, 'dur': 1, 'voice': None,
                'type': None, 'dots': 0, 'tup': None, 'extra': []}


def mknote(**kw):
    n = dict(NOTE_DEFAULT)
    n['extra'] = []
    n.update(kw)
    return n


def _tag(t, text):
    return '<%s>%s</%s>' % (t, escape(str(text)), t)


def render_note(n):
    x = ['<note>']
    if n.get('dur') is None:
        x.append('<grace/>')
    if n['chord']:
        x.append('<chord/>')
    if n['k'] == 'p':
        x.append('<pitch>' + _tag('step', n['step'])
                 + (_tag('alter', n['alter']) if n['alter'] is not None else '')
                 + _tag('octave', n['oct']) + '</pitch>')
    elif n['k'] == 'r':
        x.append('<rest/>')
    else:
        x.append('<unpitched><display-step>E</display-step><display-octave>4</display-octave></unpitched>')
    if n.get('dur') is not None:
        x.append(_tag('duration', n['dur']))
    if 'tie' in n.get('extra', ()):
        x.append('<tie type="start"/>')
    if n['voice'] is not None:
        x.append(_tag('voice', n['voice']))
    if n['type'] is not None:
        x.append(_tag('type', n['type']))
    x.append('<dot/>' * n['dots'])
    if n['tup'] is not None:
        x.append('<time-modification>' + _tag('actual-notes', n['tup'][0]) + _tag('normal-notes', n['tup'][1])
                 + '</time-modification>')
    if 'stem' in n.get('extra', ()):
        x.append('<stem>up</stem>')
    if 'staff' in n.get('extra', ()):
        x.append('<staff>1</staff>')
    x.append('</note>')
    return ''.join(x)


def render_hpitch(tag, pre, step, alter):
    return ('<%s>' % tag + (_tag(pre + '-step', step) if step is not None else '')
            + (_tag(pre + '-alter', alter) if alter is not None else '') + '</%s>' % tag)


def render_el(e):
    k = e[0]
    if k == 'A':
        x = ['<attributes>']
        for a in e[1]:
            if a[0] == 'd':
                x.append(_tag('divisions', a[1]))
            elif a[0] == 'k':
                x.append('<key>' + (_tag('fifths', a[1]) if a[1] is not None else '')
                         + (_tag('mode', a[2]) if a[2] is not None else '') + '</key>')
            elif a[0] == 't':
                x.append('<time>' + ''.join(_tag('beats', b) for b in a[1])
                         + ''.join(_tag('beat-type', b) for b in a[2]) + '</time>')
            elif a[0] == 'x':
                x.append('<transpose><diatonic>0</diatonic>' + _tag('chromatic', a[1]) + '</transpose>')
        x.append('</attributes>')
        return ''.join(x)
    if k == 'N':
        return render_note(e[1])
    if k == 'B':
        return '<backup>' + _tag('duration', e[1]) + '</backup>'
    if k == 'F':
        return '<forward>' + _tag('duration', e[1]) + '</forward>'
    if k == 'D':
        x = ['<direction placement="above"><direction-type><words>x</words></direction-type>']
        for tempo, dyn in e[1]:
            x.append('<sound' + (' tempo=%s' % quoteattr(str(tempo)) if tempo is not None else '')
                     + (' dynamics=%s' % quoteattr(str(dyn)) if dyn is not None else '') + '/>')
        x.append('</direction>')
        return ''.join(x)
    if k == 'H':
        x = ['<harmony>']
        for c in e[1]:
            if c[0] == 'r':
                x.append(render_hpitch('root', 'root', c[1], c[2]))
            elif c[0] == 'k':
                x.append('<kind/>' if c[1] is None else '<kind text="x">%s</kind>' % escape(' ' + c[1] + '\n '))
            elif c[0] == 'g':
                x.append('<degree>' + (('<degree-value/>' if c[1] == '' else _tag('degree-value', c[1])) if c[1] is not None else '')
                         + (_tag('degree-alter', c[2]) if c[2] is not None else '')
                         + (_tag('degree-type', c[3]) if c[3] is not None else '') + '</degree>')
            elif c[0] == 'b':
                x.append(render_hpitch('bass', 'bass', c[1], c[2]))
            elif c[0] == 'o':
                x.append(_tag('offset', c[1]))
        x.append('</harmony>')
        return ''.join(x)
    if k == 'O':
        return '<%s/>' % e[1]
    raise MachineryError('unknown element %r' % (e,))


def render_xml(sc):
    x = ['<?xml version="1.0" encoding="UTF-8"?>\n<score-partwise version="3.0">']
    if sc.get('title'):
        x.append('<work>' + _tag('work-title', sc['title']) + '</work>')
    x.append('<part-list>')
    for sp in sc['score_parts']:
        x.append('<score-part id=%s>' % quoteattr(sp['id']) + _tag('part-name', sp.get('name', 'p')))
        if sp.get('chan') is not None or sp.get('prog') is not None:
            x.append('<midi-instrument id="I">'
                     + (_tag('midi-channel', sp['chan']) if sp.get('chan') is not None else '')
                     + (_tag('midi-program', sp['prog']) if sp.get('prog') is not None else '')
                     + '</midi-instrument>')
        x.append('</score-part>')
    x.append('</part-list>')
    for p in sc['parts']:
        x.append('<part%s>' % (' id=%s' % quoteattr(p['id']) if p['id'] is not None else ''))
        for i, m in enumerate(p['measures']):
            x.append('\n<measure number="%d">' % (i + 1) + ''.join(render_el(e) for e in m) + '</measure>')
        x.append('</part>')
    x.append('</score-partwise>\n')
    return ''.join(x)


# ----------------------------------------------------------------------------- wire
def hx(s):
    if not all(ord(c) < 128 for c in s):
        raise MachineryError('non-ASCII text on the C05 wire: %r' % s)
    return nswire.hx(s)


def opt(v, f=str):
    return '-' if v is None else f(v)


def pyint(text):
    """what `int(text)` gives (None when it raises ValueError)."""
    try:
        return int(text)
    except (ValueError, TypeError):
        return None


def inttxt(v):
    i = pyint(v)
    return 'bad' if i is None else str(i)


def enc_note(n):
    if n['k'] == 'p':
        alter = float(n['alter']) if n['alter'] else 0.0
        t = ['p', hx(n['step']), rat(alter), str(int(n['oct']))]
    else:
        t = [n['k']]
    t += ['1' if n['chord'] else '0', opt(n.get('dur')), opt(n['voice']), opt(n['type'], hx), str(n['dots'])]
    t += ['-'] if n['tup'] is None else [str(n['tup'][0]), str(n['tup'][1])]
    return t


def enc_el(e):
    k = e[0]
    if k == 'A':
        t = ['A', str(len(e[1]))]
        for a in e[1]:
            if a[0] == 'd':
                t += ['d', str(a[1])]
            elif a[0] == 'k':
                t += ['k', opt(a[1]), opt(a[2], hx)]
            elif a[0] == 't':
                t += ['t', str(len(a[1]))] + [inttxt(b) for b in a[1]] + [str(len(a[2]))] + [inttxt(b) for b in a[2]]
            elif a[0] == 'x':
                t += ['x', str(a[1])]
        return t
    if k == 'N':
        return ['N'] + enc_note(e[1])
    if k in 'BF':
        return [k, str(e[1])]
    if k == 'D':
        t = ['D', str(len(e[1]))]
        for tempo, dyn in e[1]:
            t += [opt(tempo, lambda s: rat(float(s))), opt(dyn)]
        return t
    if k == 'H':
        t = ['H', str(len(e[1]))]
        for c in e[1]:
            if c[0] in 'rb':
                t += [c[0], opt(c[1], hx), opt(c[2], inttxt)]
            elif c[0] == 'k':
                t += ['k', opt(c[1], hx)]
            elif c[0] == 'g':
                v = pyint(c[1]) if c[1] is not None else None
                t += ['g', opt(v), opt(c[2], inttxt), opt(c[3], hx)]
            elif c[0] == 'o':
                t += ['o', inttxt(c[1])]
        return t
    if k == 'O':
        return ['O']
    raise MachineryError('unknown element %r' % (e,))


def encode_score(sc):
    t = [str(len(sc['score_parts']))]
    for sp in sc['score_parts']:
        t += [hx(sp['id']), opt(sp.get('chan')), opt(sp.get('prog'))]
    t.append(str(len(sc['parts'])))
    for p in sc['parts']:
        t += [hx(p['id'] if p['id'] is not None else ''), str(len(p['measures']))]
        for m in p['measures']:
            t.append(str(len(m)))
            for e in m:
                t += enc_el(e)
    return ' '.join(t)


# ----------------------------------------------------------------------------- the real code
POOL = 3      # paths per extension that the streams rewrite over and over


class Impl:
    """runs musicxml_file_to_sequence_proto on rendered files in a private temporary directory.  Scores go to a small
    pool of paths s0..s2.xml / s0..s2.mxl which are rewritten in place (never a fresh name per score) unless a unique
    path is asked for; `prev` is the score that was at the path of the latest `run` before it was rewritten."""

    def __init__(self):
        base = '/dev/shm' if os.path.isdir('/dev/shm') and os.access('/dev/shm', os.W_OK) else None
        self.dir = tempfile.mkdtemp(prefix='c05_', dir=base)
        self.n = 0
        self.last = {}
        self.prev = None

    def close(self):
        shutil.rmtree(self.dir, ignore_errors=True)

    def path(self, mxl=False, slot=None, unique=False):
        self.n += 1
        name = 'u%d' % self.n if unique else 's%d' % ((self.n % POOL) if slot is None else slot)
        return os.path.join(self.dir, name + ('.mxl' if mxl else '.xml'))

    def write(self, xml, mxl=False, container=None, inner='score.xml', slot=None, unique=False, path=None):
        p = path or self.path(mxl, slot, unique)
        if not mxl:
            with open(p, 'w', encoding='utf-8') as f:
                f.write(xml)
            return p
        if container is None:
            container = ('<?xml version="1.0" encoding="UTF-8"?><container><rootfiles>'
                         '<rootfile full-path="%s" media-type="application/vnd.recordare.musicxml+xml"/>'
                         '</rootfiles></container>' % inner)
        with zipfile.ZipFile(p, 'w', zipfile.ZIP_DEFLATED) as z:
            if container != '':
                z.writestr('META-INF/container.xml', container)
            if inner is not None:
                z.writestr(inner, xml)
        return p

    def convert(self, path, raw=False):
        """(sequence or None, error name or None); pool paths stay on disk (they are rewritten), others are removed"""
        from note_seq import musicxml_reader as mr, musicxml_parser as mp
        try:
            return mr.musicxml_file_to_sequence_proto(path), None
        except mr.MusicXMLConversionError as e:
            inner = e.args[0] if e.args else None
            return None, type(inner).__name__ if isinstance(inner, mp.MusicXMLParseError) else 'MusicXMLConversionError'
        except Exception as e:  # pylint: disable=broad-except
            return None, 'raw:' + type(e).__name__
        finally:
            if not os.path.basename(path).startswith(('s', 'h')):      # pool / history paths stay: they are rewritten
                try:
                    os.unlink(path)
                except OSError:
                    pass

    def run(self, sc, mxl=False, slot=None, unique=False):
        p = self.write(render_xml(sc), mxl=mxl, slot=slot, unique=unique)
        self.prev = self.last.get(p)
        if not unique:
            self.last[p] = sc
        return self.convert(p)


def result_line(ns, err):
    if err is not None:
        return 'err ' + (err[4:] if err.startswith('raw:') else err)
    t = nswire.encode(ns).split(' ')
    t[9] = 'parts%d' % len(ns.part_infos)
    return 'ok ' + ' '.join(t)


# ============================================================================= generators
ALLOWED_DIVISIONS = list(range(1, 17)) + [24, 96, 480, 960]
TYPE_RATIO = {'maxima': F(8), 'long': F(4), 'breve': F(2), 'whole': F(1), 'half': F(1, 2), 'quarter': F(1, 4),
              'eighth': F(1, 8), '16th': F(1, 16), '32nd': F(1, 32), '64th': F(1, 64), '128th': F(1, 128),
              '256th': F(1, 256), '512th': F(1, 512), '1024th': F(1, 1024)}
STEP_PC = {'C': 0, 'D': 2, 'E': 4, 'F': 5, 'G': 7, 'A': 9, 'B': 11}
# the oracle's own copy of the supported kind table (MusicXML kind-value -> lead-sheet abbreviation)
KIND_ABBREV = {
    'major': '', 'minor': 'm', 'augmented': 'aug', 'diminished': 'dim', 'dominant': '7', 'major-seventh': 'maj7',
    'minor-seventh': 'm7', 'diminished-seventh': 'dim7', 'augmented-seventh': 'aug7', 'half-diminished': 'm7b5',
    'major-minor': 'm(maj7)', 'major-sixth': '6', 'minor-sixth': 'm6', 'dominant-ninth': '9', 'major-ninth': 'maj9',
    'minor-ninth': 'm9', 'dominant-11th': '11', 'major-11th': 'maj11', 'minor-11th': 'm11', 'dominant-13th': '13',
    'major-13th': 'maj13', 'minor-13th': 'm13', 'suspended-second': 'sus2', 'suspended-fourth': 'sus', 'pedal': 'ped',
    'power': '5', 'none': 'N.C.', 'dominant-seventh': '7', 'augmented-ninth': 'aug9', 'minor-major': 'm(maj7)',
    '': '', 'min': 'm', 'aug': 'aug', 'dim': 'dim', '7': '7', 'maj7': 'maj7', 'min7': 'm7', 'dim7': 'dim7',
    'm7b5': 'm7b5', 'minMaj7': 'm(maj7)', '6': '6', 'min6': 'm6', 'maj69': '6(add9)', '9': '9', 'maj9': 'maj9',
    'min9': 'm9', 'sus47': 'sus7'}
ACC = {-2: 'bb', -1: 'b', 0: '', 1: '#', 2: '##'}
QPM_TEXTS = ['60', '90', '120', '132.5', '200', '72', '100.25', '48', '87.3', '180', '66.6', '40', '240']


def rhythm_candidates(div):
    """(total divisions, [(dur, type, dots, tuplet)…]) for every notated value that is a whole number of divisions."""
    out = []
    for ty in ('breve', 'whole', 'half', 'quarter', 'eighth', '16th', '32nd'):
        for dots in (0, 1, 2):
            d = TYPE_RATIO[ty] * 4 * div * (2 - F(1, 2 ** dots))
            if d.denominator == 1 and d > 0:
                out.append((int(d), [(int(d), ty, dots, None)]))
        for (a, b) in ((3, 2), (5, 4), (6, 4), (7, 4)):
            d = TYPE_RATIO[ty] * 4 * div * F(b, a)
            if d.denominator == 1 and d > 0 and ty in ('half', 'quarter', 'eighth', '16th'):
                out.append((int(d) * a, [(int(d), ty, 0, [a, b])] * a))
    return out


def fill(rng, length, div, cands):
    """a rhythm of exactly `length` divisions."""
    out, rem = [], length
    while rem > 0:
        fit = [c for c in cands if c[0] <= rem]
        if not fit:
            out.append((rem, rng.choice(['quarter', 'eighth', None]), 0, None))
            break
        # prefer longer values so that measures stay small at large divisions
        fit.sort(key=lambda c: -c[0])
        c = fit[min(len(fit) - 1, int(abs(rng.gauss(0, 1)) * len(fit) / 2.5))] if rng.random() < 0.8 else rng.choice(fit)
        if len(out) + len(c[1]) > 24:
            c = fit[0]
        out += c[1]
        rem -= c[0]
    return out


def gen_pitch(rng):
    k = rng.random()
    if k < 0.12:   # spellings that cross the octave boundary
        step, alter = rng.choice([('C', '-1'), ('B', '1'), ('C', '-2'), ('B', '2'), ('E', '1'), ('F', '-1')])
    else:
        step = rng.choice('CDEFGAB')
        alter = rng.choice([None, None, None, '0', '1', '-1', '1', '-1', '2', '-2'])
    octave = rng.choice([2, 3, 4, 4, 5, 6, rng.randrange(0, 10)])
    return step, alter, octave


def gen_harmony(rng, div):
    root = rng.choice('CDEFGAB')
    cs = [['r', root, rng.choice([None, None, 0, 1, -1, 1, -1, 2, -2])]]
    kind = rng.choice(list(KIND_ABBREV))
    cs.append(['k', kind if (kind != '' or rng.random() < 0.5) else None])
    if rng.random() < 0.3:
        cs.append(['b', rng.choice('CDEFGAB'), rng.choice([None, None, 0, 1, -1])])
    for _ in range(rng.choice([0, 0, 0, 1, 1, 2])):
        ty = rng.choice(['add', 'subtract', 'alter'])
        alter = rng.choice([1, -1, 2, -2]) if ty == 'alter' else rng.choice([None, 0, 1, -1, 0])
        cs.append(['g', rng.choice([2, 3, 4, 5, 6, 7, 9, 11, 13]), alter, ty])
    if rng.random() < 0.15:
        cs.append(['o', rng.choice([0, 1, div, max(1, div // 2)])])
    return ['H', cs]


def pick_meter(rng):
    bt = rng.choice([4, 4, 4, 8, 8, 2])
    beats = rng.choice({4: [2, 3, 4, 4, 4, 5, 6, 7], 8: [3, 5, 6, 6, 7, 9, 12], 2: [1, 2, 2, 3, 4]}[bt])
    return beats, bt


def gen_valid(rng, force=None):
    """a score of the quantifier's class: 1..3 parts, 1..6 complete measures, listed divisions with whole-beat
    constraint, meters n/4 n/8 n/2, fifths -7..7 x mode, tempo changes, transposing parts, two voices joined by backup,
    chords, rests, dots, tuplets, harmony from the kind table.  `force` selects a layout for forced coincidences."""
    force = force or {}
    nparts = force.get('nparts') or rng.choice([1, 1, 2, 2, 3])
    nmeas = force.get('nmeas') or rng.randint(1, 6)
    meters = [pick_meter(rng)] * nmeas
    if nmeas > 1 and rng.random() < 0.3:
        k = rng.randrange(1, nmeas)
        meters = meters[:k] + [pick_meter(rng)] * (nmeas - k)
    # tempo plan: measure -> [(beat index, qpm text)], beat 0 = measure start
    mode = force.get('tempo') or rng.choice(['none', 'none', 'p0', 'p0', 'p0', 'all'])
    marks = {}
    if mode != 'none':
        for m in range(nmeas):
            here = []
            if rng.random() < (0.6 if m == 0 else 0.35):
                here.append((0, rng.choice(QPM_TEXTS)))
            if meters[m][0] > 1 and rng.random() < 0.2:
                here.append((rng.randrange(1, meters[m][0]), rng.choice(QPM_TEXTS)))
            if here:
                marks[m] = here
    score_parts, parts, hist = [], [], set()
    # key plan of the SCORE: every non-transposing part that follows it declares the same key at the same measures (what
    # exported scores do) — the initial key, a change, possibly the way back to the first key; the other parts keep a
    # key plan of their own
    shared = None
    if force.get('shared_keys') or rng.random() < 0.4:
        k0 = (rng.randint(-7, 7), rng.choice(['major', 'minor', None]))
        changes = {}
        if nmeas > 1 and rng.random() < 0.75:
            m1 = rng.randrange(1, nmeas)
            changes[m1] = (rng.randint(-7, 7), rng.choice(['major', 'minor', None]))
            if m1 + 1 < nmeas and rng.random() < 0.5:
                changes[rng.randrange(m1 + 1, nmeas)] = k0 if rng.random() < 0.6 else (rng.randint(-7, 7), rng.choice(['major', 'minor', None]))
        shared = (k0, changes)
    hist.add('tempo:%s/%d' % (mode, min(3, sum(len(v) for v in marks.values()))))
    if any(b for v in marks.values() for b, _ in v):
        hist.add('tempo:mid-measure')
    for p in range(nparts):
        pid = 'P%d' % (p + 1)
        midi = rng.random() < 0.6
        score_parts.append({'id': pid, 'name': 'part %d' % (p + 1),
                            'chan': rng.randrange(1, 17) if midi else None, 'prog': rng.randrange(1, 129) if midi else None})
        ok_div = [d for d in ALLOWED_DIVISIONS if all((4 * d) % bt == 0 for _, bt in meters)]
        div = rng.choice(ok_div if rng.random() < 0.7 else [d for d in ok_div if d in (1, 2, 3, 4, 6, 12, 24, 96, 480, 960)] or ok_div)
        div_change = rng.randrange(1, nmeas) if nmeas > 1 and rng.random() < 0.1 else None
        t = 0
        if rng.random() < 0.3:
            t = rng.choice([-2, -9, 3, -12, 12, -14, 5, -5, 7, 24, -24, -3, rng.randint(-24, 24)])
            hist.add('transposing-part')
        fifths = rng.randint(-7, 7)
        if t and rng.random() < 0.4:   # force fifths + (-5 t mod 12) past 12 (the F-C05-3 coincidence)
            cand = [f for f in range(-7, 8) if f + (-5 * t) % 12 >= 13]
            if cand:
                fifths = rng.choice(cand)
        if t and fifths + (-5 * t) % 12 >= 13:
            hist.add('key:transposed-past-12')
        kmode = rng.choice(['major', 'minor', None])
        hist.add('mode:%s' % kmode)
        key_change = rng.randrange(1, nmeas) if (nmeas > 1 and t == 0 and rng.random() < 0.2) else None
        follows = shared is not None and t == 0 and rng.random() < 0.85
        if follows:
            (fifths, kmode), key_change = shared[0], None
            if p and shared[1]:
                hist.add('key-change:same-in-several-parts')
        carries_marks = mode == 'all' or (mode == 'p0' and p == 0)
        measures = []
        for m in range(nmeas):
            beats, bt = meters[m]
            els, attrs = [], []
            if m == 0 or m == div_change:
                if m == div_change:
                    div = rng.choice(ok_div)
                    hist.add('divisions-change')
                attrs.append(['d', div])
            if m == 0 or m == key_change or (follows and m in shared[1]):
                if m == key_change:
                    fifths, kmode = rng.randint(-7, 7), rng.choice(['major', 'minor', None])
                    hist.add('key-change')
                elif m and follows:
                    fifths, kmode = shared[1][m]
                    hist.add('key-change')
                attrs.append(['k', fifths, kmode])
            if m == 0 or meters[m] != meters[m - 1]:
                attrs.append(['t', [beats], [bt]])
                if m:
                    hist.add('meter-change')
            if m == 0 and t:
                attrs.append(['x', t])
            here = marks.get(m, [])
            start_marks = [q for b, q in here if b == 0]
            pre_dir = carries_marks and start_marks and rng.random() < 0.3
            if pre_dir:    # <direction> before <attributes> (both orders occur in exported files)
                els.append(['D', [[q, None] for q in start_marks]])
            if attrs:
                els.append(['A', attrs])
            if m == 0 and rng.random() < 0.2:
                els.append(['O', 'print'])
            if carries_marks and start_marks and not pre_dir:
                els.append(['D', [[q, None] for q in start_marks]])
            beat_len = 4 * div // bt
            mlen = beats * beat_len
            cuts = sorted({b * beat_len for b, _ in here if b} | {mlen})
            cands = rhythm_candidates(div)
            two_voices = len(cuts) == 1 and rng.random() < 0.3
            voices = [(rng.choice([None, 1, 1]), False)] + ([(rng.choice([2, 2, 3, 5]), True)] if two_voices else [])
            for voice, second in voices:
                if second:
                    els.append(['B', mlen])
                    hist.add('two-voices')
                pos = 0
                for cut in cuts:
                    for (d, ty, dots, tup) in fill(rng, cut - pos, div, cands):
                        if tup:
                            hist.add('tuplet')
                        if dots:
                            hist.add('dotted')
                        if t == 0 and rng.random() < 0.15:
                            els.append(gen_harmony(rng, div))
                            hist.add('harmony')
                        k = rng.random()
                        if second and k < 0.15:
                            els.append(['F', d])
                            hist.add('forward')
                        elif k < 0.3:
                            els.append(['N', mknote(k='r', dur=d, voice=voice, type=ty, dots=dots, tup=tup)])
                            hist.add('rest')
                        else:
                            step, alter, octave = gen_pitch(rng)
                            if (step, alter) in (('C', '-1'), ('B', '1'), ('C', '-2'), ('B', '2')):
                                hist.add('pitch:octave-crossing-spelling')
                            extra = [x for x in ('tie', 'stem', 'staff') if rng.random() < 0.1]
                            els.append(['N', mknote(step=step, alter=alter, oct=octave, dur=d, voice=voice, type=ty,
                                                    dots=dots, tup=tup, extra=extra)])
                            if rng.random() < 0.25:
                                for _ in range(rng.choice([1, 1, 2, 3])):
                                    step, alter, octave = gen_pitch(rng)
                                    els.append(['N', mknote(step=step, alter=alter, oct=octave, dur=d, voice=voice, type=ty,
                                                            dots=dots, tup=tup, chord=True)])
                                hist.add('chord')
                    pos = cut
                    if cut != mlen and carries_marks:
                        els.append(['D', [[q, None] for b, q in here if b * beat_len == cut]])
            if rng.random() < 0.1:
                els.append(['O', 'barline'])
            measures.append(els)
        parts.append({'id': pid, 'measures': measures})
    sc = {'title': rng.choice([None, 'T']), 'score_parts': score_parts, 'parts': parts}
    hist.add('parts:%d' % nparts)
    hist.add('meter:/%d' % meters[0][1])
    return sc, hist


# ============================================================================= oracle
# An independent evaluation of the property statement on the abstract score, in exact Fraction arithmetic:
# positions are counted in quarter notes (duration / divisions), the tempo in force at a position is the last
# tempo mark of the score (= of the first part) at or before it, seconds = integral of 60/qpm over position.
class Unjudged(Exception):
    """the score is outside the class the oracle can judge (not a failure)."""


def walk_part(sc, pi):
    """notated content of one part: positions in quarters from the part's start."""
    part = sc['parts'][pi]
    sp = [s for s in sc['score_parts'] if s['id'] == part['id']]
    chan, prog = 0, 0
    if sp and sp[-1].get('chan') is not None and sp[-1].get('prog') is not None:
        chan, prog = sp[-1]['chan'], sp[-1]['prog']
    div, q, t = None, F(0), 0
    meter = None
    ev = {'notes': [], 'harm': [], 'keys': [], 'tsigs': [], 'marks': [], 'moves': [], 'measures': []}
    main = None   # (q, qdur, index in ev['notes'], <duration>, epoch) of the note a following <chord/> note belongs to
    epoch = 0     # counts the changes of divisions / tempo read so far
    for m in part['measures']:
        mstart, v1 = q, F(0)
        for e in m:
            k = e[0]
            if k == 'A':
                keys_here = []
                for a in e[1]:
                    if a[0] == 'd':
                        if a[1] <= 0:
                            raise Unjudged('divisions <= 0')
                        div = a[1]
                        epoch += 1
                    elif a[0] == 'k':
                        if a[1] is None or not -7 <= a[1] <= 7:
                            raise Unjudged('fifths')
                        keys_here.append((q, a[1], a[2]))
                    elif a[0] == 't':
                        if len(a[1]) != 1 or len(a[2]) != 1 or pyint(a[1][0]) is None or pyint(a[2][0]) is None:
                            raise Unjudged('time')
                        meter = (int(a[1][0]), int(a[2][0]))
                        if q != mstart:
                            raise Unjudged('time signature inside a measure')
                        ev['tsigs'].append((q, meter[0], meter[1]))
                    elif a[0] == 'x':
                        t = a[1]
                # the key of a transposing part is written; it sounds `t` semitones away (t = the transposition
                # in force once the whole <attributes> element is read)
                for (kq, f, mode) in keys_here:
                    ev['keys'].append((kq, f, mode, t))
            elif k == 'N':
                n = e[1]
                if n['k'] == 'u' or n.get('dur') is None or div is None:
                    raise Unjudged('unpitched / grace / no divisions')
                voice = 1 if n['voice'] is None else n['voice']
                ty = 'quarter' if n['type'] is None else n['type']
                if ty not in TYPE_RATIO or (n['tup'] is not None and (n['tup'][0] <= 0 or n['tup'][1] <= 0)):
                    raise Unjudged('type / tuplet')
                ratio = TYPE_RATIO[ty] / (F(*n['tup']) if n['tup'] else 1) * (2 - F(1, 2 ** n['dots']))
                head = None
                if n['chord']:
                    if main is None:
                        raise Unjudged('chord without a first note')
                    on, qd, hi, hdur, hepoch = main
                    # (index of the chord's first note, may its end be demanded equal too: same <duration>, and
                    # neither divisions nor tempo changed in between)
                    head = (hi, n['dur'] == hdur and epoch == hepoch)
                else:
                    on, qd = q, F(n['dur'], div)
                    ev['moves'].append((q, qd))
                    q += qd
                    if voice == 1:
                        v1 += qd
                    main = (on, qd, len(ev['notes']), n['dur'], epoch) if n['k'] == 'p' else None
                if n['k'] == 'p':
                    if n['step'] not in STEP_PC or pyint(n['alter'] or '0') is None:
                        raise Unjudged('step / alter')
                    pitch = 12 * (int(n['oct']) + 1) + STEP_PC[n['step']] + int(n['alter'] or '0') + t
                    ev['notes'].append({'part': pi, 'voice': voice, 'pitch': pitch, 'q': on, 'qd': qd, 'chan': chan,
                                        'prog': prog, 'num': ratio.numerator, 'den': ratio.denominator, 'head': head})
            elif k in 'BF':
                if div is None:
                    raise Unjudged('no divisions')
                qd = F(e[1], div)
                ev['moves'].append((q, qd if k == 'F' else -qd))
                q += qd if k == 'F' else -qd
            elif k == 'D':
                for tempo, dyn in e[1]:
                    if dyn is not None:
                        raise Unjudged('dynamics')
                    if tempo is not None:
                        ev['marks'].append((q, float(tempo) if float(tempo) != 0 else 120.0))
                        epoch += 1
            elif k == 'H':
                if t:
                    raise Unjudged('harmony in a transposing part')
                ev['harm'].append(expect_harmony(e[1], q, div))
        if meter is None:
            raise Unjudged('no time signature')
        ev['measures'].append((mstart, v1, meter))
        if v1 != F(meter[0] * 4, meter[1]) or q != mstart + v1:
            raise Unjudged('incomplete measure')
        if div is None or (4 * div) % meter[1]:
            raise Unjudged('a beat is not a whole number of divisions')
    ev['end'] = q
    return ev


def expect_harmony(cs, q, div):
    root = bass = None
    kind, degs, off = '', [], F(0)
    for c in cs:
        if c[0] in 'rb':
            if c[1] is None or (c[2] is not None and c[2] not in ACC):
                raise Unjudged('harmony pitch')
            s = c[1] + ACC[c[2] or 0]
            root, bass = (s, bass) if c[0] == 'r' else (root, s)
        elif c[0] == 'k':
            if c[1] is not None:
                if c[1] not in KIND_ABBREV:
                    raise Unjudged('kind outside the supported table')
                kind = KIND_ABBREV[c[1]]
        elif c[0] == 'g':
            v, a, ty = c[1], c[2], c[3]
            if not isinstance(v, int) or (a is not None and a not in ACC) or ty not in ('add', 'subtract', 'alter'):
                raise Unjudged('degree')
            if ty == 'add':
                degs.append(('add' if not a else '') + ACC[a or 0] + str(v))
            elif ty == 'subtract':
                degs.append('no' + str(v))
            else:
                if not a:
                    raise Unjudged('degree altered by zero')
                degs.append(ACC[a] + str(v))
        elif c[0] == 'o':
            if not isinstance(c[1], int) or div is None:
                raise Unjudged('offset')
            off += F(c[1], div)
    if kind == 'N.C.':
        return (q, off, 'N.C.')
    if root is None:
        raise Unjudged('harmony without root')
    return (q, off, root + kind + ''.join('(%s)' % d for d in degs) + ('/' + bass if bass else ''))


class TempoMap:
    """seconds as a function of the position in quarters: piecewise linear, `initial` qpm before the first mark."""

    def __init__(self, marks, initial=120.0):
        self.initial = F(initial)
        self.marks = []
        for q, qpm in sorted(marks, key=lambda x: x[0]):       # stable: the later mark at one position wins
            if self.marks and self.marks[-1][0] == q:
                self.marks[-1] = (q, F(qpm))
            else:
                self.marks.append((q, F(qpm)))

    def qpm_at(self, q):
        cur = self.initial
        for mq, qpm in self.marks:
            if mq <= q:
                cur = qpm
        return cur

    def sec(self, q):
        t, cur, qpm = F(0), F(0), self.initial
        if q < 0:
            return q * 60 / self.qpm_at(q)
        for mq, mqpm in self.marks:
            if mq <= q:
                if mq > cur:
                    t += (mq - cur) * 60 / qpm
                    cur = mq
                qpm = mqpm
        return t + (q - cur) * 60 / qpm

    def inside(self, a, b):
        """is a mark strictly inside the span between a and b?"""
        lo, hi = min(a, b), max(a, b)
        return any(lo < mq < hi for mq, _ in self.marks)


def close(a, b):
    a, b = F(a), F(b)
    return abs(a - b) <= F(1, 10 ** 9) * max(1, abs(b))


def oracle(sc, ns, err):
    """-> list of (what, finding id or None): every way the real result departs from what the score declares."""
    walks = [walk_part(sc, pi) for pi in range(len(sc['parts']))]
    if not walks:
        raise Unjudged('no parts')
    tm = TempoMap(walks[0]['marks'])
    for pi, w in enumerate(walks):
        for (q, qd) in w['moves']:
            if tm.inside(q, q + qd):
                raise Unjudged('a cursor move crosses a tempo mark')
        if pi and w['marks'] and w['marks'] != walks[0]['marks']:
            raise Unjudged('tempo marks of a later part differ from the first part')
    if err is not None:
        return [('well-formed score rejected with %s' % err, None)]
    # what the open finding F-C05-4 predicts for a later part: timed from its own marks only, starting at the tempo
    # the previous part ended with
    leak, last = [], 120.0
    for w in walks:
        leak.append(TempoMap(w['marks'], initial=last))
        if w['marks']:
            last = w['marks'][-1][1]
    in_class = [pi > 0 and any(tm.qpm_at(q) != leak[pi].qpm_at(q) for (q, _) in walks[pi]['moves'] + [(F(0), 0)])
                for pi in range(len(walks))]
    bad = []

    def judge(pi, what, got, q, dur_q=None):
        """got = observed seconds; expected = position q under the score's tempo map."""
        want = tm.sec(q) if dur_q is None else tm.sec(q) + (tm.sec(q + dur_q) - tm.sec(q))
        if dur_q is None and want < 0:
            want = F(0)
        if close(got, want):
            return
        if in_class[pi]:
            lk = leak[pi].sec(q) if dur_q is None else leak[pi].sec(q) + (leak[pi].sec(q + dur_q) - leak[pi].sec(q))
            if close(got, lk):
                bad.append(('part %d %s: %s s, the tempo in force gives %s s (later part timed at the tempo the '
                            'previous part ended with)' % (pi, what, float(got), float(want)), 'F-C05-4'))
                return
        bad.append(('part %d %s: %s s, expected %s s' % (pi, what, float(got), float(want)), None))

    # ---- notes
    exp, base = [], []
    for w in walks:
        base += [len(exp)] * len(w['notes'])
        exp += w['notes']
    if len(ns.notes) != len(exp):
        bad.append(('%d notes for %d pitched <note> elements' % (len(ns.notes), len(exp)), None))
    else:
        # chords share their first note's onset: the SAME number, not a number close to it (and the same end when
        # the chord note declares the same <duration> under the same divisions and tempo)
        for i, (g, x) in enumerate(zip(ns.notes, exp)):
            if x['head'] is not None:
                h = ns.notes[base[i] + x['head'][0]]
                if g.start_time != h.start_time:
                    bad.append(('note %d is a <chord/> note but starts at %r s, the first note of its chord (note %d) '
                                'starts at %r s: not the same onset' % (i, g.start_time, base[i] + x['head'][0], h.start_time), None))
                elif x['head'][1] and g.end_time != h.end_time:
                    bad.append(('note %d is a <chord/> note of the same duration as the first note of its chord (note %d) '
                                'but ends at %r s, not at %r s' % (i, base[i] + x['head'][0], g.end_time, h.end_time), None))
        for i, (g, x) in enumerate(zip(ns.notes, exp)):
            for f, gv, xv in (('pitch', g.pitch, x['pitch']), ('voice', g.voice, x['voice']), ('part', g.part, x['part']),
                              ('instrument (MIDI channel)', g.instrument, x['chan']), ('program', g.program, x['prog']),
                              ('velocity', g.velocity, 64), ('numerator', g.numerator, x['num']),
                              ('denominator', g.denominator, x['den'])):
                if gv != xv:
                    bad.append(('note %d %s = %d, declared %d' % (i, f, gv, xv), None))
            judge(x['part'], 'note %d onset' % i, F(g.start_time), x['q'])
            n0 = len(bad)
            judge(x['part'], 'note %d end' % i, F(g.end_time), x['q'], x['qd'])
            if len(bad) > n0 and bad[-1][1] is None and x['q'] < 0:
                bad.pop()      # onset clamped at zero: the end is not pinned by the statement
    # ---- tempo marks
    want_t = [(tm.sec(q), qpm) for q, qpm in walks[0]['marks']] or [(F(0), 120.0)]
    got_t = [(F(t.time), t.qpm) for t in ns.tempos]
    if len(got_t) != len(want_t) or any(not close(g[0], w[0]) or g[1] != w[1] for g, w in zip(got_t, want_t)):
        bad.append(('tempos %s, declared %s' % ([(float(a), b) for a, b in got_t], [(float(a), b) for a, b in want_t]), None))

    # ---- sets of timed records: every declared one reported at its time, nothing else reported
    def judge_set(what, got, decl, written=None):
        """got: [(seconds, value)], decl: [(part, q, value)]; written[i] = the declaration decl[i] as the part writes it"""
        used = [False] * len(got)
        # ... each ONCE: a declaration that several parts make identically at one position is one signature of the score.
        # Records equal in time (the same double) and value are judged against the number of DIFFERENT declarations
        # (position, written form) that can account for them.
        written = written or [val for (_, _, val) in decl]
        seen = {}
        for (s, v) in got:
            seen[(s, v)] = seen.get((s, v), 0) + 1
        for (s, v), c in seen.items():
            if c > 1:
                forms = {(q, repr(w)) for (pi, q, val), w in zip(decl, written) if val == v and (
                    close(s, max(tm.sec(q), F(0))) or (in_class[pi] and close(s, max(leak[pi].sec(q), F(0)))))}
                if c > max(1, len(forms)):
                    bad.append(('%s %s reported %d times at %s s (declared there in %d different form(s) by the parts): '
                                'a signature several parts declare alike is one signature of the score'
                                % (what, v, c, float(s), len(forms)), None))
        for (pi, q, val) in decl:
            want = max(tm.sec(q), F(0))
            hit = [i for i, (s, v) in enumerate(got) if v == val and close(s, want)]
            lk = max(leak[pi].sec(q), F(0))
            lhit = [i for i, (s, v) in enumerate(got) if v == val and close(s, lk)] if in_class[pi] and not close(lk, want) else []
            for i in hit + lhit:
                used[i] = True
            if lhit:
                bad.append(('part %d %s %s reported at %s s, occurs at %s s (later part timed at the tempo the previous '
                            'part ended with)' % (pi, what, val, float(lk), float(want)), 'F-C05-4'))
            elif not hit:
                bad.append(('part %d %s %s at %s s not reported' % (pi, what, val, float(want)), None))
        for i, (s, v) in enumerate(got):
            if not used[i]:
                bad.append(('%s %s reported at %s s was not declared there' % (what, v, float(s)), None))

    def tonic(f, mode, t):
        return ((7 * f + t + (9 if mode == 'minor' else 0)) % 12, 1 if mode == 'minor' else 0)
    decl_k = [(pi, q, tonic(f, mode, t)) for pi, w in enumerate(walks) for (q, f, mode, t) in w['keys']]
    written_k = [(f, mode == 'minor', t) for pi, w in enumerate(walks) for (q, f, mode, t) in w['keys']]
    got_k = [(F(k.time), (k.key, k.mode)) for k in ns.key_signatures]
    if decl_k:
        judge_set('key signature (tonic, mode)', got_k, decl_k, written_k)
    elif got_k != [(F(0), (0, 0))]:
        bad.append(('no key declared but %s reported' % got_k, None))
    judge_set('time signature', [(F(t.time), (t.numerator, t.denominator)) for t in ns.time_signatures],
              [(pi, q, (a, b)) for pi, w in enumerate(walks) for (q, a, b) in w['tsigs']])
    # ---- chord symbols, in document order
    decl_h = [(pi, q, off, fig) for pi, w in enumerate(walks) for (q, off, fig) in w['harm']]
    got_h = [a for a in ns.text_annotations]
    if len(got_h) != len(decl_h):
        bad.append(('%d chord symbols for %d <harmony> elements' % (len(got_h), len(decl_h)), None))
    else:
        for i, (g, (pi, q, off, fig)) in enumerate(zip(got_h, decl_h)):
            if g.text != fig or g.annotation_type != 1:
                bad.append(('chord symbol %d is %r, declared %r' % (i, g.text, fig), None))
            if not tm.inside(q, q + off) and not leak[pi].inside(q, q + off):   # an <offset> across a tempo mark is not pinned
                judge(pi, 'chord symbol %d time' % i, F(g.time), q + off)
    # ---- total time: the latest final cursor of the parts
    want_total = max([tm.sec(w['end']) for w in walks] + [F(0)])
    if not close(ns.total_time, want_total):
        lk = max([leak[pi].sec(w['end']) for pi, w in enumerate(walks)] + [F(0)])
        if any(in_class) and close(ns.total_time, lk):
            bad.append(('total_time %s s, the parts end at %s s' % (ns.total_time, float(want_total)), 'F-C05-4'))
        else:
            bad.append(('total_time %s s, the parts end at %s s' % (ns.total_time, float(want_total)), None))
    # ---- header
    if ns.ticks_per_quarter != 220 or len(ns.part_infos) != len(sc['parts']) or ns.source_info.encoding_type != ns.source_info.MUSIC_XML:
        bad.append(('header fields (ticks_per_quarter / part_infos / source_info) wrong', None))
    return bad


# ============================================================================= off-class streams
import copy


def _notes(sc):
    return [(pi, mi, ei) for pi, p in enumerate(sc['parts']) for mi, m in enumerate(p['measures'])
            for ei, e in enumerate(m) if e[0] == 'N']


def _els(sc, kind):
    return [(pi, mi, ei) for pi, p in enumerate(sc['parts']) for mi, m in enumerate(p['measures'])
            for ei, e in enumerate(m) if e[0] == kind]


def perturb(rng, sc):
    """`_perturb`, tolerant of scores an earlier change has already emptied."""
    try:
        return _perturb(rng, sc)
    except (IndexError, ValueError, KeyError):
        return None


def _perturb(rng, sc):
    """one change that takes a valid score out of the quantifier's class but stays inside what the parser accepts or
    rejects on purpose (correspondence only).  Returns the name of the change (None = not applicable)."""
    P = sc['parts']
    if not P or any(not p['measures'] for p in P) or not _els(sc, 'A'):
        return None
    kind = rng.choice(['voice-tags-dropped', 'note-removed', 'pickup', 'overfull', 'no-time-signature', 'grace',
                       'mid-measure-attributes', 'key-change-transposing', 'tempo-later-part-only', 'dynamics',
                       'microtonal-alter', 'chord-duration-mismatch', 'forward-only-measure', 'harmony-shuffled',
                       'duplicate-score-part', 'part-id', 'tempo-zero', 'backup-past-zero', 'fifths-out-of-range',
                       'no-parts', 'empty-measure', 'one-midi-field', 'negative-divisions', 'tuplet-zero',
                       'beat-type-zero', 'divisions-zero', 'no-attributes', 'mode-other', 'second-time-later-measure',
                       'harmony-offset-negative', 'chord-after-rest', 'big-alter', 'transpose-before-key',
                       'two-keys', 'direction-multi-sound'])
    notes = _notes(sc)
    if kind == 'voice-tags-dropped':
        for (pi, mi, ei) in notes:
            P[pi]['measures'][mi][ei][1]['voice'] = None
    elif kind in ('note-removed', 'pickup'):
        cand = [x for x in notes if not P[x[0]]['measures'][x[1]][x[2]][1]['chord'] and (kind == 'note-removed' or x[1] == 0)]
        if not cand:
            return None
        pi, mi, ei = rng.choice(cand)
        m = P[pi]['measures'][mi]
        del m[ei]
        while ei < len(m) and m[ei][0] == 'N' and m[ei][1]['chord']:
            del m[ei]
    elif kind == 'overfull':
        if not notes:
            return None
        pi, mi, ei = rng.choice(notes)
        P[pi]['measures'][mi].insert(ei, ['N', mknote(dur=rng.choice([1, 2, 3]), type='quarter')])
    elif kind in ('no-time-signature', 'no-attributes'):
        for p in P:
            for m in p['measures']:
                for e in m:
                    if e[0] == 'A':
                        e[1][:] = [a for a in e[1] if a[0] != 't' and (kind == 'no-time-signature' or a[0] == 'd')]
    elif kind == 'grace':
        if not notes:
            return None
        for (pi, mi, ei) in rng.sample(notes, min(len(notes), 2)):
            n = P[pi]['measures'][mi][ei][1]
            n['dur'] = None
    elif kind == 'mid-measure-attributes':
        if not notes:
            return None
        pi, mi, ei = rng.choice(notes)
        P[pi]['measures'][mi].insert(ei, ['A', [rng.choice([['d', rng.choice([1, 2, 3, 4, 7])], ['k', rng.randint(-7, 7), 'minor'],
                                                            ['x', rng.choice([0, 2, -3])]])]])
    elif kind == 'key-change-transposing':
        pi = rng.randrange(len(P))
        ms = P[pi]['measures']
        ms[0].insert(0, ['A', [['x', rng.choice([-2, 3, -9])]]])
        ms[-1].insert(0, ['A', [['k', rng.randint(-7, 7), rng.choice(['major', 'minor'])]]])
        for m in ms:
            m[:] = [e for e in m if e[0] != 'H']
    elif kind == 'tempo-later-part-only':
        pi = len(P) - 1
        m = rng.choice(P[pi]['measures'])
        m.insert(rng.randrange(len(m) + 1), ['D', [[rng.choice(QPM_TEXTS), None]]])
    elif kind == 'dynamics':
        for (pi, mi, ei) in _els(sc, 'D'):
            for s in P[pi]['measures'][mi][ei][1]:
                s[1] = rng.choice([None, 30, 90, 127])
        m = rng.choice(rng.choice(P)['measures'])
        m.insert(rng.randrange(len(m) + 1), ['D', [[None, rng.choice([20, 100])]]])
    elif kind in ('microtonal-alter', 'big-alter'):
        for (pi, mi, ei) in notes:
            n = P[pi]['measures'][mi][ei][1]
            if n['k'] == 'p' and rng.random() < 0.5:
                n['alter'] = rng.choice(['0.5', '-0.5', '1.5', '-1.5', '0.25', '-2.75'] if kind == 'microtonal-alter' else ['3', '-3', '12', '-13', '7'])
    elif kind == 'chord-duration-mismatch':
        cand = [x for x in notes if P[x[0]]['measures'][x[1]][x[2]][1]['chord']]
        if not cand:
            return None
        for (pi, mi, ei) in cand:
            P[pi]['measures'][mi][ei][1]['dur'] = rng.choice([1, 2, 5, 7])
    elif kind == 'forward-only-measure':
        p = rng.choice(P)
        mi = rng.randrange(len(p['measures']))
        keep = [e for e in p['measures'][mi] if e[0] in 'ADHO']
        keep.insert(rng.randrange(len(keep) + 1), ['F', rng.choice([1, 2, 4, 8, 12])])
        if rng.random() < 0.3:
            keep.append(['F', 1])      # two forwards: not repaired
        p['measures'][mi] = keep
    elif kind == 'harmony-shuffled':
        hs = _els(sc, 'H')
        if not hs:
            return None
        for (pi, mi, ei) in hs:
            cs = P[pi]['measures'][mi][ei][1]
            if rng.random() < 0.5:
                cs.append(rng.choice([['r', 'F', 1], ['k', 'minor'], ['k', None], ['b', 'C', None]]))
            rng.shuffle(cs)
    elif kind == 'duplicate-score-part':
        sp = dict(rng.choice(sc['score_parts']))
        sp['chan'], sp['prog'] = rng.choice([(5, 6), (None, None)])
        sc['score_parts'].insert(rng.randrange(len(sc['score_parts']) + 1), sp)
    elif kind == 'part-id':
        rng.choice(P)['id'] = rng.choice([None, 'nope', ''])
        if rng.random() < 0.3:
            sc['score_parts'].append({'id': '', 'name': 'x', 'chan': 9, 'prog': 10})
    elif kind == 'tempo-zero':
        m = P[0]['measures'][0]
        m.insert(rng.randrange(len(m) + 1), ['D', [['0', None]]])
    elif kind == 'backup-past-zero':
        m = P[rng.randrange(len(P))]['measures'][0]
        m.insert(rng.randrange(1, len(m) + 1), ['B', rng.choice([1, 50, 5000])])
    elif kind == 'fifths-out-of-range':
        for (pi, mi, ei) in _els(sc, 'A'):
            for a in P[pi]['measures'][mi][ei][1]:
                if a[0] == 'k':
                    a[1] = rng.choice([8, -8, 9, -9, 12, -22, -23, 7, -7, 10])
    elif kind == 'no-parts':
        sc['parts'] = [] if rng.random() < 0.5 else [{'id': 'P1', 'measures': []}]
    elif kind == 'empty-measure':
        p = rng.choice(P)
        p['measures'].insert(rng.randrange(len(p['measures']) + 1), [])
    elif kind == 'one-midi-field':
        sp = rng.choice(sc['score_parts'])
        sp['chan'], sp['prog'] = rng.choice([(3, None), (None, 7)])
    elif kind == 'negative-divisions':
        for (pi, mi, ei) in _els(sc, 'A'):
            for a in P[pi]['measures'][mi][ei][1]:
                if a[0] == 'd':
                    a[1] = -a[1]
    elif kind == 'tuplet-zero':
        if not notes:
            return None
        pi, mi, ei = rng.choice(notes)
        P[pi]['measures'][mi][ei][1]['tup'] = rng.choice([[0, 2], [3, 0], [0, 0], [-3, 2], [3, -2]])
    elif kind == 'beat-type-zero':
        for (pi, mi, ei) in _els(sc, 'A'):
            for a in P[pi]['measures'][mi][ei][1]:
                if a[0] == 't':
                    a[2] = [rng.choice([0, -4])]
    elif kind == 'divisions-zero':
        cand = _els(sc, 'A')
        pi, mi, ei = rng.choice(cand)
        for a in P[pi]['measures'][mi][ei][1]:
            if a[0] == 'd':
                a[1] = 0
    elif kind == 'mode-other':
        for (pi, mi, ei) in _els(sc, 'A'):
            for a in P[pi]['measures'][mi][ei][1]:
                if a[0] == 'k':
                    a[2] = rng.choice(['dorian', 'Minor', 'minor ', '', 'none'])
    elif kind == 'second-time-later-measure':
        p = rng.choice(P)
        p['measures'][-1].insert(0, ['A', [['t', [rng.choice([2, 3, 5])], [rng.choice([4, 8])]]]])
    elif kind == 'harmony-offset-negative':
        hs = _els(sc, 'H')
        if not hs:
            return None
        pi, mi, ei = rng.choice(hs)
        P[pi]['measures'][mi][ei][1].append(['o', rng.choice([-1, -7, 1000, 3])])
    elif kind == 'chord-after-rest':
        cand = [x for x in notes if P[x[0]]['measures'][x[1]][x[2]][1]['k'] == 'r']
        if not cand:
            return None
        pi, mi, ei = rng.choice(cand)
        P[pi]['measures'][mi].insert(ei + 1, ['N', mknote(dur=1, chord=True)])
    elif kind == 'transpose-before-key':
        for (pi, mi, ei) in _els(sc, 'A'):
            a = P[pi]['measures'][mi][ei][1]
            a.sort(key=lambda c: 0 if c[0] == 'x' else 1)
        P[-1]['measures'][0].insert(0, ['A', [['x', 4]]])
        for p in P:
            for m in p['measures']:
                m[:] = [e for e in m if e[0] != 'H']
    elif kind == 'two-keys':
        pi, mi, ei = rng.choice(_els(sc, 'A'))
        P[pi]['measures'][mi][ei][1].append(['k', rng.randint(-7, 7), rng.choice(['minor', None])])
        if rng.random() < 0.5:
            P[pi]['measures'][mi][ei][1].append(['x', rng.choice([1, -1, 6])])
            for m in P[pi]['measures']:
                m[:] = [e for e in m if e[0] != 'H']
    elif kind == 'direction-multi-sound':
        m = rng.choice(rng.choice(P)['measures'])
        m.insert(rng.randrange(len(m) + 1), ['D', [[rng.choice(QPM_TEXTS + [None]), rng.choice([None, 50])] for _ in range(rng.choice([0, 2, 3]))]])
    return kind


MALFORMED = {   # change -> the exception class the parser documents for it
    'unpitched': 'UnpitchedNoteError', 'bad-step': 'PitchStepParseError', 'unknown-kind': 'ChordSymbolParseError',
    'harmony-no-root': 'ChordSymbolParseError', 'degree-alter-zero': 'ChordSymbolParseError',
    'degree-no-value': 'ChordSymbolParseError', 'degree-no-type': 'ChordSymbolParseError',
    'degree-bad-type': 'ChordSymbolParseError', 'harmony-alter-3': 'ChordSymbolParseError',
    'harmony-alter-text': 'ChordSymbolParseError', 'offset-text': 'ChordSymbolParseError',
    'harmony-no-step': 'ChordSymbolParseError', 'harmony-transposed': 'ChordSymbolParseError',
    'two-times': 'MultipleTimeSignatureError', 'alternating-time': 'AlternatingTimeSignatureError',
    'composite-time': 'TimeSignatureParseError', 'key-no-fifths': 'KeyParseError',
    'bad-type': 'InvalidNoteDurationTypeError', 'chord-first': 'AttributeError'}


def malform(rng, sc):
    """inject one defect the parser rejects on purpose; returns (name, expected exception) or None."""
    P = sc['parts']
    kind = rng.choice(list(MALFORMED))
    notes = _notes(sc)
    pitched = [x for x in notes if P[x[0]]['measures'][x[1]][x[2]][1]['k'] == 'p']

    def some_harmony(cs, transposed=False):
        cand = [(pi, mi) for pi, p in enumerate(P) for mi, m in enumerate(p['measures'])
                if transposed == any(a[0] == 'x' and a[1] for e in p['measures'][0] if e[0] == 'A' for a in e[1])]
        if not cand:
            return False
        pi, mi = rng.choice(cand)
        m = P[pi]['measures'][mi]
        first = 1 if (m and m[0][0] == 'A') or mi == 0 else 0
        first = max([i + 1 for i, e in enumerate(m) if e[0] == 'A'] + [0])
        m.insert(rng.randrange(first, len(m) + 1), ['H', cs])
        return True
    if kind == 'unpitched':
        if not pitched:
            return None
        pi, mi, ei = rng.choice(pitched)
        P[pi]['measures'][mi][ei][1]['k'] = 'u'
    elif kind == 'bad-step':
        if not pitched:
            return None
        pi, mi, ei = rng.choice(pitched)
        P[pi]['measures'][mi][ei][1]['step'] = rng.choice(['H', 'c', 'Q', 'do', 'Cb'])
    elif kind == 'bad-type':
        if not notes:
            return None
        pi, mi, ei = rng.choice(notes)
        P[pi]['measures'][mi][ei][1]['type'] = rng.choice(['crotchet', 'Quarter', '8th', ''])
        if P[pi]['measures'][mi][ei][1]['type'] == '':
            return None    # an empty <type/> has text None, which is not in the table either, but render differs
    elif kind == 'chord-first':
        first = [x for x in notes if x[0] == 0]
        if not first:
            return None
        pi, mi, ei = first[0]
        P[pi]['measures'][mi][ei][1]['chord'] = True
    elif kind in ('two-times', 'alternating-time', 'composite-time', 'key-no-fifths'):
        pi, mi, ei = rng.choice(_els(sc, 'A'))
        a = P[pi]['measures'][mi][ei][1]
        if kind == 'two-times':
            if not any(c[0] == 't' for c in a):
                a.append(['t', [4], [4]])
            if rng.random() < 0.5:
                a.append(['t', [3], [4]])
            else:
                P[pi]['measures'][mi].append(['A', [['t', [3], [4]]]])
        elif kind == 'alternating-time':
            a[:] = [c for c in a if c[0] != 't'] + [rng.choice([['t', [2, 3], [4, 8]], ['t', [3, 2], [8]], ['t', [3], [4, 4]]])]
        elif kind == 'composite-time':
            a[:] = [c for c in a if c[0] != 't'] + [rng.choice([['t', ['3+2'], [8]], ['t', [4], ['x']], ['t', ['2.5'], [4]]])]
        else:
            a.append(['k', None, rng.choice(['major', None])])
    else:
        ok = {'unknown-kind': [['r', 'C', None], ['k', rng.choice(['weird', 'Major', 'major seventh', 'other'])]],
              'harmony-no-root': [['k', rng.choice(['major', 'minor', None])], ['b', 'C', None]],
              'degree-alter-zero': [['r', 'D', None], ['k', 'major'], ['g', 5, rng.choice([None, 0]), 'alter']],
              'degree-no-value': [['r', 'D', None], ['k', 'major'], ['g', rng.choice([None, '', 'x', '9.5']), 1, 'add']],
              'degree-no-type': [['r', 'D', None], ['k', 'major'], ['g', 9, 1, None]],
              'degree-bad-type': [['r', 'D', None], ['k', 'major'], ['g', 9, 1, rng.choice(['Add', 'remove', ''])]],
              'harmony-alter-3': [['r', 'D', rng.choice([3, -3, 7])], ['k', 'major']],
              'harmony-alter-text': [['r', 'D', rng.choice(['x', '0.5', '1.0'])], ['k', 'major']],
              'offset-text': [['r', 'D', None], ['k', 'major'], ['o', rng.choice(['x', '1.5'])]],
              'harmony-no-step': [rng.choice([['r', None, 1], ['r', 'C', None]]), ['k', 'major'], ['b', None, None]],
              'harmony-transposed': [['r', 'C', None], ['k', 'major']]}[kind]
        if kind == 'degree-bad-type' and ok[2][3] == '':
            ok[2][3] = 'x'
        if not some_harmony(ok, transposed=(kind == 'harmony-transposed')):
            return None
    return kind, MALFORMED[kind]


# ============================================================================= run / replay
MIME = 'application/vnd.recordare.musicxml+xml'


def one_note_score(attrs, note=None, parts=1):
    return {'title': None, 'score_parts': [{'id': 'P%d' % (i + 1), 'name': 'p', 'chan': None, 'prog': None} for i in range(parts)],
            'parts': [{'id': 'P%d' % (i + 1), 'measures': [[['A', attrs], ['N', note or mknote(dur=4, type='whole')]]]}
                      for i in range(parts)]}


def judge_case(chk, im, sc, stream, mxl=False, report=True):
    """run the real code on the rendered score, apply the oracle; returns (result line, list of failures)."""
    ns, err = im.run(sc, mxl=mxl)
    line = result_line(ns, err)
    try:
        bad = oracle(sc, ns, err)
    except Unjudged as u:
        chk.count('oracle', None, False, 'unjudged: %s' % u)
        return line, None
    chk.count('oracle', None, False,
              'holds' if not bad else 'known finding F-C05-4' if all(f for _, f in bad) else 'FAILS')
    if report:
        seen = set()
        for what, finding in bad:
            if finding in seen:
                continue
            seen.add(finding)
            rep = {'score': sc, 'mxl': mxl, 'stream': stream}
            if finding is None and im.prev is not None:
                rep['prev_on_path'] = im.prev      # the score this path held before it was rewritten with `sc`
            chk.fail(what, rep, finding=finding)
    return line, bad


# ----------------------------------------------------------------------------- conversions in one process over few paths
def same_size_variant(sc):
    """a score whose rendering has exactly the size of `sc`'s but other content: the first pitched note moves to the
    next step letter (None when there is no pitched note)"""
    v = copy.deepcopy(sc)
    for p in v['parts']:
        for m in p['measures']:
            for e in m:
                if e[0] == 'N' and e[1]['k'] == 'p' and e[1]['step'] in 'CDEFGAB' and len(e[1]['step']) == 1:
                    e[1]['step'] = 'CDEFGAB'[('CDEFGAB'.index(e[1]['step']) + 1) % 7]
                    return v
    return None


def clean_score(rng, im, tries=20):
    """a valid score on which the oracle holds without any finding, with its result line from a path used once"""
    for _ in range(tries):
        sc, _ = gen_valid(rng, {'nparts': rng.choice([1, 1, 2]), 'nmeas': rng.randint(1, 3)})
        ns, err = im.run(sc, unique=True)
        try:
            if oracle(sc, ns, err) == []:
                return sc
        except Unjudged:
            pass
    return None


def gen_file_history(rng, im):
    """{'kind': 'file-history', 'scores': [sc…], 'steps': [[action, slot, mxl, score index]…]}; actions: 'w' write score
    to the path and convert, 'c' convert the path again as it is, 'm' convert, modify the returned NoteSequence in
    place, convert again, 'z' rewrite with a same-size variant keeping the modification time, then convert"""
    scores = []
    for _ in range(rng.choice([2, 3])):
        sc = clean_score(rng, im)
        if sc is None:
            return None
        scores.append(sc)
        v = same_size_variant(sc)
        if v is not None and len(render_xml(v)) == len(render_xml(sc)):
            scores.append(v)
    slots = [(0, False), (1, False), (0, True)] if rng.random() < 0.6 else [(0, False), (0, True)]
    steps, held = [], {}
    for _ in range(rng.choice([6, 8, 10])):
        sl = rng.choice(slots)
        k = rng.random()
        if sl not in held or k < 0.45:
            j = rng.randrange(len(scores))
            if sl in held and rng.random() < 0.7:
                j = rng.choice([i for i in range(len(scores)) if i != held[sl]] or [j])
            if sl in held and not sl[1] and rng.random() < 0.5:
                twins = [i for i in range(len(scores)) if i != held[sl] and len(render_xml(scores[i])) == len(render_xml(scores[held[sl]]))]
                if twins:
                    j = rng.choice(twins)
            act = 'w'
            # same size, same mtime: only .xml (a zip's size depends on its content)
            if sl in held and not sl[1] and j != held[sl] and len(render_xml(scores[j])) == len(render_xml(scores[held[sl]])):
                act = 'z'
            held[sl] = j
        else:
            j, act = held[sl], rng.choice(['c', 'c', 'm'])
        steps.append([act, sl[0], sl[1], j])
    return {'kind': 'file-history', 'scores': scores, 'steps': steps}


def run_file_history(im, h, count=None):
    """-> (failing step number, text) or None.  Reference per score: the conversion of the same rendering from a path
    that is used exactly once."""
    count = count or (lambda key: None)
    ref = {}
    im.n += 1
    tag = im.n          # paths of this history have not been used before in this process

    def reference(j):
        if j not in ref:
            ref[j] = result_line(*im.run(h['scores'][j], unique=True))
        return ref[j]
    for k, (act, slot, mxl, j) in enumerate(h['steps']):
        p = os.path.join(im.dir, 'h%d_%d' % (tag, slot) + ('.mxl' if mxl else '.xml'))
        what = {'w': 'path rewritten with another score', 'c': 'same file converted again',
                'm': 'same file converted again after the first result was modified in place',
                'z': 'path rewritten with a score of the same size, modification time kept'}[act]
        if act in 'wz':
            st = os.stat(p) if act == 'z' and os.path.exists(p) else None
            im.write(render_xml(h['scores'][j]), mxl=mxl, path=p)
            if st is not None:
                os.utime(p, ns=(st.st_atime_ns, st.st_mtime_ns))
        if act == 'm':
            ns, err = im.convert(p)
            if ns is not None:
                del ns.notes[:]
                del ns.key_signatures[:]
                if ns.tempos:
                    ns.tempos[0].qpm = 1.0
                ns.total_time = 12345.0
        got = result_line(*im.convert(p))
        count('%s (%s)' % (what, '.mxl' if mxl else '.xml'))
        if got != reference(j):
            return k + 1, ('step %d of %d conversions in one process (%s, %s): the result is not the one the file\'s content '
                           'gives when converted from a path used once: got %s, want %s' % (
                               k + 1, len(h['steps']), what, os.path.basename(p), got[:160], reference(j)[:160]))
    for f in os.listdir(im.dir):
        if f.startswith('h'):
            os.unlink(os.path.join(im.dir, f))
    return None


def class_tables(mp):
    return {'NoteDuration.TYPE_RATIO_MAP': repr(sorted(mp.NoteDuration.TYPE_RATIO_MAP.items())),
            'ChordSymbol.CHORD_KIND_ABBREVIATIONS': repr(sorted(mp.ChordSymbol.CHORD_KIND_ABBREVIATIONS.items())),
            'module constants': repr((mp.DEFAULT_MIDI_PROGRAM, mp.DEFAULT_MIDI_CHANNEL, mp.MUSICXML_MIME_TYPE)),
            'MusicXMLParserState()': repr(sorted(vars(mp.MusicXMLParserState()).items(), key=lambda kv: kv[0])),
            # class-level containers (shared by all instances): a list / dict that accumulates across documents shows here
            'class-level containers': repr(sorted((c, k, repr(v)[:4000]) for c, cls in vars(mp).items() if isinstance(cls, type)
                                                  for k, v in vars(cls).items()
                                                  if isinstance(v, (list, dict, set)) and not k.startswith('__')))}


def run(chk):
    from note_seq import musicxml_parser as mp
    from harness.common import corpus_cases
    generate(chk)
    chk.prove(MODULES, THEOREMS, [EXE], extra_trusted=[
        'rne53 as a model of IEEE-754 binary64 arithmetic (validated bit-exactly by every request of this run)',
        'xml.etree.ElementTree, zipfile, int()/float() text conversion: MODELLED, NOT VERIFIED - the harness renders each '
        'abstract score to MusicXML text / a compressed .mxl for the real parser and to wire tokens for the model',
        'Python fractions.Fraction normal form = core Lean Rat normal form'])
    chk.prove_bridge([BRIDGE], [(BRIDGE, t) for t in BRIDGE_THEOREMS])
    chk.rule = ('abstract scores of the quantifier (1-3 parts, 1-6 complete measures, divisions {1..16,24,96,480,960} with '
                'whole-beat constraint, meters n/4 n/8 n/2 with changes, fifths -7..7 x mode major/minor/absent with key changes per part or '
                'shared by all non-transposing parts (incl. the way back to the first key), tempo marks at '
                'measure starts and inside measures in the first part / all parts, transposing parts, two voices joined by '
                'backup, forward, chords, rests, dots, tuplets, harmony from the kind table with degrees/bass/offset) rendered to '
                '.xml and .mxl, always onto a pool of three paths per extension that are rewritten in place; off-class and '
                'malformed scores for the correspondence only; file-history: 6-10 conversions in one process over 2-3 paths '
                '(rewrite with another score, rewrite with a same-size score keeping the mtime, convert again, convert again after '
                'modifying the returned sequence in place), each compared with the conversion of the same content from a path '
                'used once; non-trivial = distinct score whose model result is a sequence or a documented exception')
    im = Impl()
    try:
        _run(chk, im, mp, corpus_cases(PID))
    finally:
        im.close()


def _run(chk, im, mp, corpus):
    reqs, impl, meta = [], [], []
    tables0 = class_tables(mp)

    def add(stream, req, res, hist, key=None):
        reqs.append(req)
        impl.append(res)
        meta.append((stream, sorted(hist) if not isinstance(hist, str) else [hist], key))

    # ---- corpus (former defects, the open finding) : correspondence + oracle
    for name, obj in corpus:
        if 'score' not in obj:
            continue
        sc = obj['score']
        line, bad = judge_case(chk, im, sc, 'corpus:' + name, mxl=obj.get('mxl', False))
        add('corpus', 'conv ' + encode_score(sc), line, 'corpus:' + name)
    # ---- forced coincidences, end to end
    rng = chk.subrng('grid')
    grid = []
    for f in range(-7, 8):
        for mode in ('major', 'minor', None):
            ts = range(-24, 25) if chk.thorough else sorted({0, -2, 3} | set(rng.sample(range(-24, 25), 4)))
            for t in ts:
                grid.append(one_note_score([['d', 1], ['k', f, mode], ['t', [4], [4]]] + ([['x', t]] if t else [])))
    for step in 'CDEFGAB':
        for alter in (None, '-2', '-1', '0', '1', '2'):
            octs = range(0, 10) if chk.thorough else sorted({3, 4} | set(rng.sample(range(0, 10), 2)))
            for o in octs:
                t = rng.choice([0, 0, rng.randint(-24, 24)])
                grid.append(one_note_score([['d', 1], ['t', [4], [4]]] + ([['x', t]] if t else []),
                                           mknote(step=step, alter=alter, oct=o, dur=4, type='whole')))
    for sc in grid:
        line, _ = judge_case(chk, im, sc, 'grid')
        add('grid', 'conv ' + encode_score(sc), line, 'key x mode x transposition / step x alter x octave')
    # ---- the quantifier's class: correspondence + oracle; every k-th case also as .mxl
    rng = chk.subrng('valid')
    nvalid = chk.n(2500, 40000)
    for i in range(nvalid):
        force = None
        if i % 10 == 0:   # the F-C05-4 neighbourhood: several parts with tempo marks
            force = {'nparts': rng.choice([2, 3]), 'tempo': rng.choice(['p0', 'all']), 'nmeas': rng.randint(2, 6)}
        sc, hist = gen_valid(rng, force)
        line, bad = judge_case(chk, im, sc, 'valid')
        if i % chk.n(5, 20) == 0:
            ns2, err2 = im.run(sc, mxl=True)
            line2 = result_line(ns2, err2)
            chk.count('xml-vs-mxl', None, False, 'same' if line == line2 else 'DIFFERENT')
            if line != line2:
                chk.fail('the .xml and the .mxl rendering of one score give different results',
                         {'score': sc, 'mxl': True, 'stream': 'valid', 'compare_xml_mxl': True})
        add('valid', 'conv ' + encode_score(sc), line, hist | {'result:' + ' '.join(line.split()[:2]) if line.startswith('err') else 'result:ok'})
        if i < 2:
            chk.sample({'stream': 'valid', 'xml': render_xml(sc)[:700] + ' …', 'impl': line[:300] + ' …',
                        'oracle': 'holds' if bad == [] else str(bad)[:200]})
    # ---- off-class scores (correspondence only)
    rng = chk.subrng('extras')
    for i in range(chk.n(1500, 25000)):
        sc, hist = gen_valid(rng)
        names = []
        for _ in range(rng.choice([1, 1, 1, 2, 3])):
            k = perturb(rng, sc)
            if k:
                names.append(k)
        ns, err = im.run(sc)
        line = result_line(ns, err)
        add('off-class', 'conv ' + encode_score(sc), line,
            set(names) | {'result:' + (line.split()[1] if line.startswith('err') else 'ok')})
    # ---- malformed scores: documented exception classes
    rng = chk.subrng('malformed')
    for i in range(chk.n(600, 8000)):
        sc, hist = gen_valid(rng)
        r = malform(rng, sc)
        if r is None:
            continue
        ns, err = im.run(sc)
        line = result_line(ns, err)
        add('malformed', 'conv ' + encode_score(sc), line, [r[0], 'result:' + (line.split()[1] if line.startswith('err') else 'ok')])
        want = 'raw:' + r[1] if r[1] == 'AttributeError' else r[1]
        chk.count('malformed-class', None, False, 'documented exception raised' if err == want else 'OTHER: %s -> %s' % (r[0], err))
        if err != want:
            chk.fail('malformed score (%s): expected %s, got %s' % (r[0], want, err or 'a sequence'),
                     {'score': sc, 'mxl': False, 'stream': 'malformed', 'expect_error': want})
    # ---- duration_ratio over the whole type table x dots x tuplets
    for ty in mp.NoteDuration.TYPE_RATIO_MAP:
        for dots in range(0, 5):
            for (a, b) in [(1, 1), (3, 2), (5, 4), (2, 3), (7, 8), (6, 4), (-3, 2), (4, 6)]:
                nd = mp.NoteDuration(mp.MusicXMLParserState())
                nd.type, nd.dots, nd.tuplet_ratio, nd.is_grace_note = ty, dots, F(a, b), False
                r = nd.duration_ratio()
                add('duration_ratio', 'ratio %s %d %d %d' % (hx(ty), dots, a, b), 'ok %d %d' % (r.numerator, r.denominator),
                    'type x dots x tuplet')
    # ---- pitch_to_midi_pitch on the grid (+ microtonal, unknown steps)
    for step in list('CDEFGAB') + ['H', 'c', '']:
        for alter in (-2.0, -1.0, 0.0, 1.0, 2.0, 0.5, -0.5, 1.5, -1.5, 3.0):
            for o in range(0, 10):
                try:
                    res = 'ok %d' % mp.Note.pitch_to_midi_pitch(step, alter, str(o))
                except mp.PitchStepParseError:
                    res = 'err PitchStepParseError'
                add('pitch_to_midi_pitch', 'pitch %s %s %d' % (hx(step), rat(alter), o), res, 'step x alter x octave')
    # ---- .mxl containers: root-file choice
    rng = chk.subrng('container')
    sc0 = one_note_score([['d', 1], ['t', [4], [4]]])
    xml0 = render_xml(sc0)
    want0 = result_line(*im.run(sc0))
    for i in range(chk.n(60, 600)):
        rf = []
        for _ in range(rng.choice([0, 1, 1, 1, 2, 2, 3])):
            rf.append((rng.choice([MIME, MIME, None, 'application/pdf', 'text/plain']), rng.choice(['score.xml', 'a/b.xml', 'missing.xml', 'x.pdf'])))
        files = rng.choice([['score.xml'], ['score.xml', 'a/b.xml'], ['a/b.xml'], ['score.xml', 'x.pdf']])
        cont = ('<?xml version="1.0"?><container><rootfiles>'
                + ''.join('<rootfile full-path="%s"%s/>' % (pth, ' media-type="%s"' % mt if mt else '') for mt, pth in rf)
                + '</rootfiles></container>')
        if rng.random() < 0.08:
            cont = ''          # no META-INF/container.xml
            rf = []
        p = os.path.join(im.dir, 'c%d.mxl' % i)
        with zipfile.ZipFile(p, 'w') as z:
            if cont:
                z.writestr('META-INF/container.xml', cont)
            for f in files:
                z.writestr(f, xml0 if f.endswith('.xml') else 'junk')
        ns, err = im.convert(p)
        got = 'ok' if (err is None and result_line(ns, err) == want0) else 'err %s' % err if err else 'ok-but-different'
        add('mxl-container', 'root %s %d %s' % (hx(MIME), len(rf), ' '.join('%s %s' % (opt(mt, hx), hx(pth)) for mt, pth in rf)),
            got, 'rootfiles:%d' % len(rf), key=('container', files))
    # bad zip
    p = os.path.join(im.dir, 'bad.mxl')
    with open(p, 'wb') as f:
        f.write(b'this is not a zip archive')
    _, err = im.convert(p)
    chk.count('mxl-container', 'badzip', True, 'bad zip -> %s' % err)
    if err != 'MusicXMLParseError':
        chk.fail('a corrupt .mxl archive raised %s instead of MusicXMLConversionError' % err, {'container': 'bad-zip'})

    # ---- conversions in one process over two or three paths (oracle only: the model is a function of the content)
    rng = chk.subrng('file-history')
    hists = [obj for _, obj in corpus if obj.get('kind') == 'file-history']
    for _ in range(chk.n(60, 800)):
        h = gen_file_history(rng, im)
        if h is not None:
            hists.append(h)
    nfail = 0
    for h in hists:
        r = run_file_history(im, h, lambda key: chk.count('file-history', None, False, key)) if nfail < 3 else None
        chk.stream('file-history')['nontrivial'].add(repr(h['steps']) + render_xml(h['scores'][0])[:3000])
        if r:
            nfail += 1
            chk.fail(r[1], {'kind': 'file-history', 'scores': h['scores'], 'steps': h['steps'][:r[0]]})
            chk.failures.insert(nfail - 1, chk.failures.pop())      # self-contained (the whole sequence of conversions): reported first
    # class-level tables of the parser: what they were when the run started
    now = class_tables(mp)
    for k in tables0:
        chk.count('class-tables', k, True, 'unchanged' if tables0[k] == now[k] else 'CHANGED: ' + k)
        if tables0[k] != now[k]:
            chk.broken.append('state: %s of musicxml_parser is not what it was before the conversions of this run' % k)

    # ---- the model on the same requests
    model = chk.driver(EXE, reqs)
    for req, a, b, (stream, hist, key) in zip(reqs, impl, model, meta):
        if key and key[0] == 'container':
            # the model chooses the root file; it must exist in the archive and hold the score
            if b.startswith('ok '):
                chosen = nswire.unhx(b.split()[1])
                b = 'ok' if chosen in key[1] and chosen.endswith('.xml') else 'err MusicXMLParseError'
                if chosen in key[1] and not chosen.endswith('.xml'):
                    b = a    # the chosen member is not XML: xml.etree's verdict is not modelled
        chk.count(stream, req[:3000], b != 'bad-op', hist)
        if a != b:
            chk.disagree(stream, {'request': req[:6000]}, a[:800], b[:800])
    chk.sample({'stream': 'malformed / off-class', 'requests': len(reqs), 'last': reqs[-1][:120], 'impl': impl[-1], 'model': model[-1]})


def replay(chk, obj):
    """re-run one replay input against the real code with the oracle; 1 = the property fails on it."""
    if obj.get('kind') == 'file-history':
        im = Impl()
        try:
            print('replay C05: %d conversions in one process over paths %s' % (
                len(obj['steps']), sorted({'h%d%s' % (s_[1], '.mxl' if s_[2] else '.xml') for s_ in obj['steps']})))
            r = run_file_history(im, obj, lambda key: print('  ', key))
            print('PROPERTY FAILS: ' + r[1] if r else 'property holds on this input')
            return 1 if r else 0
        finally:
            im.close()
    if 'score' not in obj:
        print('replay C05: not a score replay (%s)' % list(obj))
        return 0
    sc = obj['score']
    im = Impl()
    try:
        if obj.get('prev_on_path') is not None:
            # the path held another score before: convert that one first, then rewrite the SAME path with this score
            im.run(obj['prev_on_path'], mxl=obj.get('mxl', False), slot=0)
            print('replay C05: the path first held another score (converted), then was rewritten with this one')
        ns, err = im.run(sc, mxl=obj.get('mxl', False), slot=0)
        print('replay C05: %d part(s), as %s -> %s' % (len(sc['parts']), '.mxl' if obj.get('mxl') else '.xml',
                                                        ('exception ' + err) if err else '%d notes' % len(ns.notes)))
        if obj.get('expect_error'):
            ok = err == obj['expect_error']
            print('property holds on this input' if ok else 'PROPERTY FAILS: expected %s, got %s' % (obj['expect_error'], err))
            return 0 if ok else 1
        if obj.get('compare_xml_mxl'):
            a, b = result_line(*im.run(sc)), result_line(*im.run(sc, mxl=True))
            if a != b:
                print('PROPERTY FAILS: .xml and .mxl renderings give different results')
                return 1
        try:
            bad = oracle(sc, ns, err)
        except Unjudged as u:
            print('outside the judged class (%s): nothing to check' % u)
            return 0
        open_ids = {e['id'] for e in chk.known if e.get('status') == 'open'}
        for w, f in bad[:8]:
            print('PROPERTY FAILS' + (' (open known finding %s): ' % f if f in open_ids else ': ') + w)
        if not bad:
            print('property holds on this input')
        return 1 if bad else 0
    finally:
        im.close()
