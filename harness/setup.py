"""MANIFEST.setup_cmd: regenerate every Generated/*.lean from /repo and build all proofs + drivers
of the claimed properties (those with harness/meta/Cxx.json).  A property whose build fails here
is reported by its own check (prove step), so setup itself only fails if the shared core fails."""
import importlib
import subprocess
import sys
import time
from pathlib import Path

from harness.common import Check, LEAN, VERIF


def main():
    t0 = time.time()
    r = subprocess.run(['lake', 'build', 'NoteSeqVerif'], cwd=LEAN)
    if r.returncode != 0:
        print('setup: shared core failed to build')
        return 1
    failed = []
    ready = set((VERIF / 'tools' / 'ready.txt').read_text().split())
    for p in sorted(Path(__file__).parent.glob('c[0-9][0-9].py')):
        pid = p.stem.upper()
        if pid not in ready or not (VERIF / 'harness' / 'meta' / (pid + '.json')).exists():
            continue
        try:
            mod = importlib.import_module('harness.' + p.stem)
            chk = Check(pid, 'quick', 0)
            if hasattr(mod, 'generate'):
                mod.generate(chk)
            targets = list(getattr(mod, 'MODULES', [])) + ([mod.EXE] if getattr(mod, 'EXE', None) else []) \
                + list(getattr(mod, 'EXES', [])) + ([mod.BRIDGE] if getattr(mod, 'BRIDGE', None) else [])
        except Exception as e:  # pylint: disable=broad-except
            print('setup: %s: generate/import failed: %s' % (pid, e))
            failed.append(pid)
            continue
        t1 = time.time()
        r = subprocess.run(['lake', 'build'] + sorted(set(targets)), cwd=LEAN, capture_output=True, text=True)
        print('setup: %s: lake build %s rc=%d %.0fs' % (pid, ' '.join(targets), r.returncode, time.time() - t1), flush=True)
        if r.returncode != 0:
            print((r.stdout + r.stderr)[-1500:])
            failed.append(pid)
    print('setup: done in %.0fs; failed: %s' % (time.time() - t0, failed or 'none'))
    return 0


if __name__ == '__main__':
    sys.exit(main())
