"""MANIFEST.setup_cmd: regenerate every Generated/*.lean from /repo and build all proofs + drivers."""
import importlib
import subprocess
import sys
import time
from pathlib import Path

from harness.common import Check, LEAN

def main():
    t0 = time.time()
    targets = []
    for p in sorted(Path(__file__).parent.glob('c[0-9][0-9].py')):
        pid = p.stem.upper()
        mod = importlib.import_module('harness.' + p.stem)
        chk = Check(pid, 'quick', 0)
        if hasattr(mod, 'generate'):
            try:
                mod.generate(chk)
            except Exception as e:  # pylint: disable=broad-except
                print('setup: generate(%s) failed: %s' % (pid, e))
        targets += list(getattr(mod, 'MODULES', [])) + ([mod.EXE] if getattr(mod, 'EXE', None) else []) \
            + list(getattr(mod, 'EXES', []))
    targets = sorted(set(targets))
    print('setup: building', ' '.join(targets), flush=True)
    r = subprocess.run(['lake', 'build'] + targets, cwd=LEAN)
    print('setup: lake build rc=%d in %.0fs' % (r.returncode, time.time() - t0))
    return r.returncode

if __name__ == '__main__':
    sys.exit(main())
