"""C12, operation families extraction / splitting, transposition, stretching / shifting.

Theorems: permutation invariance of the Lean models of C02 (`_extract_subsequences`, `extract_subsequence`,
`trim_note_sequence`, the four splitters), C10 (`transpose_note_sequence`, `augment_note_sequence`) and C13
(`stretch_note_sequence`, `shift_sequence_times`, `concatenate_sequences`, `repeat_sequence_to_duration`), proved as corollaries of those properties' closed forms.

Model tie on permuted inputs (`run_streams`): the compiled drivers of those models (`drv_c02`, `drv_c10`, `drv_c13`) are
run on generated inputs AND on a random permutation of every repeated field of each, and every response is compared
exactly with the implementation on the same (permuted) input — so the models the corollaries speak about are checked
against the code on exactly the kind of input pair the corollaries relate."""
from harness import nswire

_X = 'NoteSeqVerif.Props.C12_extract'
_T = 'NoteSeqVerif.Props.C12_transpose'
_S = 'NoteSeqVerif.Props.C12_stretch'

EXTRA = [
    (_X, ['NSV.C12.extractSubsequences_perm', 'NSV.C12.extractSubsequence_perm', 'NSV.C12.trim_perm',
          'NSV.C12.splitHopList_perm', 'NSV.C12.splitHop_perm', 'NSV.C12.splitTimeChanges_perm',
          'NSV.C12.splitSilence_perm', 'NSV.C12.silenceOK_exact', 'NSV.C12.silenceOK_of_mono', 'NSV.C12.silenceOK_float',
          'NSV.C12.extract_float_perm', 'NSV.C12.noTies_perm', 'NSV.C12.no_ties_needed',
          'NSV.C12.silence_negative_gap_depends_on_order',
          # the lemmas the corollaries rest on
          'NSV.C12.specPiece_perm', 'NSV.C12.sortByRat_eq_of_perm', 'NSV.C12.specPedals_perm', 'NSV.C12.timeChanges_eq',
          'NSV.C12.silenceOnsets_perm', 'NSV.C12.hopLoop_perm', 'NSV.C12.tcLoop_perm', 'NSV.C12.permList_iff'], 'drv_c02'),
    (_T, ['NSV.C12.transposeNS_perm', 'NSV.C12.augmentRange_perm', 'NSV.C12.augment_perm', 'NSV.C12.oneSplitError_perm',
          'NSV.C12.oneSplitError_of_uniform', 'NSV.C12.transpose_error_depends_on_order',
          'NSV.C12.noteLoop_perm', 'NSV.C12.textLoop_perm'], 'drv_c10'),
    (_S, ['NSV.C12.stretch_perm', 'NSV.C12.shift_perm', 'NSV.C12.stretch_shift_float_perm', 'NSV.C12.mapEv_perm',
          'NSV.C12.concat_perm_partial', 'NSV.C12.concatNoTies_iff', 'NSV.C12.repeat_perm_partial',
          'NSV.C12.catLoop_perm', 'NSV.C12.removeRedundant_perm', 'NSV.C12.mergeFrom_perm'], 'drv_c13'),
]


def _flush(chk, exe, stream_of, rows):
    """rows: (stream, request, impl line, hist)"""
    out = chk.driver(exe, [r[1] for r in rows])
    for (stream, req, impl, hist), model in zip(rows, out):
        chk.count(stream, req[:3000], model != 'bad-op', hist)
        if impl != model:
            chk.disagree(stream, req[:3000], impl[:600], model[:600])


def run_streams(chk):
    from note_seq import sequences_lib as sl, chord_symbols_lib as csl
    from harness import c02, c10, c13

    # ---- extraction / splitting: drv_c02
    rng = chk.subrng('extra_a:c02')
    rows = []
    for _ in range(chk.n(500, 6000)):
        ns, c, _hist = c02.gen_case(rng)
        for tag, s in (('stored', ns), ('permuted', nswire.shuffled(ns, rng))):
            impl = nswire.result_line(c02.call_impl, sl, s, c)
            rows.append(('model:' + {'ext': 'extract_subsequences', 'sub': 'extract_subsequence', 'trim': 'trim',
                                     'hoplist': 'split_times', 'hop': 'split_hop', 'tc': 'split_time_changes',
                                     'sil': 'split_silence'}[c['op']],
                         c02.request_line(s, c), impl, [tag, 'result:' + impl.split(' ')[0]]))
    _flush(chk, 'drv_c02', None, rows)

    # ---- transposition: drv_c10
    rng = chk.subrng('extra_a:c10')
    kinds = list(csl._CHORD_KINDS_BY_ABBREV)  # pylint: disable=protected-access
    rows = []
    for _ in range(chk.n(300, 4000)):
        ns, k, mn, mx, tc, _hist = c10.gen_tns(rng, kinds)
        for tag, s in (('stored', ns), ('permuted', nswire.shuffled(ns, rng))):
            impl = c10.tns_impl(sl, s, k, mn, mx, tc)
            rows.append(('model:transpose', c10.tns_request(csl, s, k, mn, mx, tc), impl,
                         [tag, 'result:' + ' '.join(impl.split(' ')[:2]) if impl.startswith('err') else 'result:ok',
                          'transpose_chords' if tc else 'remove_chords']))
    _flush(chk, 'drv_c10', None, rows)

    # ---- stretching / shifting: drv_c13
    rng = chk.subrng('extra_a:c13')
    rows = []
    for i in range(chk.n(400, 5000)):
        case, hist = (c13.case_stretch if i % 2 else c13.case_shift)(rng)
        seq = c13.from_hex(case['seqs'][0])
        for tag, s in (('stored', seq), ('permuted', nswire.shuffled(seq, rng))):
            req, impl = c13.request1(sl, dict(case, seqs=[c13.to_hex(s)]))
            rows.append(('model:' + case['op'], req, impl, [tag] + list(hist) + ['result:' + impl.split(' ')[0]]))
    for i in range(chk.n(200, 2500)):
        case, hist = (c13.case_repeat if i % 2 else c13.case_concat)(rng)
        seqs = [c13.from_hex(h) for h in case['seqs']]
        for tag, ss in (('stored', seqs), ('permuted', [nswire.shuffled(x, rng) for x in seqs])):
            for req, impl in c13.request(sl, dict(case, seqs=[c13.to_hex(x) for x in ss])):
                rows.append(('model:' + req.split(' ', 1)[0], req, impl, [tag] + list(hist) + ['result:' + impl.split(' ')[0]]))
    _flush(chk, 'drv_c13', None, rows)
