"""C07 — event extraction captures the quantized music step for step (DESIGN 6.7).

Correspondence: the same (quantized NoteSequence, extraction parameters) through the real
extractors of /repo and through the compiled Lean models (`drv_c07`), compared exactly
(events, start/end step, bar length, program / drum flag, raised exception class).
Oracle: the property statement evaluated directly on what the real code returns (per-step sets
from the quantized notes; render + re-quantize for the performances); never uses the model."""
import collections
import warnings

from harness import nswire
from harness.common import corpus_cases

PID = 'C07'
FLT = 'NoteSeqVerif.Props.C07_float'     # float bar length: exactness for power-of-two denominators (uses Proofs/Rounding*)
MODULES = ['NoteSeqVerif.Proofs.C07Float', FLT, 'NoteSeqVerif.Props.C07']
EXE = 'drv_c07'
# translator tie T2 (gen/translit2.py): symbolic execution of the current source of steps_per_bar_in_quantized_sequence
BRIDGE = 'NoteSeqVerif.Props.C07_bridge'
BRIDGE_THEOREMS = ['NSV.C07.t2_steps_per_bar', 'NSV.C07.t2_steps_per_bar_int']
THEOREMS = [
    # PianorollSequence
    'NSV.C07.pianoroll_frames', 'NSV.C07.pianoroll_frame_mem', 'NSV.C07.rollSpec_iff', 'NSV.C07.pianoroll_index_error_iff',
    # DrumTrack
    'NSV.C07.drums_steps', 'NSV.C07.drums_empty', 'NSV.C07.mem_pitchesAt', 'NSV.C07.pitchesAt_sorted',
    # ChordProgression
    'NSV.C07.chords_steps', 'NSV.C07.chords_coincident_iff', 'NSV.C07.chords_order',
    # NotePerformance
    'NSV.C07.noteperf_tuples', 'NSV.C07.noteperf_errors',
    # Performance / MetricPerformance
    'NSV.C07.perf_shifts', 'NSV.C07.perf_notes_multiset', 'NSV.C07.perf_onoff_multiset', 'NSV.C07.perf_onsets_in_order',
    'NSV.C07.perf_defined',
    # Melody
    'NSV.C07.melody_steps', 'NSV.C07.melody_empty', 'NSV.C07.keptFrom_sublist', 'NSV.C07.kept_increasing',
    'NSV.C07.kept_chain', 'NSV.C07.kept_stop', 'NSV.C07.kept_top', 'NSV.C07.dup_iff', 'NSV.C07.melody_order',
    # bar length
    'NSV.C07.steps_per_bar_nonInteger_iff', 'NSV.C07.extractors_nonInteger_iff', 'NSV.C07.bar_start',
    (FLT, 'NSV.C07.spbExact_float'), (FLT, 'NSV.C07.steps_per_bar_float_eq_exact'),
    (FLT, 'NSV.C07.steps_per_bar_nonInteger_iff_float'), (FLT, 'NSV.C07.steps_per_bar_nonInteger_iff_rne53'),
    (FLT, 'NSV.C07.steps_per_bar_float_sound'),
]


def generate(chk):
    """Generated/C07.lean from the working tree: constants + transliterated velocity-bin functions."""
    from gen.translit import translate_functions, Untranslatable
    from note_seq import performance_lib as pl, chords_lib, melodies_lib
    try:
        t, _ = translate_functions([
            (pl._velocity_bin_size, 'velocityBinSize', None),
            (pl.velocity_to_bin, 'velocityToBin', None),
            (pl.velocity_bin_to_velocity, 'velocityBinToVelocity', None),
        ], pl)
        chk.translit['velocity_bins'] = 'regenerated from source'
    except Untranslatable as e:
        chk.translit['velocity_bins'] = 'BROKEN: %s' % e
        chk.broken.append('translator:C07 (%s)' % e)
        return
    PE = pl.PerformanceEvent
    txt = ('/-! GENERATED from /repo on every run by harness/c07.py — do not edit. -/\n'
           'namespace NSV.C07.Gen\n' + t + '\n'
           + 'def MIN_MIDI_PITCH : Int := %d\ndef MAX_MIDI_PITCH : Int := %d\n' % (pl.MIN_MIDI_PITCH, pl.MAX_MIDI_PITCH)
           + 'def MAX_NUM_VELOCITY_BINS : Int := %d\n' % pl.MAX_NUM_VELOCITY_BINS
           + 'def NOTE_ON : Nat := %d\ndef NOTE_OFF : Nat := %d\ndef TIME_SHIFT : Nat := %d\ndef VELOCITY : Nat := %d\ndef DURATION : Nat := %d\n'
           % (PE.NOTE_ON, PE.NOTE_OFF, PE.TIME_SHIFT, PE.VELOCITY, PE.DURATION)
           + 'def MELODY_NOTE_OFF : Int := %d\ndef MELODY_NO_EVENT : Int := %d\n'
           % (melodies_lib.MELODY_NOTE_OFF, melodies_lib.MELODY_NO_EVENT)
           + 'def CHORD_SYMBOL : Int := %d\n' % chords_lib.CHORD_SYMBOL
           + '/-- `NO_CHORD`, hex-encoded as texts travel on the wire -/\n'
           + 'def NO_CHORD : String := "%s"\n' % nswire.hx(chords_lib.NO_CHORD)
           + 'end NSV.C07.Gen\n')
    chk.regenerate('NoteSeqVerif/Generated/C07.lean', txt)
    from harness.t2 import generate_t2
    from note_seq import sequences_lib as sl
    generate_t2(chk, 'C07', [
        dict(fn=sl.steps_per_bar_in_quantized_sequence, module=sl, name='steps_per_bar_in_quantized_sequence',
             paths={'note_sequence.time_signatures[0].denominator': ('den', 'int'),
                    'note_sequence.time_signatures[0].numerator': ('num', 'int'),
                    'note_sequence.quantization_info.steps_per_quarter': ('spq', 'int')},
             guards=['assert_is_relative_quantized_sequence']),
    ])


# ----------------------------------------------------------------------------- helpers
def _libs():
    warnings.filterwarnings('ignore')
    from note_seq import (performance_lib as pl, pianoroll_lib as prl, drums_lib as dl, chords_lib as cl,
                          melodies_lib as ml, sequences_lib as sl, events_lib as el)
    return pl, prl, dl, cl, ml, sl, el


def tok(x):
    if x is None:
        return '-'
    if isinstance(x, bool):
        return '1' if x else '0'
    return str(int(x))


def wlist(items):
    items = list(items)
    return ' '.join([str(len(items))] + items)


def mk_seq(spq=0, sps=0, notes=(), ts=(4, 4), chords=(), total=None, step_seconds=0.125):
    """small literal quantized sequence: notes = (pitch, qs, qe[, vel, inst, prog, drum])"""
    from note_seq.protobuf import music_pb2
    ns = music_pb2.NoteSequence()
    if spq:
        ns.quantization_info.steps_per_quarter = spq
    if sps:
        ns.quantization_info.steps_per_second = sps
    if ts is not None:
        t = ns.time_signatures.add()
        t.numerator, t.denominator = ts
    ns.tempos.add().qpm = 120.0
    mx = 0
    for row in notes:
        row = list(row) + [100, 0, 0, False][len(row) - 3:]
        n = ns.notes.add()
        n.pitch, n.quantized_start_step, n.quantized_end_step = row[0], row[1], row[2]
        n.velocity, n.instrument, n.program, n.is_drum = row[3], row[4], row[5], bool(row[6])
        n.start_time, n.end_time = row[1] * step_seconds, row[2] * step_seconds
        mx = max(mx, row[2])
    for (st, text) in chords:
        a = ns.text_annotations.add()
        a.quantized_step, a.text, a.annotation_type, a.time = st, text, 1, st * step_seconds
    ns.total_quantized_steps = mx if total is None else total
    ns.total_time = mx * step_seconds
    return ns


# ----------------------------------------------------------------------------- implementation side
def run_impl(op, p, ns):
    """run the real extractor; canonical response line in the driver's format."""
    pl, prl, dl, cl, ml, sl, el = _libs()
    try:
        if op == 'perf':
            r = pl.Performance(quantized_sequence=ns, start_step=p[0], num_velocity_bins=p[1],
                               max_shift_steps=p[2], instrument=p[3])
            return 'ok %s %s %d %d %d %d %s' % (tok(r.program), tok(r.is_drum), r.steps_per_second, r.start_step,
                                               r._num_velocity_bins, r.max_shift_steps,
                                               wlist('%d %d' % (e.event_type, e.event_value) for e in r))
        if op == 'mperf':
            r = pl.MetricPerformance(quantized_sequence=ns, start_step=p[0], num_velocity_bins=p[1],
                                     max_shift_quarters=p[2], instrument=p[3])
            return 'ok %s %s %d %d %d %d %s' % (tok(r.program), tok(r.is_drum), r.steps_per_quarter, r.start_step,
                                               r._num_velocity_bins, r.max_shift_steps,
                                               wlist('%d %d' % (e.event_type, e.event_value) for e in r))
        if op == 'nperf':
            r = pl.NotePerformance(ns, num_velocity_bins=p[0], instrument=p[1], start_step=p[2],
                                   max_shift_steps=p[3], max_duration_steps=p[4])
            return 'ok %s %s %d %d %s' % (tok(r.program), tok(r.is_drum), r.steps_per_second, r.start_step,
                                         wlist(' '.join(str(int(e.event_value)) for e in t) for t in r))
        if op == 'roll':
            r = prl.PianorollSequence(quantized_sequence=ns, start_step=p[0], min_pitch=p[1], max_pitch=p[2],
                                      split_repeats=bool(p[3]))
            return 'ok ' + wlist(wlist(str(int(x)) for x in ev) for ev in r)
        if op == 'drums':
            r = dl.DrumTrack()
            r.from_quantized_sequence(ns, search_start_step=p[0], gap_bars=p[1], pad_end=bool(p[2]),
                                      ignore_is_drum=bool(p[3]))
            return 'ok %d %d %d %d %s' % (r.start_step, r.end_step, r.steps_per_bar, r.steps_per_quarter,
                                         wlist(wlist(str(x) for x in sorted(ev)) for ev in r))
        if op == 'chords':
            r = cl.ChordProgression()
            r.from_quantized_sequence(ns, p[0], p[1])
            return 'ok %d %d %d %d %s' % (r.start_step, r.end_step, r.steps_per_bar, r.steps_per_quarter,
                                         wlist(nswire.hx(x) for x in r))
        if op == 'melody':
            r = ml.Melody()
            r.from_quantized_sequence(ns, search_start_step=p[0], instrument=p[1], gap_bars=p[2],
                                      ignore_polyphonic_notes=bool(p[3]), pad_end=bool(p[4]), filter_drums=bool(p[5]))
            return 'ok %d %d %d %d %s' % (r.start_step, r.end_step, r.steps_per_bar, r.steps_per_quarter,
                                         wlist(str(int(x)) for x in r))
        if op == 'spb':
            from harness.common import rat
            return 'ok ' + rat(float(sl.steps_per_bar_in_quantized_sequence(ns)))
    except Exception as e:  # pylint: disable=broad-except
        return 'err ' + type(e).__name__
    raise ValueError(op)


def req_line(op, p, enc):
    return ' '.join([op] + [tok(x) for x in p] + [enc])


# ----------------------------------------------------------------------------- oracle (from the property text)
def overlap_free(notes):
    """no two notes of one pitch overlap (quantized steps)"""
    by = collections.defaultdict(list)
    for n in notes:
        by[n.pitch].append((n.quantized_start_step, n.quantized_end_step))
    for iv in by.values():
        iv.sort()
        for (a, b), (c, d) in zip(iv, iv[1:]):
            if c < b:
                return False
    return True


def mel_overlap_free(notes):
    """no two notes of one pitch overlap — in quantized steps, except for the quantization coincidence: two notes that
    are disjoint in (unquantized) time and start at different times may be rounded onto one start step"""
    by = collections.defaultdict(list)
    for n in notes:
        by[n.pitch].append(n)
    for g in by.values():
        for i, a in enumerate(g):
            for b in g[i + 1:]:
                if a.quantized_end_step <= b.quantized_start_step or b.quantized_end_step <= a.quantized_start_step:
                    continue
                if (a.quantized_start_step == b.quantized_start_step and a.start_time != b.start_time
                        and (a.end_time <= b.start_time or b.end_time <= a.start_time)):
                    continue
                return False
    return True


def exact_spb(ns):
    """spq*4*num/den as an exact fraction (None if there is no usable time signature)"""
    from fractions import Fraction
    if len(ns.time_signatures) != 1 or ns.time_signatures[0].denominator <= 0 or ns.time_signatures[0].numerator <= 0:
        return None                # a quantized sequence carries exactly one time signature
    ts = ns.time_signatures[0]
    if ts.denominator & (ts.denominator - 1):
        return None                # quantize_note_sequence only accepts power-of-two denominators
    return Fraction(ns.quantization_info.steps_per_quarter * 4 * ts.numerator, ts.denominator)


def vbin(v, nb):
    size = -((-127) // nb)          # ceil(127 / nb), exact
    return (v - 1) // size + 1


def expected_prog_drum(ns, inst):
    """what one performance can hold: a single drum flag and (for pitched tracks) a single program"""
    notes = [n for n in ns.notes if inst is None or n.instrument == inst]
    if all(n.is_drum for n in notes):
        return 0, True
    if any(n.is_drum for n in notes):
        return 0, False
    progs = {n.program for n in notes}
    return (progs.pop() if len(progs) == 1 else 0), False


def oracle(op, p, ns):
    """None = the statement holds (or the input is outside the quantifier); otherwise what fails."""
    pl, prl, dl, cl, ml, sl, el = _libs()
    notes = list(ns.notes)
    wf = all(n.quantized_start_step < n.quantized_end_step and n.quantized_start_step >= 0 for n in notes)
    if not wf:
        return None
    rel, absq = ns.quantization_info.steps_per_quarter > 0, ns.quantization_info.steps_per_second > 0
    try:
        if op in ('perf', 'mperf'):
            start, nb, ms, inst = p
            if (op == 'perf' and not absq) or (op == 'mperf' and not rel) or not 0 <= nb <= 127 or start < 0:
                return None
            max_shift = ms if op == 'perf' else ms * ns.quantization_info.steps_per_quarter
            if max_shift < 1:
                return None
            sel = [n for n in notes if n.quantized_start_step >= start and (inst is None or n.instrument == inst)]
            if not overlap_free(sel) or any(not 0 <= n.pitch <= 127 for n in sel):
                return None
            if nb and any(not 1 <= n.velocity <= 127 for n in sel):
                return None
            if op == 'perf':
                r = pl.Performance(quantized_sequence=ns, start_step=start, num_velocity_bins=nb, max_shift_steps=ms, instrument=inst)
            else:
                r = pl.MetricPerformance(quantized_sequence=ns, start_step=start, num_velocity_bins=nb, max_shift_quarters=ms, instrument=inst)
            total = 0
            for e in r:
                if e.event_type == pl.PerformanceEvent.TIME_SHIFT:
                    if not 1 <= e.event_value <= max_shift:
                        return 'time shift %d outside 1..%d' % (e.event_value, max_shift)
                    total += e.event_value
            elapsed = max([n.quantized_end_step for n in sel] + [start]) - start
            if total != elapsed:
                return 'time shifts sum to %d, elapsed steps %d' % (total, elapsed)
            if op == 'perf':
                back = sl.quantize_note_sequence_absolute(r.to_sequence(), ns.quantization_info.steps_per_second)
            else:
                back = sl.quantize_note_sequence(r.to_sequence(qpm=120.0), ns.quantization_info.steps_per_quarter)
            prog, drum = expected_prog_drum(ns, inst)
            got = sorted((n.pitch, n.quantized_start_step, n.quantized_end_step, vbin(n.velocity, nb) if nb else 0,
                          n.program, n.is_drum) for n in back.notes)
            want = sorted((n.pitch, n.quantized_start_step, n.quantized_end_step, vbin(n.velocity, nb) if nb else 0,
                           prog, drum) for n in sel)
            if got != want:
                return 'rendered notes differ: missing %s, extra %s' % (
                    sorted((collections.Counter(want) - collections.Counter(got)).elements())[:4],
                    sorted((collections.Counter(got) - collections.Counter(want)).elements())[:4])
            return None
        if op == 'nperf':
            nb, inst, start, ms, md = p
            if not absq or not 1 <= nb <= 127 or start < 0:
                return None
            sel = [n for n in notes if n.quantized_start_step >= start and (inst is None or n.instrument == inst)]
            if any(not 0 <= n.pitch <= 127 or not 1 <= n.velocity <= 127 for n in sel):
                return None
            order = sorted(sel, key=lambda n: (n.start_time, n.pitch))
            if any(a.quantized_start_step > b.quantized_start_step for a, b in zip(order, order[1:])):
                return None           # start times inconsistent with steps: not a quantizer output
            want, cur, err = [], start, None
            for n in order:
                sh, du = n.quantized_start_step - cur, n.quantized_end_step - n.quantized_start_step
                if sh > ms:
                    err = 'TooManyTimeShiftStepsError'
                    break
                if du > md:
                    err = 'TooManyDurationStepsError'
                    break
                want.append((sh, n.pitch, vbin(n.velocity, nb), du))
                cur = n.quantized_start_step
            try:
                r = pl.NotePerformance(ns, num_velocity_bins=nb, instrument=inst, start_step=start, max_shift_steps=ms, max_duration_steps=md)
            except pl.NotePerformanceError as e:
                return None if type(e).__name__ == err else 'raised %s, expected %s' % (type(e).__name__, err or 'a result')
            if err:
                return 'expected %s, got a result' % err
            got = [tuple(int(e.event_value) for e in t) for t in r]
            if got != want:
                return 'note tuples differ: got %s want %s' % (got[:5], want[:5])
            back = sl.quantize_note_sequence_absolute(r.to_sequence(), ns.quantization_info.steps_per_second)
            prog, drum = expected_prog_drum(ns, inst)
            g = sorted((n.pitch, n.quantized_start_step, n.quantized_end_step, vbin(n.velocity, nb), n.program, n.is_drum) for n in back.notes)
            w = sorted((n.pitch, n.quantized_start_step, n.quantized_end_step, vbin(n.velocity, nb), prog, drum) for n in sel)
            if g != w:
                return 'rendered note-performance differs from the selected notes'
            return None
        if op == 'roll':
            start, lo, hi, split = p
            T = ns.total_quantized_steps
            if not rel or not 0 <= start <= T or lo > hi or any(n.quantized_end_step > T for n in notes):
                return None
            r = prl.PianorollSequence(quantized_sequence=ns, start_step=start, min_pitch=lo, max_pitch=hi, split_repeats=bool(split))
            if len(r) != T - start:
                return 'roll has %d frames, expected %d' % (len(r), T - start)
            sel = [n for n in notes if n.quantized_start_step >= start and lo <= n.pitch <= hi]
            for f, ev in enumerate(r):
                step = f + start
                want = {n.pitch for n in sel if n.quantized_start_step <= step < n.quantized_end_step}
                if split:
                    want -= {n.pitch for n in sel if n.quantized_start_step == step + 1}
                got = [int(x) + lo for x in ev]
                if got != sorted(want):
                    return 'frame %d (step %d) holds %s, sounding in-range pitches are %s' % (f, step, got, sorted(want))
            return None
        if op in ('drums', 'melody', 'chords') and not rel:
            return None
        spb = exact_spb(ns) if rel else None
        if op in ('drums', 'melody', 'chords'):
            if spb is None:
                return None
            if spb.denominator != 1:
                want_err = el.NonIntegerStepsPerBarError
            else:
                want_err = None
                spb = int(spb)
        if op == 'drums':
            ss, gap, pad, ign = p
            if ss < 0 or gap < 1:
                return None
            r = dl.DrumTrack()
            try:
                r.from_quantized_sequence(ns, search_start_step=ss, gap_bars=gap, pad_end=bool(pad), ignore_is_drum=bool(ign))
            except el.NonIntegerStepsPerBarError:
                return None if want_err else 'NonIntegerStepsPerBarError although the bar is %d steps' % spb
            if want_err:
                return 'expected NonIntegerStepsPerBarError'
            sel = [n for n in notes if (n.is_drum or ign) and n.velocity and n.quantized_start_step >= ss]
            if not sel:
                return None if list(r) == [] else 'events although no drum note is selected'
            steps = sorted({n.quantized_start_step for n in sel})
            first = steps[0]
            want_start = first - (first - ss) % spb
            last = first
            for t in steps[1:]:
                if t - (last + 1) >= gap * spb:
                    break
                last = t
            n0 = last - want_start + 1
            length = n0 + ((-n0) % spb if pad else 0)
            want = [sorted({n.pitch for n in sel if n.quantized_start_step == want_start + i}) if i < n0 else []
                    for i in range(length)]
            got = [sorted(ev) for ev in r]
            if r.start_step != want_start:
                return 'drum track starts at %d, bar of the first selected note is %d' % (r.start_step, want_start)
            if got != want:
                bad = [i for i, (a, b) in enumerate(zip(got, want)) if a != b][:1]
                return 'drum events differ (len %d vs %d, first difference at %s)' % (len(got), len(want), bad)
            if r.end_step != want_start + length:
                return 'end_step %d, expected %d' % (r.end_step, want_start + length)
            return None
        if op == 'chords':
            start, end = p
            if not 0 <= start < end:
                return None
            # "the chord in force": the latest chord symbol at or before the step.  Chord symbols quantized onto one
            # step are told apart by their unquantized time; two symbols with one (step, time) and different figures
            # before the range leave "the latest" undefined (outside the statement)
            anns = [a for a in ns.text_annotations if a.annotation_type == 1]
            same = collections.defaultdict(set)
            for a in anns:
                if a.quantized_step < start:
                    same[(a.quantized_step, a.time)].add(a.text)
            if any(len(v) > 1 for v in same.values()):
                return None
            anns.sort(key=lambda a: (a.quantized_step, a.time))
            inside = collections.defaultdict(set)
            for a in anns:
                if start <= a.quantized_step < end:
                    inside[a.quantized_step].add(a.text)
            coincident = any(len(v) > 1 for v in inside.values())
            r = cl.ChordProgression()
            try:
                r.from_quantized_sequence(ns, start, end)
            except el.NonIntegerStepsPerBarError:
                return None if want_err else 'NonIntegerStepsPerBarError although the bar is %d steps' % spb
            except cl.CoincidentChordsError:
                if want_err:
                    return 'expected NonIntegerStepsPerBarError'
                return None if coincident else 'CoincidentChordsError without two different chords on one step in range'
            if want_err:
                return 'expected NonIntegerStepsPerBarError'
            if coincident:
                return 'two different chords share a step in range but no CoincidentChordsError'
            want = []
            for i in range(end - start):
                before = [a for a in anns if a.quantized_step <= start + i]
                want.append(before[-1].text if before else cl.NO_CHORD)
            if list(r) != want:
                bad = [i for i, (a, b) in enumerate(zip(list(r), want)) if a != b][:1]
                return 'chord events differ (len %d vs %d, first difference at %s)' % (len(r), len(want), bad)
            if (r.start_step, r.end_step) != (start, end):
                return 'start/end step (%d,%d), expected (%d,%d)' % (r.start_step, r.end_step, start, end)
            return None
        if op == 'melody':
            ss, inst, gap, ign, pad, fd = p
            if ss < 0 or gap < 1:
                return None
            sel = [n for n in notes if n.instrument == inst and n.quantized_start_step >= ss
                   and not (fd and n.is_drum) and n.velocity]
            if not mel_overlap_free(sel) or any(not 0 <= n.pitch <= 127 for n in sel):
                return None
            r = ml.Melody()
            raised = None
            try:
                r.from_quantized_sequence(ns, search_start_step=ss, instrument=inst, gap_bars=gap,
                                          ignore_polyphonic_notes=bool(ign), pad_end=bool(pad), filter_drums=bool(fd))
            except el.NonIntegerStepsPerBarError:
                return None if want_err else 'NonIntegerStepsPerBarError although the bar is %d steps' % spb
            except ml.PolyphonicMelodyError:
                raised = 'poly'
            if want_err:
                return 'expected NonIntegerStepsPerBarError'
            if not sel:
                return None if (raised is None and list(r) == []) else 'events or an error although no note is selected'
            onsets = sorted({n.quantized_start_step for n in sel})
            # the highest note starting on a step; of two notes of that pitch which quantization put on the step
            # (they do not overlap in time) the one that really starts first
            top = {t: min((n for n in sel if n.quantized_start_step == t), key=lambda n: (-n.pitch, n.start_time))
                   for t in onsets}
            multi = {t for t in onsets if sum(1 for n in sel if n.quantized_start_step == t) > 1}
            want_start = onsets[0] - (onsets[0] - ss) % spb
            kept = [onsets[0]]
            for t in onsets[1:]:
                if t - top[kept[-1]].quantized_end_step >= gap * spb:
                    break
                kept.append(t)
            want_poly = (not ign) and any(t in multi for t in kept)
            if want_poly or raised:
                return None if (want_poly and raised) else ('PolyphonicMelodyError raised without two selected notes sharing a start step'
                                                            if raised else 'two selected notes share a start step but no PolyphonicMelodyError')
            n0 = top[kept[-1]].quantized_end_step - want_start
            length = n0 + ((-n0) % spb if pad else 0)
            want = []
            for i in range(length):
                step = want_start + i
                if step in top and step in kept:
                    want.append(top[step].pitch)
                    continue
                earlier = [t for t in kept if t < step]
                if earlier and top[earlier[-1]].quantized_end_step == step:
                    want.append(-1)
                else:
                    want.append(-2)
            got = [int(x) for x in r]
            if r.start_step != want_start:
                return 'melody starts at %d, bar of the first selected note is %d' % (r.start_step, want_start)
            if got != want:
                bad = [i for i, (a, b) in enumerate(zip(got, want)) if a != b][:1]
                return 'melody events differ (len %d vs %d, first difference at %s)' % (len(got), len(want), bad)
            if r.end_step != want_start + length:
                return 'end_step %d, expected %d' % (r.end_step, want_start + length)
            return None
        if op == 'spb':
            return None
    except Exception as e:  # pylint: disable=broad-except
        return 'unexpected %s on a valid input: %s' % (type(e).__name__, str(e)[:80])
    return None


# ----------------------------------------------------------------------------- generators
TSIGS = [(4, 4), (4, 4), (4, 4), (3, 4), (6, 8), (2, 2), (2, 4), (5, 4), (7, 8), (3, 8), (9, 16), (1, 4)]
PITCHES = [36, 38, 42, 60, 60, 62, 64, 67, 72]
CHORD_TEXTS = ['C', 'Am', 'G7', 'N.C.', 'F#m7b5', 'Dm']


def gen_seq(rng, rel, hist):
    """a quantized sequence with its quantized steps generated directly (start times consistent with
    the steps up to a sub-step jitter), or the real quantizer applied to an NSGen sequence."""
    pl, prl, dl, cl, ml, sl, el = _libs()
    from note_seq.protobuf import music_pb2
    if rel:
        spq = rng.choice([1, 2, 3, 4, 4, 4, 6, 8, 12, 24])
        ts = rng.choice(TSIGS)
        secs = 60.0 / (120.0 * spq)
    else:
        sps = rng.choice([10, 31, 100, 100, 250])
        ts = (4, 4)
        secs = 1.0 / sps
    if rng.random() < 0.2:
        # route B: real quantizer on an unquantized sequence
        g = nswire.NSGen(rng, max_notes=rng.choice([3, 10, 25, 40]), dyadic=rng.random() < 0.6, with_meta=False)
        raw = g.make(tempos=False, tsigs=False, sub=False)
        raw.tempos.add().qpm = 120.0
        if rel:
            t = raw.time_signatures.add()
            t.numerator, t.denominator = ts
            ns = sl.quantize_note_sequence(raw, spq)
        else:
            ns = sl.quantize_note_sequence_absolute(raw, sps)
        hist.add('seq:quantizer')
        return ns
    hist.add('seq:direct')
    ns = music_pb2.NoteSequence()
    if rel:
        ns.quantization_info.steps_per_quarter = spq
        t = ns.time_signatures.add()
        t.numerator, t.denominator = ts
        bar = spq * 4 * ts[0] // ts[1] or 4
    else:
        ns.quantization_info.steps_per_second = sps
        bar = rng.choice([8, 16, 25])
    ns.tempos.add().qpm = 120.0
    nbars = rng.choice([1, 2, 3, 4, 6])
    span = bar * nbars
    no_overlap = rng.random() < 0.7
    ninst = rng.choice([1, 2, 3])
    kinds = [rng.choice(['pitched', 'pitched', 'pitched', 'drums', 'mixed']) for _ in range(3)]
    progs = [rng.choice([0, 0, 5, 40]) for _ in range(3)]
    uniform_prog = rng.random() < 0.7
    vel_zero = rng.random() < 0.3
    target = rng.choice([0, 1, 2, 4, 8, 14, 25, 40])
    occ = collections.defaultdict(list)
    rows = []
    prev = None
    tries = 0
    while len(rows) < target and tries < 4 * target + 8:
        tries += 1
        k = rng.random()
        pitch = rng.choice(PITCHES) if rng.random() < 0.85 else rng.randrange(0, 128)
        if prev and k < 0.15:                      # abut the previous note: same pitch, starts where it ends
            pitch, a = prev[0], prev[2]
            hist.add('force:abutting')
        elif prev and k < 0.30:                    # same start step as the previous note (polyphony)
            a = prev[1]
            hist.add('force:same-start')
        elif k < 0.40:
            a = 0
            hist.add('force:step0')
            if not no_overlap and prev and rng.random() < 0.5:
                pitch = prev[0]                    # overlapping same-pitch notes from step 0 (correspondence only)
        elif prev and k < 0.50:                    # exactly at / around a gap of 1 or 2 bars after the previous end or start
            a = rng.choice([prev[2], prev[1] + 1]) + bar * rng.choice([1, 2]) + rng.choice([-1, 0, 0, 1])
            hist.add('force:gap-boundary')
        elif k < 0.60:
            a = bar * rng.randrange(0, nbars + 1)  # on a bar line
        else:
            a = rng.randrange(0, span + 1)
        a = max(a, 0)
        b = a + rng.choice([1, 1, 2, 3, 4, bar, rng.randrange(1, 2 * bar + 1)])
        if rows and rng.random() < 0.1:
            b = max(max(r[2] for r in rows), a + 1)   # ends with the last note (reaches the final frame)
            hist.add('force:to-end')
        if no_overlap and any(not (b <= c or d <= a) for (c, d) in occ[pitch]):
            continue
        occ[pitch].append((a, b))
        inst = rng.randrange(ninst)
        drum = {'pitched': False, 'drums': True, 'mixed': rng.random() < 0.4}[kinds[inst]]
        vel = rng.choice([1, 40, 64, 100, 127, rng.randrange(1, 128)])
        if vel_zero and rng.random() < 0.2:
            vel = 0
        prog = progs[inst] if uniform_prog else rng.choice([0, 5, 40])
        rows.append((pitch, a, b, vel, inst, prog, drum))
        prev = rows[-1]
    times = {}
    if rng.random() < 0.35:
        # quantization coincidence: two notes of one pitch, disjoint in time (… a-0.1 | a+0.35 …), rounded onto one
        # start step `a` with different end steps; the shuffle below stores them in either order
        for _ in range(rng.choice([1, 1, 2])):
            a = rng.choice([0, 0, bar, rng.randrange(0, span + 1)] + [r[1] for r in rows[:3]] + [r[2] for r in rows[:3]])
            d = rng.choice([2, 2, 3, 4, bar])
            top_pitch = min(max([r[0] for r in rows] + [59]) + rng.choice([1, 2]), 127)
            pitch = rng.choice([top_pitch, top_pitch, rng.choice(PITCHES)])
            if any(not (a + d <= c or e <= a) for (c, e) in occ[pitch]):
                continue
            occ[pitch].append((a, a + d))
            inst = rng.randrange(ninst)
            drum = {'pitched': False, 'drums': True, 'mixed': rng.random() < 0.4}[kinds[inst]]
            prog = progs[inst] if uniform_prog else rng.choice([0, 5, 40])
            first = (pitch, a, a + 1, rng.choice([1, 64, 100]), inst, prog, drum)
            second = (pitch, a, a + d, rng.choice([40, 100, 127]), inst, prog, drum)
            times[first] = (max(a - 0.4, 0.0), a - 0.1 if a > 0 else 0.3)
            times[second] = (a + 0.35, float(a + d))
            rows += [first, second]
            hist.add('force:same-pitch-same-step-disjoint-times')
    rng.shuffle(rows)
    jitter = rng.random() < 0.5
    mx = 0
    for row in rows:
        (pitch, a, b, vel, inst, prog, drum) = row
        n = ns.notes.add()
        n.pitch, n.quantized_start_step, n.quantized_end_step = pitch, a, b
        n.velocity, n.instrument, n.program, n.is_drum = vel, inst, prog, drum
        j = rng.choice([-0.4, -0.2, 0.0, 0.0, 0.2, 0.4]) if jitter else 0.0
        if row in times:
            n.start_time, n.end_time = times[row][0] * secs, times[row][1] * secs
        else:
            n.start_time = max(0.0, (a + j) * secs)
            n.end_time = b * secs
        mx = max(mx, b)
    if rel:
        for _ in range(rng.choice([0, 0, 1, 2, 3, 5])):
            a = ns.text_annotations.add()
            k = rng.random()
            if k < 0.35 and len(ns.text_annotations) > 1:
                a.quantized_step = ns.text_annotations[0].quantized_step     # coincident
                a.text = ns.text_annotations[0].text if rng.random() < 0.5 else rng.choice(CHORD_TEXTS)
                hist.add('force:coincident-chords')
            else:
                a.quantized_step = rng.choice([0, bar, rng.randrange(0, span + 2)])
                a.text = rng.choice(CHORD_TEXTS)
            a.annotation_type = rng.choice([1, 1, 1, 1, 0, 2])
            a.time = a.quantized_step * secs
        if rng.random() < 0.35:
            # quantization coincidence: two chord symbols at distinct times rounded onto one step (mostly different
            # figures), stored in either order; gen_params then extracts from a later start step
            c = rng.choice([0, 1, bar - 1, bar, rng.randrange(0, span + 1)])
            figs = rng.sample(CHORD_TEXTS, 2) if rng.random() < 0.85 else [rng.choice(CHORD_TEXTS)] * 2
            pair = [(max(c - 0.3, 0.0) * secs, figs[0]), ((c + 0.2) * secs, figs[1])]
            if rng.random() < 0.5:
                pair.reverse()
            for (t, fig) in pair:
                a = ns.text_annotations.add()
                a.quantized_step, a.text, a.annotation_type, a.time = c, fig, 1, t
            hist.add('force:chords-one-step-distinct-times')
    k = rng.random()
    ns.total_quantized_steps = mx if k < 0.6 else mx + rng.choice([1, bar, 3])
    ns.total_time = mx * secs
    return ns


def gen_malformed(rng, rel, hist):
    """sequences outside the quantifier: unquantized / wrong quantization kind, no or degenerate time
    signature, out-of-range pitches, empty or reversed notes, short total_quantized_steps, odd start times."""
    ns = gen_seq(rng, rel, set())
    k = rng.randrange(10)
    hist.add('malformed:%d' % k)
    if k == 0:
        ns.ClearField('quantization_info')
    elif k == 1:
        ns.ClearField('quantization_info')
        if rel:
            ns.quantization_info.steps_per_second = 100
        else:
            ns.quantization_info.steps_per_quarter = 4
    elif k == 2:
        ns.ClearField('time_signatures')
    elif k == 3 and ns.time_signatures:
        ns.time_signatures[0].numerator, ns.time_signatures[0].denominator = rng.choice([(0, 4), (4, 0), (4, 3), (3, 5), (-4, 4), (4, -4), (7, 49)])
    elif k == 4:
        for n in ns.notes:
            if rng.random() < 0.3:
                n.pitch = rng.choice([-1, 128, 200, -5])
    elif k == 5:
        for n in ns.notes:
            if rng.random() < 0.3:
                n.quantized_end_step = n.quantized_start_step - rng.choice([0, 0, 1, 3])
    elif k == 6:
        ns.total_quantized_steps = rng.choice([0, 1, ns.total_quantized_steps // 2])
    elif k == 7:
        for n in ns.notes:
            n.start_time = rng.choice([0.0, 1.0, 2.5, rng.uniform(0, 4)])
    elif k == 8:
        for n in ns.notes:
            if rng.random() < 0.3:
                n.velocity = rng.choice([0, 128, 200])
    else:
        for _ in range(rng.choice([1, 2])):       # several stored time signatures: the first stored one counts
            t = ns.time_signatures.add()
            t.numerator, t.denominator = rng.choice([(3, 4), (6, 8), (7, 8), (5, 4), (4, 4)])
            t.time = rng.choice([0.0, 1.0])
    return ns


def bar_of(ns):
    s = exact_spb(ns)
    return int(s) if s is not None and s.denominator == 1 and s > 0 else 16


def gen_params(rng, op, ns, malformed):
    notes = list(ns.notes)
    bar = bar_of(ns)
    starts = [n.quantized_start_step for n in notes] or [0]
    T = ns.total_quantized_steps
    present = sorted({n.instrument for n in notes}) or [0]
    inst = rng.choice([None, None, rng.choice(present), rng.choice(present), rng.choice(present), rng.randrange(0, 3)])
    if op in ('perf', 'mperf', 'nperf'):
        start = rng.choice([0, 0, 0, rng.choice(starts), rng.choice(starts) + 1, bar])
        nb = rng.choice([0, 0, 1, 2, 8, 32, 127, rng.randrange(1, 128)])
        dists = sorted({abs(a - b) for a in starts + [start] for b in starts[:6]} - {0}) or [1]
        if op == 'perf':
            ms = rng.choice([1, 2, 3, 5, 10, 100, 100, rng.choice(dists), rng.choice(dists) + 1, max(rng.choice(dists) - 1, 1)])
            if malformed:
                nb = rng.choice([nb, 128, 200, -1])
                ms = rng.choice([ms, ms, -1])
            return [start, nb, ms, inst]
        if op == 'mperf':
            ms = rng.choice([1, 1, 2, 4])
            if malformed:
                nb = rng.choice([nb, 128])
            return [start, nb, ms, inst]
        nb = rng.choice([1, 2, 8, 32, 127, rng.randrange(1, 128)])
        durs = sorted({n.quantized_end_step - n.quantized_start_step for n in notes}) or [1]
        ms = rng.choice([1000, 1000, rng.choice(dists), rng.choice(dists) - 1, max(dists)])
        md = rng.choice([1000, 1000, rng.choice(durs), rng.choice(durs) - 1, max(durs)])
        if malformed:
            nb = rng.choice([nb, 0, 128, -2])
        return [nb, inst, start, ms, md]
    if op == 'roll':
        start = rng.choice([0, 0, 0, bar, rng.choice(starts), min(T, 2 * bar), T])
        lo, hi = rng.choice([(0, 127), (0, 127), (21, 108), (60, 72), (36, 64), (60, 60), (62, 127)])
        if malformed:
            start = rng.choice([start, T + 1, T + 5, -1])
            lo, hi = rng.choice([(lo, hi), (61, 60), (70, 60)])
        return [start, lo, hi, rng.random() < 0.6]
    if op == 'drums':
        ss = bar * rng.choice([0, 0, 0, 1, 2])
        if malformed and rng.random() < 0.3:
            ss += rng.choice([1, -bar])
        return [ss, rng.choice([1, 1, 2, 3] + ([0, -1] if malformed else [])), rng.random() < 0.5, rng.random() < 0.4]
    if op == 'chords':
        cs = [a.quantized_step for a in ns.text_annotations] or [0]
        a = rng.choice([0, 0, bar, rng.choice(cs), rng.choice(cs) + 1, rng.randrange(0, T + 2)])
        shared = sorted({x for x in cs if cs.count(x) > 1})
        if shared and rng.random() < 0.5:          # start after a step that several chord symbols share
            a = rng.choice(shared) + rng.choice([1, 1, 2, bar])
        b = rng.choice([T, T + 1, a + bar, rng.choice(cs), rng.choice(cs) + 1, a + rng.randrange(1, 2 * bar + 1)])
        if not malformed and b <= a:
            b = a + rng.randrange(1, bar + 1)
        return [a, b]
    if op == 'melody':
        ss = bar * rng.choice([0, 0, 0, 1, 2])
        if malformed and rng.random() < 0.3:
            ss += rng.choice([1, -bar])
        return [ss, rng.choice(present + present + [rng.randrange(0, 3)]), rng.choice([1, 1, 2, 3] + ([0] if malformed else [])), rng.random() < 0.6, rng.random() < 0.5,
                rng.random() < 0.75]
    return []


REL_OPS = ['mperf', 'roll', 'drums', 'chords', 'melody', 'spb']
ABS_OPS = ['perf', 'nperf']


def branches(op, p, ns, impl):
    """coverage labels from the implementation's answer"""
    h = ['op:' + op, ('result:' + impl.split()[1]) if impl.startswith('err') else 'result:ok']
    if op == 'melody':
        sel = [n for n in ns.notes if n.instrument == p[1] and n.quantized_start_step >= p[0]
               and not (p[5] and n.is_drum) and n.velocity]
        groups = collections.defaultdict(set)
        for n in sel:
            groups[(n.quantized_start_step, n.pitch)].add((n.start_time, n.quantized_end_step))
        if any(len({t for t, _ in g}) > 1 and len({e for _, e in g}) > 1 for g in groups.values()):
            h.append('melody:start-time-tie-break-among-selected(ignore_poly=%s)' % bool(p[3]))
    if op == 'chords':
        groups = collections.defaultdict(set)
        for a in ns.text_annotations:
            if a.annotation_type == 1 and a.quantized_step < p[0]:
                groups[a.quantized_step].add((a.time, a.text))
        if any(len({t for t, _ in g}) > 1 and len({x for _, x in g}) > 1 for g in groups.values()):
            h.append('chords:time-tie-break-before-start')
    if impl.startswith('ok'):
        t = impl.split()
        if op in ('perf', 'mperf'):
            n = int(t[7])
            h.append('perf:events=0' if n == 0 else 'perf:events>0')
            ev = [(int(t[8 + 2 * i]), int(t[9 + 2 * i])) for i in range(n)]
            ms = int(t[6])
            if any(a == 3 and b == ms for a, b in ev):
                h.append('perf:max-shift-emitted')
            if any(ev[i][0] == 3 and ev[i + 1][0] == 3 for i in range(n - 1)):
                h.append('perf:split-shift')
            if any(a == 4 for a, b in ev):
                h.append('perf:velocity-event')
            h.append('perf:program=%s drum=%s' % ('none' if t[1] == '-' else 'set', t[2]))
        elif op in ('drums', 'melody', 'chords'):
            n = int(t[5])
            h.append('%s:events=0' % op if n == 0 else '%s:events>0' % op)
            if op == 'melody' and n:
                ev = [int(x) for x in t[6:6 + n]]
                if -1 in ev:
                    h.append('melody:note-off-event')
                if int(t[1]) != p[0]:
                    h.append('melody:starts-after-search-start')
                if p[4] and n % int(t[3]) == 0:
                    h.append('melody:padded')
                last = max((x.quantized_end_step for x in ns.notes if x.instrument == p[1]), default=0)
                if int(t[2]) < last - int(t[3]):
                    h.append('melody:ended-by-gap')
            if op == 'drums' and n:
                last = max((x.quantized_start_step for x in ns.notes if x.is_drum or p[3]), default=0)
                if int(t[2]) + 0 < last:
                    h.append('drums:ended-by-gap')
        elif op == 'roll':
            h.append('roll:split' if p[3] else 'roll:nosplit')
    return h


def run_cases(chk, stream, cases, do_oracle=True):
    """cases: list of (op, params, ns, hist).  Correspondence + oracle."""
    reqs, impls = [], []
    for (op, p, ns, hist) in cases:
        enc = nswire.encode(ns)
        reqs.append(req_line(op, p, enc))
        impls.append(run_impl(op, p, ns))
    models = chk.driver(EXE, reqs)
    for (op, p, ns, hist), req, a, b in zip(cases, reqs, impls, models):
        if b == 'err Unmodelled':
            chk.count(stream, None, False, ['op:' + op, 'skipped:model-declines(negative bar length or bin count)'])
            continue
        chk.count(stream, (op, req), b != 'bad-op', sorted(hist) + branches(op, p, ns, a))
        if a != b:
            chk.disagree(stream, {'op': op, 'params': p, 'sequence': nswire.encode(ns)}, a[:800], b[:800])
        if do_oracle:
            r = oracle(op, p, ns)
            chk.count('oracle', None, False, 'oracle:' + op)
            if r and len(chk.failures) < 25:
                chk.fail('%s: %s' % (op, r), {'op': op, 'params': p, 'sequence': nswire.encode(ns)})
    return reqs, impls, models


def run(chk):
    _libs()
    generate(chk)
    chk.prove(MODULES, THEOREMS, [EXE], extra_trusted=[
        'gen/translit.py (Python->Lean transliteration of the velocity-bin functions)',
        'rne53 as a model of IEEE-754 binary64 arithmetic (three operations of steps_per_bar; validated bit-exactly by the spb stream)',
        'numpy array semantics (zeros, slice assignment with clipping, where) and CPython sorted() stability / tuple order, modelled',
    ])
    chk.prove_bridge([BRIDGE], [(BRIDGE, t) for t in BRIDGE_THEOREMS])
    chk.rule = ('quantized NoteSequences (0-40 notes, 1-3 instruments, pitched/drum/mixed per instrument number, velocities 0..127, '
                'steps generated directly with forced step-0, abutting same-pitch, same-start and gap-boundary notes, same-pitch notes and '
                'chord symbols at distinct times rounded onto one step (both storage orders), or produced by '
                'the real quantizer; chord annotations incl. coincident ones) x every extractor with random parameters from the '
                'quantifier; separate malformed stream. non-trivial = distinct (extractor, parameters, sequence) answered by the model')
    # ---- corpus first
    cases = []
    for name, obj in corpus_cases(PID):
        cases.append((obj['op'], obj['params'], nswire.decode(obj['sequence']), {'corpus:' + name}))
    if cases:
        run_cases(chk, 'corpus', cases)
    # ---- generated streams
    rng = chk.subrng('corr')
    nseq = chk.n(2500, 60000)
    cases = []
    for i in range(nseq):
        rel = rng.random() < 0.65
        hist = set()
        ns = gen_seq(rng, rel, hist)
        for op in (REL_OPS if rel else ABS_OPS):
            reps = 2 if op in ('melody', 'drums', 'perf', 'nperf') else 1
            for _ in range(reps):
                cases.append((op, gen_params(rng, op, ns, False), ns, hist))
        if len(cases) >= 4000:
            run_cases(chk, 'extract', cases)
            cases = []
    reqs, impls, models = run_cases(chk, 'extract', cases) if cases else ([], [], [])
    for k in range(0, min(len(reqs), 40), 9):
        chk.sample({'request': reqs[k][:160] + ' …', 'impl': impls[k][:160], 'model_equal': impls[k] == models[k]})
    rng = chk.subrng('malformed')
    cases = []
    for i in range(chk.n(400, 8000)):
        rel = rng.random() < 0.65
        hist = set()
        ns = gen_malformed(rng, rel, hist)
        ops = (REL_OPS + ABS_OPS) if rng.random() < 0.15 else (REL_OPS if rel else ABS_OPS)
        for op in ops:
            cases.append((op, gen_params(rng, op, ns, True), ns, hist))
    run_cases(chk, 'malformed', cases)


def replay(chk, obj):
    _libs()
    ns = nswire.decode(obj['sequence'])
    op, p = obj['op'], obj['params']
    print('replay C07:', op, p, '| %d notes' % len(ns.notes))
    print('implementation:', run_impl(op, p, ns)[:400])
    r = oracle(op, p, ns)
    print('PROPERTY FAILS: %s' % r if r else 'property holds on this input')
    return 1 if r else 0
