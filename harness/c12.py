"""C12 — results do not depend on the storage order of notes and events (DESIGN 6.12).

Theorems: permutation-invariance corollaries of the functional specifications proved for the other
properties (one `Props/C12_<op>.lean` per operation family).  Tie to the code: each imported model
is driven through its own compiled driver on the original AND on permuted inputs and compared with
the implementation (so the model the corollary is about is checked against the code on exactly the
kind of input the corollary speaks of).  Oracle: the property itself on the implementation —
canonicalised (sorted) outputs of every listed operation on a sequence and on permutations of every
repeated field (always including the REVERSED storage order, which flips every pair).  The generator stays inside the
quantifier (checked exactly by `in_quantifier`) and aims at what makes "the first stored one" visible: near-equal
tempo values, times a few ulps apart, programs / is_drum that disagree inside an instrument, range ends.  Operation
parameters come from a recorded `param_seed` (exact replays).  `corpus/C12/*.json`: {'sequence': wire, optional
'permuted', 'operation', 'param_seeds'} - run under all permutations of every field with <= 4 elements.  `history:*`
streams guard what the comparison relies on (argument unchanged by every call, same result on a second call)."""
import io
import itertools

from harness import nswire
from harness.common import rat

PID = 'C12'
MODULES = ['NoteSeqVerif.Props.C12_quantize']
EXES = ['drv_c01']
THEOREMS = [
    ('NoteSeqVerif.Props.C12_quantize', 'NSV.C12.quantizeNotes_perm'),
    ('NoteSeqVerif.Props.C12_quantize', 'NSV.C12.quantizeAbs_perm'),
    ('NoteSeqVerif.Props.C12_quantize', 'NSV.C12.quantizeRel_perm'),
    ('NoteSeqVerif.Props.C12_quantize', 'NSV.C12.foldl_max_perm'),
    # "keeps the first STORED tempo / time signature" is immaterial because the validation compares exactly; with a
    # tolerance in front of the same tempos[0] the result depends on storage order (seeded C12-10)
    ('NoteSeqVerif.Props.C12_quantize', 'NSV.C12.checkTempos_kept_is_every_stored'),
    ('NoteSeqVerif.Props.C12_quantize', 'NSV.C12.checkTimeSigs_kept_is_every_stored'),
    ('NoteSeqVerif.Props.C12_quantize', 'NSV.C12.tempo_tolerance_depends_on_order'),
    ('NoteSeqVerif.Props.C12_quantize', 'NSV.C12.tempo_exact_rejects_both_orders'),
]
# further operation families register themselves here as their models land: every harness/c12_extra_*.py exposes
# EXTRA = [(lean module, [theorem names], exe or None), ...] and optionally run_streams(chk) (model tie on permuted inputs)
EXTRA = []   # list of (module, [theorems], exe or None)
EXTRA_MODS = []
import glob as _glob
import importlib as _importlib
import os as _os
for _f in sorted(_glob.glob(_os.path.join(_os.path.dirname(__file__), 'c12_extra_*.py'))):
    _m = _importlib.import_module('harness.' + _os.path.basename(_f)[:-3])
    EXTRA.extend(_m.EXTRA)
    EXTRA_MODS.append(_m)


# ----------------------------------------------------------------------------- generator
def ulps(x, k):
    """the double k ulps above (k > 0) / below (k < 0) x"""
    import math
    for _ in range(abs(k)):
        x = math.nextafter(x, math.inf if k > 0 else -math.inf)
    return x


def near_value(rng, x):
    """a double DIFFERENT from x but close to it: 1-3 ulps or 1e-12 ... 1e-5 relative away (both sides of the usual
    'close enough' tolerances 1e-9 / 1e-6) - the values on which an equality test and a tolerance test part ways"""
    k = rng.random()
    if k < 0.4 or x == 0:
        y = ulps(x, rng.choice([1, 2, 3, -1, -2, -3]))
    else:
        y = x * (1 + rng.choice([1, -1]) * rng.choice([1e-12, 1e-10, 1e-9, 1e-7, 5e-7, 9.9e-7, 1e-6, 1.01e-6, 1e-5]))
    return y if y != x else ulps(x, 1)


def gen_noties(rng, max_notes=8, quantizable=False, instruments=3):
    """a NoteSequence satisfying the quantifier: no two same-pitch notes overlap or coincide,
    no two state events of one kind share a time.

    Inside the quantifier the generator goes for the places where a storage-order dependence can hide:
    * values that are "the same for every purpose but equality": tempos whose qpm differ by 1-3 ulps / 1e-12..1e-5
      relative (a validation that tolerates them must not then keep "the first stored one"), event and note times 1-3 ulps
      / 1e-9 apart (distinct, hence inside the quantifier; a rounded sort key would turn them into ties);
    * per-note fields that the code aggregates over all notes of an instrument: MIDI programs that disagree inside one
      instrument (one odd note among >= 3, anywhere in the storage order), is_drum mixed / uniform;
    * both ends of the legal ranges: pitch 0 / 127, velocity 1 / 127, zero-length notes, empty sequence."""
    from note_seq.protobuf import music_pb2
    ns = music_pb2.NoteSequence()
    ns.ticks_per_quarter = 220
    grid = 0.125
    slots = {}
    # program of a note: by instrument (uniform inside an instrument) or, in 30% of the sequences, one of two programs
    # drawn per note (a conflict inside the instrument); drums: per note, or none at all (so that programs matter)
    prog_conflict = rng.random() < 0.3
    no_drums = rng.random() < 0.4
    if rng.random() < 0.25:
        instruments = 1
    for _ in range(rng.randrange(0, max_notes + 1)):
        pitch = rng.choice([60, 60, 62, 64, 36, 38, rng.randrange(30, 100), rng.choice([0, 127, 1, 126])])
        cur = slots.get(pitch, 0)
        start = (cur + rng.randrange(0, 6)) * grid
        length = rng.randrange(1, 8) * grid
        k = rng.random()
        if k < 0.3:
            start += rng.random() * 0.05
        elif k < 0.45:
            # near-coincidence with whatever else sits on this grid point: a few ulps / 1e-9 later
            start = ulps(start, rng.choice([1, 2, 3])) if rng.random() < 0.6 else start + rng.choice([1e-9, 1e-7, 1e-6])
        zero = rng.random() < 0.06
        if zero:
            length = 0.0
        n = ns.notes.add()
        n.pitch, n.velocity = pitch, rng.choice([100, 64, 30, 1, 127, rng.randrange(1, 128)])
        n.start_time, n.end_time = start, start + length
        n.instrument = rng.randrange(instruments)
        n.program = [0, 5, 40][n.instrument % 3]
        if prog_conflict:
            n.program = rng.choice([n.program, n.program, 17])
        n.is_drum = (not no_drums) and pitch in (36, 38) and rng.random() < 0.7
        n.voice = rng.randrange(10000)
        slots[pitch] = int((start + length) / grid) + 1 + rng.choice([0, 0, 0, 1, 2])  # abut sometimes (gap 0 excluded: +1)
        if rng.random() < 0.35 and not zero:
            slots[pitch] = int(round((start + length) / grid))   # abutting (touching, not overlapping)
            if slots[pitch] * grid < start + length:
                slots[pitch] += 1
    end = max([n.end_time for n in ns.notes] + [1.0])

    def times(k):
        ts = rng.sample([i * 0.25 for i in range(0, int(end * 4) + 2)], min(k, int(end * 4) + 2))
        if len(ts) >= 2 and rng.random() < 0.2:
            # two events of one kind a few ulps / 1e-9 s apart (distinct times: still inside the quantifier)
            i, j = rng.sample(range(len(ts)), 2)
            t = ulps(ts[j], rng.choice([1, 2, 3])) if rng.random() < 0.6 else ts[j] + rng.choice([1e-9, 1e-7, 1e-6])
            if t not in ts:
                ts[i] = t
        return ts
    if quantizable:
        qpm = rng.choice([120.0, 90.0, 60.0])
        near = rng.random() < 0.25         # near-equal (never equal) qpm values: a tempo change, whatever the storage order
        for j, t in enumerate(times(max(2, rng.choice([2, 3])) if near else rng.choice([0, 1, 2, 3]))):
            x = ns.tempos.add(); x.time, x.qpm = t, (near_value(rng, qpm) if near and j and rng.random() < 0.8 else qpm)
        if ns.tempos and (qpm != 120.0 or near) and all(t.time != 0 for t in ns.tempos):
            ns.tempos[rng.randrange(len(ns.tempos)) if near else 0].time = 0.0
        sig = rng.choice([(4, 4), (3, 4), (6, 8)])
        for t in times(rng.choice([0, 1, 2])):
            x = ns.time_signatures.add(); x.time, x.numerator, x.denominator = t, sig[0], sig[1]
        if ns.time_signatures and sig != (4, 4) and all(t.time != 0 for t in ns.time_signatures):
            ns.time_signatures[0].time = 0.0
    else:
        pool = [120.0, 90.0, 60.0, 150.0]
        for t in times(rng.choice([0, 1, 2, 3])):
            x = ns.tempos.add(); x.time, x.qpm = t, rng.choice(pool)
            if rng.random() < 0.3:
                pool.append(near_value(rng, x.qpm))
        for t in times(rng.choice([0, 1, 2])):
            x = ns.time_signatures.add(); x.time = t; x.numerator, x.denominator = rng.choice([(4, 4), (3, 4), (6, 8)])
    for t in times(rng.choice([0, 1, 2])):
        x = ns.key_signatures.add(); x.time, x.key, x.mode = t, rng.randrange(12), rng.choice([0, 1])
    for t in times(rng.choice([0, 1, 3])):
        x = ns.text_annotations.add(); x.time, x.annotation_type = t, 1
        x.text = rng.choice(['C', 'Am', 'G7', 'F', 'N.C.', 'Dm7'])
    for t in times(rng.choice([0, 0, 2])):
        x = ns.text_annotations.add(); x.time, x.annotation_type, x.text = t + 0.01, 2, ''
    for inst in range(instruments):
        for t in times(rng.choice([0, 0, 2, 4])):
            x = ns.control_changes.add()
            x.time, x.control_number, x.control_value, x.instrument = t + 0.001 * inst, 64, rng.choice([0, 127, 64, 63]), inst
            x.program = [0, 5, 40][inst % 3]
    for t in times(rng.choice([0, 0, 2])):
        x = ns.pitch_bends.add(); x.time, x.bend, x.instrument = t, rng.randrange(-8192, 8192), rng.randrange(instruments)
        x.program = [0, 5, 40][x.instrument % 3]
    ns.total_time = max([n.end_time for n in ns.notes] + [0.0]) if rng.random() < 0.7 else end + 0.5
    return ns


def in_quantifier(ns):
    """the property's quantifier, evaluated exactly on the doubles: no two same-pitch notes overlap or coincide, no two
    state events of one kind share a time (chord symbols / beats per annotation type, pedal events and pitch bends per
    instrument)"""
    from fractions import Fraction as F
    by = {}
    for n in ns.notes:
        by.setdefault(n.pitch, []).append((F(n.start_time), F(n.end_time)))
    for g in by.values():
        g.sort()
        for (a, b), (c, d) in zip(g, g[1:]):
            if a == c or b > c:
                return False
    kinds = [[F(x.time) for x in ns.tempos], [F(x.time) for x in ns.time_signatures], [F(x.time) for x in ns.key_signatures]]
    d = {}
    for x in ns.text_annotations:
        d.setdefault(('text', x.annotation_type), []).append(F(x.time))
    for x in ns.control_changes:
        d.setdefault(('cc', x.instrument, x.control_number), []).append(F(x.time))
    for x in ns.pitch_bends:
        d.setdefault(('bend', x.instrument), []).append(F(x.time))
    return all(len(set(k)) == len(k) for k in kinds + list(d.values()))


def canon_ns(ns):
    """multiset view of a NoteSequence: every repeated field sorted."""
    t = nswire.encode(ns).split(' ')
    # re-encode field by field through the wire decoder-free route: sort rows of each container
    out, p = t[:10], 10
    for width in (14, 2, 3, 3, 4, 7, 5, 2):
        n = int(t[p]); p += 1
        rows = sorted(tuple(t[p + j * width: p + (j + 1) * width]) for j in range(n))
        p += n * width
        out.append((n, tuple(rows)))
    out.append(tuple(t[p:]))
    return tuple(out)


def canon_result(r):
    from note_seq.protobuf import music_pb2
    if isinstance(r, music_pb2.NoteSequence):
        return canon_ns(r)
    if isinstance(r, (list, tuple)):
        return tuple(canon_result(x) for x in r)
    return r


def call(f, *a, **kw):
    try:
        return ('ok', canon_result(f(*a, **kw)))
    except Exception as e:  # pylint: disable=broad-except
        return ('err', type(e).__name__)


def canon_midi(pm):
    insts = sorted((i.program, i.is_drum,
                    tuple(sorted((n.pitch, n.velocity, n.start, n.end) for n in i.notes)),
                    tuple(sorted((b.pitch, b.time) for b in i.pitch_bends)),
                    tuple(sorted((c.number, c.value, c.time) for c in i.control_changes))) for i in pm.instruments)
    return (tuple(insts), pm.resolution, tuple(pm._tick_scales),  # pylint: disable=protected-access
            tuple(sorted((k.key_number, k.time) for k in pm.key_signature_changes)),
            tuple(sorted((t.numerator, t.denominator, t.time) for t in pm.time_signature_changes)))


def operations(rng, ns, quant_ok):
    """(name, thunk taking a sequence) for every operation family of the statement."""
    from note_seq import sequences_lib as sl, midi_io
    from note_seq import melodies_lib, drums_lib, chords_lib, pianoroll_lib, performance_lib
    import numpy as np
    ops = []
    sps = rng.choice([4, 8, 10, 100])
    ops.append(('quantize_abs', lambda s: call(sl.quantize_note_sequence_absolute, s, sps)))
    spq = rng.choice([1, 2, 4, 8])
    ops.append(('quantize_rel', lambda s: call(sl.quantize_note_sequence, s, spq)))
    a = rng.choice([0.0, 0.25, 0.5, 1.0]); b = a + rng.choice([0.5, 1.0, 2.0, 10.0])
    ops.append(('extract', lambda s: call(sl.extract_subsequence, s, a, b)))
    ops.append(('trim', lambda s: call(sl.trim_note_sequence, s, a, b)))
    hop = rng.choice([0.5, 1.0, 1.5])
    ops.append(('split_hop', lambda s: call(sl.split_note_sequence, s, hop)))
    ops.append(('split_time_changes', lambda s: call(sl.split_note_sequence_on_time_changes, s)))
    gap = rng.choice([0.25, 0.5, 1.0])
    ops.append(('split_silence', lambda s: call(sl.split_note_sequence_on_silence, s, gap)))
    ops.append(('sustain', lambda s: call(sl.apply_sustain_control_changes, s)))
    k = rng.randrange(-12, 13)
    ops.append(('transpose', lambda s: call(lambda x: sl.transpose_note_sequence(x, k)[0], s)))
    f = rng.choice([0.5, 1.5, 2.0, 0.9])
    ops.append(('stretch', lambda s: call(sl.stretch_note_sequence, s, f)))
    ops.append(('midi_export', lambda s: call(lambda x: canon_midi(midi_io.note_sequence_to_pretty_midi(x)), s)))
    # the export's only option: events later than n seconds after the LATEST note end are dropped
    drop = rng.choice([0, 0, 0.25, 0.5, 1.0])
    ops.append(('midi_export_drop', lambda s: call(lambda x: canon_midi(midi_io.note_sequence_to_pretty_midi(
        x, drop_events_n_seconds_after_last_note=drop)), s)))
    fps = rng.choice([8, 16, 31.25, 100])

    def roll(s):
        r = sl.sequence_to_pianoroll(s, fps, 21, 108)
        return tuple(np.asarray(x).tobytes() for x in r)
    ops.append(('pianoroll', lambda s: call(roll, s)))
    rkw = dict(onset_mode=rng.choice(['window', 'length_ms']), onset_window=rng.choice([0, 1, 2]),
               onset_length_ms=rng.choice([0, 32, 100]), offset_length_ms=rng.choice([0, 32, 100]),
               onset_delay_ms=rng.choice([0, 0, 30, -30]), min_frame_occupancy_for_label=rng.choice([0.0, 0.0, 0.5, 1.0]),
               onset_overlap=rng.random() < 0.7, add_blank_frame_before_onset=rng.random() < 0.4)

    def roll_kw(s):
        r = sl.sequence_to_pianoroll(s, fps, 30, 100, **rkw)
        return tuple(np.asarray(x).tobytes() for x in r)
    ops.append(('pianoroll_options', lambda s: call(roll_kw, s)))
    ops.append(('split_times', lambda s: call(sl.split_note_sequence, s, [a + 0.25, b])))
    ops.append(('split_hop_inside', lambda s: call(sl.split_note_sequence, s, hop, True)))
    lo, hi = rng.choice([(0, 127), (40, 80), (60, 72)])
    ops.append(('transpose_range', lambda s: call(lambda x: sl.transpose_note_sequence(x, k, lo, hi)[0], s)))
    ops.append(('sustain_other_cc', lambda s: call(sl.apply_sustain_control_changes, s, 63)))
    ops.append(('transpose_nochords', lambda s: call(lambda x: sl.transpose_note_sequence(x, k, transpose_chords=False)[0], s)))
    ops.append(('split_time_changes_inside', lambda s: call(sl.split_note_sequence_on_time_changes, s, True)))
    def perf_view(p, **kw):
        """everything observable about a performance object: events, inferred program / is_drum, start step, and the
        NoteSequence it converts back to (which stamps the inferred program / is_drum on every note)"""
        try:
            back = canon_ns(p.to_sequence(**kw))
        except Exception as e:  # pylint: disable=broad-except
            back = type(e).__name__
        ev = tuple((e.event_type, e.event_value) if hasattr(e, 'event_type') else tuple((x.event_type, x.event_value) for x in e)
                   for e in p)
        return (ev, p.program, p.is_drum, p.start_step, back)

    nbins = rng.choice([0, 4, 8, 127])
    abs_sps = rng.choice([100, 100, 10, 31])

    def performances_abs(s):
        qa = sl.quantize_note_sequence_absolute(s, abs_sps)
        out = []
        for inst in (None, 0, 1, 2):
            p = performance_lib.Performance(quantized_sequence=qa, num_velocity_bins=nbins, instrument=inst)
            out.append(('performance', inst, perf_view(p)))
            try:
                p = performance_lib.NotePerformance(qa, max(nbins, 1), instrument=inst)
                out.append(('note_performance', inst, perf_view(p)))
            except Exception as e:  # pylint: disable=broad-except
                out.append(('note_performance', inst, type(e).__name__))
        return tuple(out)
    ops.append(('performance_abs', lambda s: call(performances_abs, s)))
    if quant_ok:
        def extract_events(s):
            q = sl.quantize_note_sequence(s, spq)
            out = []
            for inst in range(3):
                for kw in (dict(ignore_polyphonic_notes=True), dict(ignore_polyphonic_notes=False)):
                    m = melodies_lib.Melody()
                    try:
                        m.from_quantized_sequence(q, instrument=inst, **kw)
                        out.append(('melody', inst, tuple(m), m.start_step, m.end_step, m.steps_per_bar, m.steps_per_quarter))
                    except Exception as e:  # pylint: disable=broad-except
                        out.append(('melody', inst, type(e).__name__))
                d = drums_lib.DrumTrack()
                try:
                    d.from_quantized_sequence(q)
                    out.append(('drums', tuple(tuple(sorted(e)) for e in d), d.start_step, d.end_step, d.steps_per_bar, d.steps_per_quarter))
                except Exception as e:  # pylint: disable=broad-except
                    out.append(('drums', type(e).__name__))
            c = chords_lib.ChordProgression()
            try:
                c.from_quantized_sequence(q, 0, max(q.total_quantized_steps, 1))
                out.append(('chords', tuple(c), c.start_step, c.end_step, c.steps_per_bar, c.steps_per_quarter))
            except Exception as e:  # pylint: disable=broad-except
                out.append(('chords', type(e).__name__))
            for sr in (False, True):
                p = pianoroll_lib.PianorollSequence(quantized_sequence=q, split_repeats=sr)
                out.append(('pianoroll_seq', sr, tuple(tuple(int(x) for x in e) for e in p), p.start_step))
            for nv in (0, 8):
                for inst in (None, 0, 1):
                    p = performance_lib.MetricPerformance(quantized_sequence=q, num_velocity_bins=nv, instrument=inst)
                    out.append(('metric_performance', nv, inst, perf_view(p)))
            return tuple(out)
        ops.append(('event_extraction', lambda s: call(extract_events, s)))
    return ops


def reversed_all(ns):
    """a copy with every repeated field in REVERSE storage order (flips every pair: whatever depends on which of two
    elements is stored first shows up deterministically, not with probability 1/2 per shuffle)"""
    from note_seq.protobuf import music_pb2
    c = music_pb2.NoteSequence()
    c.CopyFrom(ns)
    for f in ('notes', 'tempos', 'time_signatures', 'key_signatures', 'text_annotations', 'control_changes', 'pitch_bends'):
        items = list(getattr(c, f))[::-1]
        c.ClearField(f)
        getattr(c, f).extend(items)
    return c


def permutations_of(ns, rng, k, exhaustive_notes):
    from note_seq.protobuf import music_pb2
    outs = [reversed_all(ns)] + [nswire.shuffled(ns, rng) for _ in range(k)]
    if exhaustive_notes and 2 <= len(ns.notes) <= 5:
        notes = list(ns.notes)
        for perm in itertools.permutations(range(len(notes))):
            c = music_pb2.NoteSequence()
            c.CopyFrom(ns)
            del c.notes[:]
            c.notes.extend([notes[i] for i in perm])
            outs.append(c)
    return outs


def judge(chk, ns, perms, pseed, quant_ok, tag, count_key=None):
    """the property itself on the implementation: every operation family (parameters drawn from `pseed`) on `ns` and on
    every sequence of `perms` (same bag, other storage order) must give the same canonical result.  Also guarded, because
    the comparison relies on it: an operation leaves its argument byte-for-byte unchanged (also when it raises) and gives
    the same result when called twice on the same argument."""
    import random
    before = ns.SerializeToString(deterministic=True)
    pbefore = [p.SerializeToString(deterministic=True) for p in perms]
    bad = 0
    for name, f in operations(random.Random(pseed), ns, quant_ok):
        base = f(ns)
        if count_key is not None:
            chk.count('impl:' + name, (count_key, name), base[0] == 'ok', base[0] if base[0] == 'ok' else 'err:' + base[1])
        if f(ns) != base:
            chk.disagree('history:' + name, {'operation': name, 'param_seed': pseed, 'sequence': nswire.encode(ns)},
                         'second call on the same argument', 'differs from the first')
        for p in perms:
            r = f(p)
            if r != base:
                chk.fail('%s: result depends on storage order%s' % (name, tag),
                         {'operation': name, 'param_seed': pseed, 'sequence': nswire.encode(ns), 'permuted': nswire.encode(p)})
                bad += 1
                break
        if ns.SerializeToString(deterministic=True) != before or any(
                p.SerializeToString(deterministic=True) != b for p, b in zip(perms, pbefore)):
            chk.disagree('history:' + name, {'operation': name, 'param_seed': pseed, 'sequence': nswire.encode(ns)},
                         'argument modified in place', 'argument unchanged')
            ns.ParseFromString(before)
            for p, b in zip(perms, pbefore):
                p.ParseFromString(b)
    return bad


def small_field_permutations(ns, limit=24):
    """every permutation of each repeated field with 2..4 elements (one field at a time) - for corpus cases"""
    from note_seq.protobuf import music_pb2
    outs = []
    for f in ('notes', 'tempos', 'time_signatures', 'key_signatures', 'text_annotations', 'control_changes', 'pitch_bends'):
        items = list(getattr(ns, f))
        if 2 <= len(items) <= 4:
            for perm in list(itertools.permutations(range(len(items))))[1:limit]:
                c = music_pb2.NoteSequence()
                c.CopyFrom(ns)
                c.ClearField(f)
                getattr(c, f).extend([items[i] for i in perm])
                outs.append(c)
    return outs


def run(chk):
    import warnings
    warnings.filterwarnings('ignore')
    from absl import logging as absl_logging
    absl_logging.set_verbosity(absl_logging.ERROR)
    from note_seq import sequences_lib as sl
    from harness.common import corpus_cases
    mods = list(MODULES) + [m for m, _, _ in EXTRA]
    thms = list(THEOREMS) + [(m, t) for m, ts, _ in EXTRA for t in ts]
    exes = list(EXES) + [e for _, _, e in EXTRA if e]
    chk.prove(mods, thms, exes, extra_trusted=[
        'the functional models imported from the other properties (tied to the code by their own checks and re-checked here on permuted inputs)',
        'protobuf repeated-field semantics; CPython sorted() stability'])
    chk.rule = ('NoteSequences satisfying the quantifier (no same-pitch notes overlap or coincide, no two state events of one kind '
                'share a time; incl. near-equal tempos / times 1-3 ulps apart, conflicting programs inside an instrument, range ends) '
                'x the reversed storage order and random permutations of every repeated field (thorough: plus ALL note permutations '
                'for <= 5 notes) x every operation family of the statement; non-trivial = distinct (sequence, operation) with a '
                'non-error result')
    model_reqs, model_impl = [], []

    def tie(p):
        for mode, res in (('abs', 8), ('rel', 4)):
            model_reqs.append('%s %d %s' % (mode, res, nswire.encode(p)))
            fn = sl.quantize_note_sequence if mode == 'rel' else sl.quantize_note_sequence_absolute
            model_impl.append(nswire.result_line(fn, p, res))

    # ---- corpus: minimised regression inputs (every permutation of every small field, several parameter draws)
    for name, obj in corpus_cases(PID):
        ns = nswire.decode(obj['sequence'])
        perms = [reversed_all(ns)] + small_field_permutations(ns)
        if obj.get('permuted'):
            perms.insert(0, nswire.decode(obj['permuted']))
        inq = in_quantifier(ns)
        chk.count('corpus', name, inq, 'in-quantifier:%s' % inq)
        for pseed in obj.get('param_seeds', [0, 1]):
            judge(chk, ns, perms, pseed, True, ' (corpus:%s)' % name)
        for p in [ns] + perms[:3]:
            tie(p)

    rng = chk.subrng('perm')
    n_seq = chk.n(160, 1500)
    for i in range(n_seq):
        quant_ok = rng.random() < 0.6
        ns = gen_noties(rng, max_notes=rng.choice([2, 4, 5, 8, 16]), quantizable=quant_ok)
        perms = permutations_of(ns, rng, chk.n(2, 3), chk.thorough and i % 10 == 0)
        pseed = rng.randrange(1 << 30)
        if not in_quantifier(ns):
            chk.count('impl:generator-outside-quantifier', i, False, 'skipped')
            continue
        judge(chk, ns, perms, pseed, quant_ok, '', count_key=i)
        # model tie on permuted inputs (quantize family: drv_c01)
        for p in [ns] + perms[:2]:
            tie(p)
        if i < 3:
            import random
            chk.sample({'sequence': nswire.encode(ns)[:400] + ' …',
                        'operations': [n for n, _ in operations(random.Random(pseed), ns, quant_ok)]})
        if len(chk.failures) > 10:
            break
    for m in EXTRA_MODS:
        if hasattr(m, 'run_streams'):
            m.run_streams(chk)
    out = chk.driver('drv_c01', model_reqs)
    for req, a, b in zip(model_reqs, model_impl, out):
        chk.count('model:quantize', req[:1500], b != 'bad-op', a.split()[0])
        if a != b:
            chk.disagree('model:quantize', req[:3000], a[:500], b[:500])


def replay(chk, obj):
    import random
    if 'event_op' in obj or 'sustain_ctl' in obj:      # found by the model-tie streams of c12_extra_b
        from harness import c12_extra_b
        return c12_extra_b.replay_model_stream(chk, obj)
    if 'extraction' in obj:      # tie-break stream of c12_extra_b (chord extraction over a later step range)
        from harness import c12_extra_b
        return c12_extra_b.replay(chk, obj)
    ns = nswire.decode(obj['sequence'])
    perms = [nswire.decode(obj['permuted'])] if obj.get('permuted') else [reversed_all(ns)] + small_field_permutations(ns)
    name = obj.get('operation')
    seeds = [obj['param_seed']] if 'param_seed' in obj else list(obj.get('param_seeds', range(40)))
    print('replay C12: %d notes, %d tempos; in quantifier: %s; %d other storage order(s); operation %s' % (
        len(ns.notes), len(ns.tempos), in_quantifier(ns), len(perms), name or '(all)'))
    bad = False
    for seed in seeds:
        for n, f in operations(random.Random(seed), ns, True):
            if name not in (None, n):
                continue
            base = f(ns)
            for p in perms:
                r = f(p)
                if r != base:
                    print('operation %s differs between the two storage orders (parameter seed %d)' % (n, seed))
                    print('   stored order : %s' % _diff_view(base, r))
                    print('   other order  : %s' % _diff_view(r, base))
                    bad = True
                    break
            if bad:
                break
        if bad:
            break
    print('PROPERTY FAILS' if bad else 'property holds on this input')
    return 1 if bad else 0


def _diff_view(a, b):
    """the first place where two canonical results differ, shortened"""
    def walk(x, y, path):
        if isinstance(x, tuple) and isinstance(y, tuple) and len(x) == len(y):
            for i, (u, v) in enumerate(zip(x, y)):
                if u != v:
                    return walk(u, v, path + [i])
        return path, x
    path, x = walk(a, b, [])
    return 'at %s: %s' % (path, repr(x)[:300])
