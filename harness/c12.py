"""C12 — results do not depend on the storage order of notes and events (DESIGN 6.12).

Theorems: permutation-invariance corollaries of the functional specifications proved for the other
properties (one `Props/C12_<op>.lean` per operation family).  Tie to the code: each imported model
is driven through its own compiled driver on the original AND on permuted inputs and compared with
the implementation (so the model the corollary is about is checked against the code on exactly the
kind of input the corollary speaks of).  Oracle: the property itself on the implementation —
canonicalised (sorted) outputs of every listed operation on a sequence and on permutations of every
repeated field."""
import io
import itertools

from harness import nswire
from harness.common import rat

PID = 'C12'
MODULES = ['NoteSeqVerif.Props.C12_quantize']
EXES = ['drv_c01']
THEOREMS = [
    ('NoteSeqVerif.Props.C12_quantize', 'NSV.C12.quantizeNotes_perm'),
    ('NoteSeqVerif.Props.C12_quantize', 'NSV.C12.quantizeAbs_perm'),
    ('NoteSeqVerif.Props.C12_quantize', 'NSV.C12.quantizeRel_perm'),
    ('NoteSeqVerif.Props.C12_quantize', 'NSV.C12.foldl_max_perm'),
]
# further operation families register themselves here as their models land: every harness/c12_extra_*.py exposes
# EXTRA = [(lean module, [theorem names], exe or None), ...] and optionally run_streams(chk) (model tie on permuted inputs)
EXTRA = []   # list of (module, [theorems], exe or None)
EXTRA_MODS = []
import glob as _glob
import importlib as _importlib
import os as _os
for _f in sorted(_glob.glob(_os.path.join(_os.path.dirname(__file__), 'c12_extra_*.py'))):
    _m = _importlib.import_module('harness.' + _os.path.basename(_f)[:-3])
    EXTRA.extend(_m.EXTRA)
    EXTRA_MODS.append(_m)


# ----------------------------------------------------------------------------- generator
def gen_noties(rng, max_notes=8, quantizable=False, instruments=3):
    """a NoteSequence satisfying the quantifier: no two same-pitch notes overlap or coincide,
    no two state events of one kind share a time."""
    from note_seq.protobuf import music_pb2
    ns = music_pb2.NoteSequence()
    ns.ticks_per_quarter = 220
    grid = 0.125
    slots = {}
    for _ in range(rng.randrange(0, max_notes + 1)):
        pitch = rng.choice([60, 60, 62, 64, 36, 38, rng.randrange(30, 100)])
        cur = slots.get(pitch, 0)
        start = (cur + rng.randrange(0, 6)) * grid
        length = rng.randrange(1, 8) * grid
        if rng.random() < 0.3:
            start += rng.random() * 0.05
        n = ns.notes.add()
        n.pitch, n.velocity = pitch, rng.choice([100, 64, 30, rng.randrange(1, 128)])
        n.start_time, n.end_time = start, start + length
        n.instrument = rng.randrange(instruments)
        n.program = [0, 5, 40][n.instrument % 3]
        n.is_drum = pitch in (36, 38) and rng.random() < 0.7
        n.voice = rng.randrange(10000)
        slots[pitch] = int((start + length) / grid) + 1 + rng.choice([0, 0, 0, 1, 2])  # abut sometimes (gap 0 excluded: +1)
        if rng.random() < 0.35:
            slots[pitch] = int(round((start + length) / grid))   # abutting (touching, not overlapping)
            if slots[pitch] * grid < start + length:
                slots[pitch] += 1
    end = max([n.end_time for n in ns.notes] + [1.0])

    def times(k):
        return rng.sample([i * 0.25 for i in range(0, int(end * 4) + 2)], min(k, int(end * 4) + 2))
    if quantizable:
        qpm = rng.choice([120.0, 90.0, 60.0])
        for t in times(rng.choice([0, 1, 2, 3])):
            x = ns.tempos.add(); x.time, x.qpm = t, qpm
        if ns.tempos and qpm != 120.0 and all(t.time != 0 for t in ns.tempos):
            ns.tempos[0].time = 0.0
        sig = rng.choice([(4, 4), (3, 4), (6, 8)])
        for t in times(rng.choice([0, 1, 2])):
            x = ns.time_signatures.add(); x.time, x.numerator, x.denominator = t, sig[0], sig[1]
        if ns.time_signatures and sig != (4, 4) and all(t.time != 0 for t in ns.time_signatures):
            ns.time_signatures[0].time = 0.0
    else:
        for t in times(rng.choice([0, 1, 2, 3])):
            x = ns.tempos.add(); x.time, x.qpm = t, rng.choice([120.0, 90.0, 60.0, 150.0])
        for t in times(rng.choice([0, 1, 2])):
            x = ns.time_signatures.add(); x.time = t; x.numerator, x.denominator = rng.choice([(4, 4), (3, 4), (6, 8)])
    for t in times(rng.choice([0, 1, 2])):
        x = ns.key_signatures.add(); x.time, x.key, x.mode = t, rng.randrange(12), rng.choice([0, 1])
    for t in times(rng.choice([0, 1, 3])):
        x = ns.text_annotations.add(); x.time, x.annotation_type = t, 1
        x.text = rng.choice(['C', 'Am', 'G7', 'F', 'N.C.', 'Dm7'])
    for t in times(rng.choice([0, 0, 2])):
        x = ns.text_annotations.add(); x.time, x.annotation_type, x.text = t + 0.01, 2, ''
    for inst in range(instruments):
        for t in times(rng.choice([0, 0, 2, 4])):
            x = ns.control_changes.add()
            x.time, x.control_number, x.control_value, x.instrument = t + 0.001 * inst, 64, rng.choice([0, 127, 64, 63]), inst
            x.program = [0, 5, 40][inst % 3]
    for t in times(rng.choice([0, 0, 2])):
        x = ns.pitch_bends.add(); x.time, x.bend, x.instrument = t, rng.randrange(-8192, 8192), rng.randrange(instruments)
        x.program = [0, 5, 40][x.instrument % 3]
    ns.total_time = max([n.end_time for n in ns.notes] + [0.0]) if rng.random() < 0.7 else end + 0.5
    return ns


def canon_ns(ns):
    """multiset view of a NoteSequence: every repeated field sorted."""
    t = nswire.encode(ns).split(' ')
    # re-encode field by field through the wire decoder-free route: sort rows of each container
    out, p = t[:10], 10
    for width in (14, 2, 3, 3, 4, 7, 5, 2):
        n = int(t[p]); p += 1
        rows = sorted(tuple(t[p + j * width: p + (j + 1) * width]) for j in range(n))
        p += n * width
        out.append((n, tuple(rows)))
    out.append(tuple(t[p:]))
    return tuple(out)


def canon_result(r):
    from note_seq.protobuf import music_pb2
    if isinstance(r, music_pb2.NoteSequence):
        return canon_ns(r)
    if isinstance(r, (list, tuple)):
        return tuple(canon_result(x) for x in r)
    return r


def call(f, *a, **kw):
    try:
        return ('ok', canon_result(f(*a, **kw)))
    except Exception as e:  # pylint: disable=broad-except
        return ('err', type(e).__name__)


def canon_midi(pm):
    insts = sorted((i.program, i.is_drum,
                    tuple(sorted((n.pitch, n.velocity, n.start, n.end) for n in i.notes)),
                    tuple(sorted((b.pitch, b.time) for b in i.pitch_bends)),
                    tuple(sorted((c.number, c.value, c.time) for c in i.control_changes))) for i in pm.instruments)
    return (tuple(insts), tuple(pm._tick_scales),  # pylint: disable=protected-access
            tuple(sorted((k.key_number, k.time) for k in pm.key_signature_changes)),
            tuple(sorted((t.numerator, t.denominator, t.time) for t in pm.time_signature_changes)))


def operations(rng, ns, quant_ok):
    """(name, thunk taking a sequence) for every operation family of the statement."""
    from note_seq import sequences_lib as sl, midi_io
    from note_seq import melodies_lib, drums_lib, chords_lib, pianoroll_lib, performance_lib
    import numpy as np
    ops = []
    sps = rng.choice([4, 8, 10, 100])
    ops.append(('quantize_abs', lambda s: call(sl.quantize_note_sequence_absolute, s, sps)))
    spq = rng.choice([1, 2, 4, 8])
    ops.append(('quantize_rel', lambda s: call(sl.quantize_note_sequence, s, spq)))
    a = rng.choice([0.0, 0.25, 0.5, 1.0]); b = a + rng.choice([0.5, 1.0, 2.0, 10.0])
    ops.append(('extract', lambda s: call(sl.extract_subsequence, s, a, b)))
    ops.append(('trim', lambda s: call(sl.trim_note_sequence, s, a, b)))
    hop = rng.choice([0.5, 1.0, 1.5])
    ops.append(('split_hop', lambda s: call(sl.split_note_sequence, s, hop)))
    ops.append(('split_time_changes', lambda s: call(sl.split_note_sequence_on_time_changes, s)))
    gap = rng.choice([0.25, 0.5, 1.0])
    ops.append(('split_silence', lambda s: call(sl.split_note_sequence_on_silence, s, gap)))
    ops.append(('sustain', lambda s: call(sl.apply_sustain_control_changes, s)))
    k = rng.randrange(-12, 13)
    ops.append(('transpose', lambda s: call(lambda x: sl.transpose_note_sequence(x, k)[0], s)))
    f = rng.choice([0.5, 1.5, 2.0, 0.9])
    ops.append(('stretch', lambda s: call(sl.stretch_note_sequence, s, f)))
    ops.append(('midi_export', lambda s: call(lambda x: canon_midi(midi_io.note_sequence_to_pretty_midi(x)), s)))
    # the export's only option: events later than n seconds after the LATEST note end are dropped
    drop = rng.choice([0, 0, 0.25, 0.5, 1.0])
    ops.append(('midi_export_drop', lambda s: call(lambda x: canon_midi(midi_io.note_sequence_to_pretty_midi(
        x, drop_events_n_seconds_after_last_note=drop)), s)))
    fps = rng.choice([8, 16, 31.25, 100])

    def roll(s):
        r = sl.sequence_to_pianoroll(s, fps, 21, 108)
        return tuple(np.asarray(x).tobytes() for x in r)
    ops.append(('pianoroll', lambda s: call(roll, s)))
    rkw = dict(onset_mode=rng.choice(['window', 'length_ms']), onset_window=rng.choice([0, 1, 2]),
               onset_length_ms=rng.choice([0, 32, 100]), offset_length_ms=rng.choice([0, 32, 100]),
               onset_delay_ms=rng.choice([0, 0, 30, -30]), min_frame_occupancy_for_label=rng.choice([0.0, 0.0, 0.5, 1.0]),
               onset_overlap=rng.random() < 0.7, add_blank_frame_before_onset=rng.random() < 0.4)

    def roll_kw(s):
        r = sl.sequence_to_pianoroll(s, fps, 30, 100, **rkw)
        return tuple(np.asarray(x).tobytes() for x in r)
    ops.append(('pianoroll_options', lambda s: call(roll_kw, s)))
    ops.append(('split_times', lambda s: call(sl.split_note_sequence, s, [a + 0.25, b])))
    ops.append(('split_hop_inside', lambda s: call(sl.split_note_sequence, s, hop, True)))
    lo, hi = rng.choice([(0, 127), (40, 80), (60, 72)])
    ops.append(('transpose_range', lambda s: call(lambda x: sl.transpose_note_sequence(x, k, lo, hi)[0], s)))
    ops.append(('sustain_other_cc', lambda s: call(sl.apply_sustain_control_changes, s, 63)))
    ops.append(('transpose_nochords', lambda s: call(lambda x: sl.transpose_note_sequence(x, k, transpose_chords=False)[0], s)))
    ops.append(('split_time_changes_inside', lambda s: call(sl.split_note_sequence_on_time_changes, s, True)))
    if quant_ok:
        def extract_events(s):
            q = sl.quantize_note_sequence(s, spq)
            out = []
            for inst in range(3):
                for kw in (dict(ignore_polyphonic_notes=True), dict(ignore_polyphonic_notes=False)):
                    m = melodies_lib.Melody()
                    try:
                        m.from_quantized_sequence(q, instrument=inst, **kw)
                        out.append(('melody', inst, tuple(m), m.start_step, m.end_step))
                    except Exception as e:  # pylint: disable=broad-except
                        out.append(('melody', inst, type(e).__name__))
                d = drums_lib.DrumTrack()
                try:
                    d.from_quantized_sequence(q)
                    out.append(('drums', tuple(tuple(sorted(e)) for e in d), d.start_step))
                except Exception as e:  # pylint: disable=broad-except
                    out.append(('drums', type(e).__name__))
            c = chords_lib.ChordProgression()
            try:
                c.from_quantized_sequence(q, 0, max(q.total_quantized_steps, 1))
                out.append(('chords', tuple(c)))
            except Exception as e:  # pylint: disable=broad-except
                out.append(('chords', type(e).__name__))
            for sr in (False, True):
                p = pianoroll_lib.PianorollSequence(quantized_sequence=q, split_repeats=sr)
                out.append(('pianoroll_seq', sr, tuple(tuple(int(x) for x in e) for e in p)))
            for nv in (0, 8):
                p = performance_lib.MetricPerformance(quantized_sequence=q, num_velocity_bins=nv)
                out.append(('metric_performance', nv, tuple((e.event_type, e.event_value) for e in p)))
            qa = sl.quantize_note_sequence_absolute(s, 100)
            p = performance_lib.Performance(quantized_sequence=qa, num_velocity_bins=4)
            out.append(('performance', tuple((e.event_type, e.event_value) for e in p)))
            return tuple(out)
        ops.append(('event_extraction', lambda s: call(extract_events, s)))
    return ops


def permutations_of(ns, rng, k, exhaustive_notes):
    from note_seq.protobuf import music_pb2
    outs = [nswire.shuffled(ns, rng) for _ in range(k)]
    if exhaustive_notes and 2 <= len(ns.notes) <= 5:
        notes = list(ns.notes)
        for perm in itertools.permutations(range(len(notes))):
            c = music_pb2.NoteSequence()
            c.CopyFrom(ns)
            del c.notes[:]
            c.notes.extend([notes[i] for i in perm])
            outs.append(c)
    return outs


def run(chk):
    from note_seq import sequences_lib as sl
    mods = list(MODULES) + [m for m, _, _ in EXTRA]
    thms = list(THEOREMS) + [(m, t) for m, ts, _ in EXTRA for t in ts]
    exes = list(EXES) + [e for _, _, e in EXTRA if e]
    chk.prove(mods, thms, exes, extra_trusted=[
        'the functional models imported from the other properties (tied to the code by their own checks and re-checked here on permuted inputs)',
        'protobuf repeated-field semantics; CPython sorted() stability'])
    chk.rule = ('NoteSequences satisfying the quantifier (no same-pitch notes overlap or coincide, no two state events of one kind '
                'share a time) x random permutations of every repeated field (thorough: plus ALL note permutations for <= 5 notes) '
                'x every operation family of the statement; non-trivial = distinct (sequence, operation) with a non-error result')
    rng = chk.subrng('perm')
    n_seq = chk.n(120, 1500)
    model_reqs, model_impl = [], []
    for i in range(n_seq):
        quant_ok = rng.random() < 0.6
        ns = gen_noties(rng, max_notes=rng.choice([2, 4, 5, 8, 16]), quantizable=quant_ok)
        perms = permutations_of(ns, rng, chk.n(2, 3), chk.thorough and i % 10 == 0)
        for name, f in operations(rng, ns, quant_ok):
            base = f(ns)
            chk.count('impl:' + name, (i, name), base[0] == 'ok', base[0] if base[0] == 'ok' else 'err:' + base[1])
            for p in perms:
                r = f(p)
                if r != base:
                    chk.fail('%s: result depends on storage order' % name,
                             {'operation': name, 'sequence': nswire.encode(ns), 'permuted': nswire.encode(p)})
                    break
        # model tie on permuted inputs (quantize family: drv_c01)
        for p in [ns] + perms[:2]:
            for mode, res in (('abs', 8), ('rel', 4)):
                model_reqs.append('%s %d %s' % (mode, res, nswire.encode(p)))
                fn = sl.quantize_note_sequence if mode == 'rel' else sl.quantize_note_sequence_absolute
                model_impl.append(nswire.result_line(fn, p, res))
        if i < 3:
            chk.sample({'sequence': nswire.encode(ns)[:400] + ' …', 'operations': [n for n, _ in operations(rng, ns, quant_ok)]})
        if len(chk.failures) > 10:
            break
    for m in EXTRA_MODS:
        if hasattr(m, 'run_streams'):
            m.run_streams(chk)
    out = chk.driver('drv_c01', model_reqs)
    for req, a, b in zip(model_reqs, model_impl, out):
        chk.count('model:quantize', req[:1500], b != 'bad-op', a.split()[0])
        if a != b:
            chk.disagree('model:quantize', req[:3000], a[:500], b[:500])


def replay(chk, obj):
    from note_seq.protobuf import music_pb2
    import random
    if 'extraction' in obj:      # tie-break stream of c12_extra_b (chord extraction over a later step range)
        from harness import c12_extra_b
        return c12_extra_b.replay(chk, obj)
    ns = nswire.decode(obj['sequence'])
    p = nswire.decode(obj['permuted'])
    name = obj['operation']
    bad = False
    for seed in range(40):
        rng = random.Random(seed)
        for n, f in operations(rng, ns, True):
            if n == name and f(ns) != f(p):
                print('operation %s differs between the two storage orders (parameter seed %d)' % (name, seed))
                bad = True
                break
        if bad:
            break
    print('PROPERTY FAILS' if bad else 'property holds on this input')
    return 1 if bad else 0
