"""private stand-alone runner for the performance half of C06 (harness/c06_perf.py); mimics
`harness.common.main` but writes evidence and replays under /tmp/c06b_out instead of /verif.

usage:  PYTHONPATH=/verif /venv/bin/python -m harness.c06_perf_main quick|thorough [--noprove]
        PYTHONPATH=/verif /venv/bin/python -m harness.c06_perf_main --replay <file>"""
import json
import os
import sys
import traceback
from pathlib import Path

from harness import common


def main(argv):
    out = Path(os.environ.get('C06B_OUT', '/tmp/c06b_out'))
    out.mkdir(parents=True, exist_ok=True)
    common.EVIDENCE = out / 'evidence'
    common.REPLAYS = out / 'replays'
    seed = int(os.environ.get('VERIF_SEED', '0') or 0)
    try:
        from harness import c06_perf as mod
        if argv and argv[0] == '--replay':
            chk = common.Check('C06', 'quick', seed)
            obj = json.loads(Path(argv[1]).read_text())
            return mod.replay(chk, obj.get('input', obj))
        tier = argv[0] if argv else 'quick'
        chk = common.Check('C06', tier, seed)
        if '--noprove' in argv:
            mod.generate(chk)
            chk.rule = mod.RULE
            mod.run_streams(chk)
        else:
            mod.run(chk)
        rc = chk.finish()
        ev = json.loads((common.EVIDENCE / 'C06.json').read_text())
        cov = ev['coverage']
        print('obligations %d discharged %d | evaluations %d distinct %d | disagreements %d failures %d | wall %.1fs' % (
            cov['obligations'], cov['discharged'], cov['evaluations'], cov['distinct_nontrivial'],
            cov['correspondence_disagreements'], cov['property_failures_on_real_code'], ev['wall_s']))
        if cov['no_longer_checks']:
            print('no longer checks:', cov['no_longer_checks'])
        return rc
    except Exception:  # pylint: disable=broad-except
        traceback.print_exc()
        print('MACHINERY-ERROR property=C06 (performance half; exit 2; not a violation)')
        return 2


if __name__ == '__main__':
    sys.exit(main(sys.argv[1:]))
