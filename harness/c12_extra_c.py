"""C12, operation families MIDI export and frame pianoroll rendering.

Theorems: permutation invariance of the Lean models of C03 (`writePM` = note_sequence_to_pretty_midi, with and without
drop_events_n_seconds_after_last_note: same exception or PrettyMIDI objects equal up to the order inside each instrument
and inside the time / key signature lists, identical tick scales, same instrument order — tie condition: distinct tempo
times) and of C18 (`encode` = sequence_to_pianoroll: same exception or IDENTICAL rolls, all seven — tie conditions: no two
in-range notes of one pitch share a start time, no two control changes of one column share a time; max_velocity != 0 for
the KIND of exception), each with a Lean counterexample showing that its tie condition cannot be dropped.

Model tie on permuted inputs (`run_streams`): `drv_c03` / `drv_c18` are run on generated inputs (the generators of
harness/c03.py and harness/c18.py, plus forced coincidences: notes of DIFFERENT pitches and control changes of different
controllers sharing a time — exactly the ties the theorems allow) AND on a random permutation of every repeated field of
each, and every response is compared exactly with the implementation on the same (permuted) input.  Where the hypotheses
of a theorem hold for the pair, the two driver responses are additionally compared with each other the way the theorem
states (identical rolls / the same PrettyMIDI object up to order)."""
from fractions import Fraction as F

from harness import nswire
from harness.common import rat

_M = 'NoteSeqVerif.Props.C12_midi'
_P = 'NoteSeqVerif.Props.C12_pianoroll'

EXTRA = [
    (_M, ['NSV.C12.midi_export_perm', 'NSV.C12.MidiTieFree.perm', 'NSV.C12.midi_export_perm_instruments',
          'NSV.C12.midi_cutoff_perm', 'NSV.C12.midi_tempo_tie_depends_on_order',
          # the lemmas the corollary rests on
          'NSV.C03.midi_tempo_map_order_independent', 'NSV.C12.maxEnd_perm', 'NSV.C12.writeTimeSigs_perm',
          'NSV.C12.writeKeySigs_perm', 'NSV.C12.groupKeys_perm', 'NSV.C12.mkInst_perm', 'NSV.C12.instLoop_perm'], 'drv_c03'),
    (_P, ['NSV.C12.pianoroll_perm', 'NSV.C12.pianoroll_perm_any_max_velocity', 'NSV.C12.pianoroll_nsperm',
          'NSV.C12.NoteTieFree.perm', 'NSV.C12.CCTieFree.perm', 'NSV.C12.RollTieFree.perm',
          'NSV.C12.ccTieFree_of_midi', 'NSV.C12.noteTieFree_of_distinct_starts',
          'NSV.C12.pianoroll_same_pitch_tie_depends_on_order', 'NSV.C12.pianoroll_cc_tie_depends_on_order',
          'NSV.C12.pianoroll_error_kind_depends_on_order',
          # the lemmas the corollary rests on
          'NSV.C12.foldl_sorted_perm', 'NSV.C12.sortBy_perm', 'NSV.C12.sortBy_sorted', 'NSV.C12.colUpd_comm',
          'NSV.C12.paintNote_eq', 'NSV.C12.encNotes_eq', 'NSV.C12.encCCs_eq', 'NSV.C12.stepFn_comm', 'NSV.C12.ccFn_comm',
          'NSV.C12.encNotes_perm', 'NSV.C12.encCCs_perm'], 'drv_c18'),
]


# ----------------------------------------------------------------------------- MIDI export
def _midi_tokens(line):
    """the driver's `ok PM …` line as a multiset of tokens after the (order-sensitive) tick scales: equal for two
    PrettyMIDI objects related by PMPerm (a necessary condition, cheap to evaluate on the wire form)."""
    t = line.split(' ')
    if t[0] != 'ok':
        return line
    n = int(t[3])                      # ok PM res <n scales: tick scale>*n …
    head = t[:4 + 2 * n]
    return (tuple(head), tuple(sorted(t[4 + 2 * n:])))


def _midi_streams(chk):
    from note_seq import midi_io
    from harness import c03
    rng = chk.subrng('extra_c:c03')
    rows = []     # (stream, request, impl, hist, pair id, hypothesis holds)
    seqs = []
    for _ in range(chk.n(220, 4000)):
        ns, hist = c03.gen_valid(rng)
        drop = rng.choice([None, None, 0, 0.25, 1.0, 2.5])
        if drop is not None:
            hist = set(hist) | {'drop:%s' % ('zero' if drop == 0 else 'pos')}
        if rng.random() < 0.3 and len(ns.time_signatures) + len(ns.key_signatures) > 0:
            # ties among time / key signatures (allowed: only the tempo times must be distinct)
            for fld in (ns.time_signatures, ns.key_signatures):
                if fld:
                    x = fld.add()
                    x.CopyFrom(fld[0])
                    if fld is ns.time_signatures:
                        x.numerator = 7
                    else:
                        x.key = (x.key + 1) % 12
            hist = set(hist) | {'tie:signatures-share-a-time'}
        seqs.append((ns, drop, hist))
    for _ in range(chk.n(130, 2500)):
        ns, drop, hist = c03.gen_malformed(rng)
        seqs.append((ns, drop, set(hist) | {'stream:malformed'}))
    for i, (ns, drop, hist) in enumerate(seqs):
        hyp = len({F(t.time) for t in ns.tempos}) == len(ns.tempos)
        for tag, s in (('stored', ns), ('permuted', nswire.shuffled(ns, rng))):
            _, impl = c03.write_result(midi_io, s, drop)
            rows.append(('model:midi_export', 'write %s %s' % ('-' if drop is None else rat(drop), nswire.encode(s)), impl,
                         sorted(hist) + [tag, 'hyp:distinct-tempo-times=%s' % hyp,
                                         'result:' + (impl if impl.startswith('err') else 'ok')], i, hyp))
    out = chk.driver('drv_c03', [r[1] for r in rows])
    for (stream, req, impl, hist, _, _), model in zip(rows, out):
        chk.count(stream, req[:3000], model != 'bad-op', hist)
        if impl != model:
            chk.disagree(stream, {'request': req[:6000]}, impl[:800], model[:800])
    # the theorem's conclusion on the driver's own responses, where its hypothesis holds
    for k in range(0, len(rows), 2):
        if rows[k][5]:
            chk.count('theorem-on-driver:midi_export_perm', None, False, 'pairs with distinct tempo times')
            if _midi_tokens(out[k]) != _midi_tokens(out[k + 1]):
                chk.disagree('theorem-on-driver:midi_export_perm', {'request': rows[k][1][:3000], 'permuted': rows[k + 1][1][:3000]},
                             out[k][:600], out[k + 1][:600])
    if rows:
        chk.sample({'request': rows[1][1][:260] + ' …', 'impl': rows[1][2][:200] + ' …', 'model_equal': rows[1][2] == out[1],
                    'stream': 'model:midi_export (permuted input)'})


# ----------------------------------------------------------------------------- pianoroll
def _force_ties(rng, case, hist):
    """add the coincidences the theorem allows: notes of DIFFERENT pitches sharing a start time (also with an
    out-of-range note), control changes of different controllers sharing a time."""
    notes, lo, hi = case['notes'], case['min_pitch'], case['max_pitch']
    maxv = case.get('kw', {}).get('max_velocity', 127)
    if notes and hi > lo and rng.random() < 0.6:
        for _ in range(rng.choice([1, 1, 2, 3])):
            p0, _, s0, e0 = rng.choice(notes)
            p = rng.choice([q for q in range(lo - 1, hi + 2) if q != p0 and 0 <= q <= 127] or [p0])
            if p == p0:
                continue
            e = rng.choice([e0, s0, s0 + rng.choice([0.5, 1, 3]) / case['fps']])
            notes.append([p, max(0, min(maxv, rng.choice([maxv, 1, 64]))), s0, max(s0, e)])
            hist.add('tie:equal-start-different-pitch')
    ccs = case.get('ccs', [])
    if ccs and rng.random() < 0.6:
        t0, n0, _ = rng.choice(ccs)
        n = rng.choice([q for q in (64, 66, 67, 1, 7) if q != n0])
        ccs.append([t0, n, rng.randrange(128)])
        hist.add('tie:equal-time-different-controller')
    if ccs and rng.random() < 0.15:
        t0, n0, v0 = rng.choice(ccs)
        ccs.append([t0, n0, (v0 + 1 + rng.randrange(126)) % 128])
        hist.add('tie:equal-time-same-controller (outside the hypothesis: model tie only)')
    return case


def _roll_hyp(case):
    """(note hypothesis, control-change hypothesis, max_velocity != 0) of `pianoroll_perm`, exact times"""
    lo, hi = case['min_pitch'], case['max_pitch']
    seen = set()
    ok_n = True
    for p, _, s, _ in case['notes']:
        if lo <= p <= hi:
            k = (p, F(s))
            ok_n &= k not in seen
            seen.add(k)
    seen = set()
    ok_c = True
    for t, n, _ in case.get('ccs', []):
        k = (F(t), n % 128)
        ok_c &= k not in seen
        seen.add(k)
    return ok_n, ok_c, case.get('kw', {}).get('max_velocity', 127) != 0


def _roll_streams(chk):
    from note_seq import sequences_lib as sl
    from harness import c18
    c18._quiet()  # pylint: disable=protected-access
    rng = chk.subrng('extra_c:c18')
    rows = []
    for i in range(chk.n(450, 8000)):
        case, hist = c18.gen_enc_case(rng, malformed=(i % 6 == 5))
        hist = set(hist)
        if i % 6 == 5:
            hist.add('stream:malformed')
        case = _force_ties(rng, case, hist)
        perm = dict(case, notes=list(case['notes']), ccs=list(case.get('ccs', [])))
        rng.shuffle(perm['notes'])
        rng.shuffle(perm['ccs'])
        hn, hc, hv = _roll_hyp(case)
        hyp = hn and hc and hv
        for tag, c in (('stored', case), ('permuted', perm)):
            impl, _ = c18.enc_impl(sl, c)
            rows.append(('model:pianoroll', c18.enc_request(c), impl,
                         sorted(hist) + [tag, 'hyp:note-tie-free=%s' % hn, 'hyp:cc-tie-free=%s' % hc,
                                         'result:' + (impl if impl.startswith('err') else 'ok')], c, hyp))
    out = chk.driver('drv_c18', [r[1] for r in rows])
    for (stream, req, impl, hist, c, _), model in zip(rows, out):
        chk.count(stream, req[:3000], model != 'bad-op', hist)
        if impl != model:
            chk.disagree(stream, c, impl[:1500], model[:1500])
    for k in range(0, len(rows), 2):
        if rows[k][5]:
            moved = rows[k][1] != rows[k + 1][1]
            chk.count('theorem-on-driver:pianoroll_perm', rows[k][1][:3000], moved and out[k].startswith('ok'),
                      'pairs satisfying the hypotheses' + (' (storage order really differs)' if moved else ''))
            if out[k] != out[k + 1]:
                chk.disagree('theorem-on-driver:pianoroll_perm', {'stored': rows[k][4], 'permuted': rows[k + 1][4]},
                             out[k][:800], out[k + 1][:800])
    if rows:
        chk.sample({'request': rows[1][1][:260] + ' …', 'impl': rows[1][2][:200] + ' …', 'model_equal': rows[1][2] == out[1],
                    'stream': 'model:pianoroll (permuted input)'})


def run_streams(chk):
    import warnings
    warnings.filterwarnings('ignore')
    _midi_streams(chk)
    _roll_streams(chk)
