"""C13 — shift, stretch, concatenate, repeat, time maps move every event consistently (DESIGN 6.13).

Every generated *case* is a JSON-able dict {'op': …, 'seqs': [serialized NoteSequence hex …], params…};
the same dict is the replay input.  For each case
  * `request(sl, case)` runs the real code in-process and builds the driver request + the
    implementation's result line (exact `num/den` times);
  * `ORACLES[op](sl, case)` evaluates the property statement on the implementation's output in exact
    Fraction arithmetic, written from the property text (not from the Lean model).
"""
import ast
import bisect
import hashlib
import inspect
import math
import textwrap
from fractions import Fraction as F

from harness import nswire
from harness.common import rat, wl, lean_list, lean_str, corpus_cases

PID = 'C13'
MODULES = ['NoteSeqVerif.Props.C13', 'NoteSeqVerif.Props.C13_repeat', 'NoteSeqVerif.Props.C13_interp',
           'NoteSeqVerif.Props.C13_adjust', 'NoteSeqVerif.Props.C13_durations', 'NoteSeqVerif.Props.C13_compose']
EXE = 'drv_c13'
_P, _PR, _PI, _PA, _PD, _PC = MODULES
THEOREMS = [(_P, 'NSV.C13.' + t) for t in (
    'shift_spec shift_error_iff stretch_spec stretch_one stretch_error_iff '
    'remove_redundant_in_effect remove_redundant_drops_only_repeats remove_redundant_frame dedup_keeps_first '
    'concat_ok_iff concat_spec concat_pieces concat_offsets_exact_durations concat_offsets_exact_totals concat_errors '
    'merge_spec adjust_drop_iff adjust_ok_iff adjust_error_iff adjust_total_is_max '
    'interp_knots interp_clamps interp_monotone interp_range interp_divisor_pos '
    'rectify_no_beats_iff rectify_quantized rectify_spec rectify_beats_land '
    'expand_no_groups sections_in_group expand_spec expand_sections expand_spans expand_lookup '
    'repeat_spec repeat_count_exact repeat_offsets_exact').split()] + [
    # Props/C13_repeat.lean: the result of repeat = the cyclic copies cut at D (C02's closed form composed)
    (_PR, 'NSV.C13.' + t) for t in (
    'repeat_notes repeat_events repeat_copies repeat_copies_exact repeat_notes_exact repeat_count_bounds '
    'repeat_cyclic_copies_ordered repeatCyclicCopies_partial repeat_ok_exact '
    'repeatCyclicCopies_needs_nonneg_starts').split()] + [
    # Props/C13_interp.lean: float np.interp for every Rounding R; exact cross-knot monotonicity refuted for rne53
    (_PI, 'NSV.C13.' + t) for t in (
    'interp_monotone_within_segment interp_ge_knot interp_range_float interp_monotone_approx '
    'interp_not_monotone_rne53 interp_monotone_fails_for_some_rounding rectify_raises_on_increasing_beats').split()] + [
    # Props/C13_adjust.lean: exactly which notes adjust / rectify keep (kept iff f start != f end, exact equality at
    # every magnitude; raises iff a note is reversed or a kept time is negative), for every time map and rounding
    (_PA, 'NSV.C13.' + t) for t in (
    'adjust_keeps_exactly adjust_raises_iff adjust_raises_iff_reversed adjust_min_duration_keeps_all '
    'rectify_keeps_exactly rectify_raises_iff').split()] + [
    # Props/C13_durations.lean: an explicit duration is judged by value (0 is too short for a non-empty piece)
    (_PD, 'NSV.C13.' + t) for t in (
    'concat_short_duration_rejected concat_zero_duration_rejected concat_zero_duration_of_empty_piece').split()] + [
    # Props/C13_compose.lean: operation SEQUENCES (an operation applied to the result of another): shift after shift,
    # stretch after stretch (incl. the f*g = 1 corner, where the one-step code takes its early return), stretch after shift
    (_PC, 'NSV.C13.' + t) for t in (
    'shift_shift stretch_stretch stretch_inverse stretch_shift shift_keeps_status stretch_keeps_status').split()]

EV = ['time_signatures', 'key_signatures', 'tempos', 'pitch_bends', 'control_changes',
      'text_annotations', 'section_annotations']
STATE = {'tempos': lambda e: (e.qpm,), 'time_signatures': lambda e: (e.numerator, e.denominator),
         'key_signatures': lambda e: (e.key, e.mode)}


# ----------------------------------------------------------------------------- generated tables
def _container_names(fn, anchor):
    """protobuf container names `<obj>.<field>` listed in the `itertools.chain(...)` call or list literal
    assigned to the variable `anchor` inside `fn` (source of the working tree)."""
    tree = ast.parse(textwrap.dedent(inspect.getsource(fn)))
    for node in ast.walk(tree):
        if isinstance(node, ast.Assign) and len(node.targets) == 1 and isinstance(node.targets[0], ast.Name) \
                and node.targets[0].id == anchor:
            v = node.value
            elts = v.elts if isinstance(v, (ast.List, ast.Tuple)) else v.args if isinstance(v, ast.Call) else None
            if elts is not None and all(isinstance(e, ast.Attribute) for e in elts):
                return [e.attr for e in elts]
    return None


def generate(chk):
    from note_seq import sequences_lib as sl
    from note_seq.protobuf import music_pb2
    try:        # Model/C13Full.lean imports property C02's model: keep its generated constants fresh too
        from harness import c02
        c02.generate(chk)
    except Exception as e:  # pylint: disable=broad-except
        chk.notes['c02_generate'] = 'not run: %s' % e
    shift = _container_names(sl.shift_sequence_times, 'events_to_shift')
    stretch = _container_names(sl.stretch_note_sequence, 'events')
    adjust = _container_names(sl.adjust_notesequence_times, 'events')
    for nme, v in (('shift', shift), ('stretch', stretch), ('adjust', adjust)):
        if v is None:
            chk.translit['C13 event containers of ' + nme] = 'BROKEN: container list not found in the source'
            chk.broken.append('translator:C13 (%s event containers)' % nme)
        else:
            chk.translit['C13 event containers of ' + nme] = 'regenerated from source: ' + ','.join(v)
    # a container list the AST reader could not find keeps its last regenerated value (the translator obligation above
    # records the give-up; the behavioural correspondence still ties the model to the code)
    try:
        from harness.common import LEAN as _LEAN
        _old = (_LEAN / 'NoteSeqVerif/Generated/C13.lean').read_text()
    except Exception:  # pylint: disable=broad-except
        _old = ''

    def _last(name):
        import re as _re
        import json as _json
        m = _re.search(r'def %s : List String := (\[[^\]]*\])' % name, _old)
        try:
            return _json.loads(m.group(1)) if m else []
        except Exception:  # pylint: disable=broad-except
            return []
    if shift is None:
        shift = _last('shiftEventFields')
    if stretch is None:
        stretch = _last('stretchEventFields')
    if adjust is None:
        adjust = _last('adjustEventFields')
    ls = lambda v: lean_list(lean_str(x) for x in (v or []))
    txt = ('/-! GENERATED from /repo on every run by harness/c13.py — do not edit. -/\n'
           'namespace NSV.C13.Gen\n'
           'def shiftEventFields : List String := %s\n' % ls(shift)
           + 'def stretchEventFields : List String := %s\n' % ls(stretch)
           + 'def adjustEventFields : List String := %s\n' % ls(adjust)
           + 'def BEAT : Int := %d\n' % music_pb2.NoteSequence.TextAnnotation.BEAT
           + 'end NSV.C13.Gen\n')
    chk.regenerate('NoteSeqVerif/Generated/C13.lean', txt)


# ----------------------------------------------------------------------------- wire helpers
def NS():
    from note_seq.protobuf import music_pb2
    return music_pb2.NoteSequence()


def to_hex(ns):
    return ns.SerializeToString(deterministic=True).hex()


def from_hex(h):
    ns = NS()
    ns.ParseFromString(bytes.fromhex(h))
    return ns


def clone(ns):
    c = NS()
    c.CopyFrom(ns)
    return c


def strip_meta(ns):
    """the fields that are neither modelled by NoteSeq nor the two de-duplicated metadata lists"""
    c = clone(ns)
    for f in nswire.MODELLED:
        c.ClearField(f)
    if c.HasField('sequence_metadata'):
        del c.sequence_metadata.composers[:]
        del c.sequence_metadata.genre[:]
    return c


def digest(c):
    b = c.SerializeToString(deterministic=True)
    return 'm' + hashlib.md5(b).hexdigest()[:10] if b else '-'


def merged_meta(seqs):
    """protobuf's own MergeFrom on the unmodelled fields (the model's parameter `mm`)"""
    acc = NS()
    for s in seqs:
        acc.MergeFrom(strip_meta(s))
    return digest(acc)


def enc_m(ns):
    t = nswire.encode(ns).split(' ')
    t[9] = digest(strip_meta(ns))
    return ' '.join([wl(nswire.hx(x) for x in ns.sequence_metadata.composers),
                     wl(nswire.hx(x) for x in ns.sequence_metadata.genre)] + t)


def err_line(e):
    return 'err ' + type(e).__name__


def quantized(ns):
    return ns.quantization_info.steps_per_quarter > 0 or ns.quantization_info.steps_per_second > 0


def fl(x):
    """correctly rounded double of an exact rational (int/int true division rounds to nearest even)"""
    x = F(x)
    return x.numerator / x.denominator


def all_times(ns):
    out = []
    for n in ns.notes:
        out += [n.start_time, n.end_time]
    for k in EV:
        out += [e.time for e in getattr(ns, k)]
    return out


# ----------------------------------------------------------------------------- time maps
def build_map(spec):
    """a Python callable from a JSON-able description (the model receives its values as a table)"""
    k = spec['kind']
    if k == 'lin':
        a, b = spec['a'], spec['b']
        return lambda t: a * t + b
    if k == 'const':
        c = spec['c']
        return lambda t: c
    if k == 'rev':
        c = spec['c']
        return lambda t: c - t
    if k == 'npinterp':
        import numpy as np
        xs, ys = spec['xs'], spec['ys']
        return lambda t: float(np.interp(t, xs, ys))
    if k == 'pl':   # piecewise linear through (xs, ys), slope-1 continuation outside
        xs, ys = spec['xs'], spec['ys']

        def f(t):
            if t <= xs[0]:
                return ys[0] + (t - xs[0])
            if t >= xs[-1]:
                return ys[-1] + (t - xs[-1])
            for i in range(len(xs) - 1):
                if xs[i] <= t <= xs[i + 1]:
                    if ys[i + 1] == ys[i]:
                        return ys[i]
                    return ys[i] + (t - xs[i]) * ((ys[i + 1] - ys[i]) / (xs[i + 1] - xs[i]))
            return t
        return f
    if k == 'step':  # floor to a grid: collapses short notes
        g = spec['g']
        return lambda t: math.floor(t / g) * g
    raise ValueError(k)


# ----------------------------------------------------------------------------- implementation side
class Spy:
    """records calls of sequences_lib.extract_subsequence made by the code under test (no /repo change)"""

    def __init__(self, sl):
        self.sl, self.calls = sl, []

    def __enter__(self):
        self.orig = self.sl.extract_subsequence
        spy = self

        def wrapped(sequence, start_time, end_time, *a, **kw):
            arg = clone(sequence)
            try:
                r = spy.orig(sequence, start_time, end_time, *a, **kw)
            except Exception as e:  # pylint: disable=broad-except
                spy.calls.append((arg, start_time, end_time, None, e))
                raise
            spy.calls.append((arg, start_time, end_time, clone(r), None))
            return r
        self.sl.extract_subsequence = wrapped
        return self

    def __exit__(self, *a):
        self.sl.extract_subsequence = self.orig


def py_flatten(groups):
    """independent reading of `section_groups`: ids in playing order"""
    out = []
    for g in groups:
        inner = []
        for s in g.sections:
            w = s.WhichOneof('section_type')
            if w == 'section_id':
                inner.append(s.section_id)
            elif w == 'section_group':
                inner += py_flatten([s.section_group])
        out += inner * max(0, g.num_times)
    return out


def request(sl, case):
    """list of (driver request line, implementation result line) for one case"""
    r = request1(sl, case)
    return r if isinstance(r, list) else [r]


def request1(sl, case):
    import numpy as np
    op = case['op']
    seqs = [from_hex(h) for h in case['seqs']]
    if op == 'shift':
        d = case['d']
        return 'shift %s %s' % (rat(d), nswire.encode(seqs[0])), nswire.result_line(sl.shift_sequence_times, seqs[0], d)
    if op == 'stretch':
        f = case['f']
        return 'stretch %s %s' % (rat(f), nswire.encode(seqs[0])), nswire.result_line(sl.stretch_note_sequence, seqs[0], f)
    if op == 'compose':
        # tie of Props/C13_compose.lean: the model's ONE-step result for the combined argument must be what the real code
        # returns after TWO steps (all arithmetic of these cases is exact in doubles), and each real step is compared too
        (f1, a1), (f2, a2), (fc, ac) = compose_plan(sl, case)
        name = {sl.shift_sequence_times: 'shift', sl.stretch_note_sequence: 'stretch'}
        out = [('%s %s %s' % (name[f1], rat(a1), nswire.encode(seqs[0])), nswire.result_line(f1, seqs[0], a1))]
        try:
            mid = f1(seqs[0], a1)
        except Exception:  # pylint: disable=broad-except
            return out
        out.append(('%s %s %s' % (name[f2], rat(a2), nswire.encode(mid)), nswire.result_line(f2, mid, a2)))
        if fc is not None:
            out.append(('%s %s %s' % (name[fc], rat(ac), nswire.encode(seqs[0])), nswire.result_line(lambda x, _: f2(f1(x, a1), a2), seqs[0], ac)))
        return out
    if op == 'rr':
        try:
            res = 'ok ' + enc_m(sl.remove_redundant_data(seqs[0]))
        except Exception as e:  # pylint: disable=broad-except
            res = err_line(e)
        return 'rr ' + enc_m(seqs[0]), res
    if op in ('concat', 'merge'):
        durs = case.get('durs')
        try:
            r = sl.concatenate_sequences(seqs, durs) if op == 'concat' else sl.merge_sequences(seqs)
            res = 'ok ' + enc_m(r)
        except Exception as e:  # pylint: disable=broad-except
            res = err_line(e)
        head = 'concat %s %s' % (merged_meta(seqs), wl(rat(float(d)) for d in (durs or []))) if op == 'concat' \
            else 'merge %s' % merged_meta(seqs)
        return head + ' ' + wl(enc_m(s) for s in seqs), res
    if op == 'adjust':
        f = build_map(case['map'])
        md = case.get('md')
        ns = seqs[0]
        tab = {}
        for t in all_times(ns):
            tab[t] = float(f(t))
        try:
            r, sk = sl.adjust_notesequence_times(ns, f, md)
            res = 'ok %d %s' % (sk, nswire.encode(r))
        except Exception as e:  # pylint: disable=broad-except
            res = err_line(e)
        return 'adjust %s %s %s' % (rat(float(md or 0)), wl('%s %s' % (rat(a), rat(b)) for a, b in tab.items()),
                                    nswire.encode(ns)), res
    if op == 'rectify':
        bpm = case['bpm']
        try:
            r, al = sl.rectify_beats(seqs[0], bpm)
            res = 'ok %s %s' % (wl('%s %s' % (rat(float(a)), rat(float(b))) for a, b in al), nswire.encode(r))
        except Exception as e:  # pylint: disable=broad-except
            res = err_line(e)
        return 'rectify %s %s' % (rat(float(bpm)), nswire.encode(seqs[0])), res
    if op == 'interp':
        xs, ys, x, l, r = case['xs'], case['ys'], case['x'], case['left'], case['right']
        try:
            res = 'ok ' + rat(float(np.interp(x, xs, ys, left=l, right=r)))
        except Exception as e:  # pylint: disable=broad-except
            res = err_line(e)
        return 'interp %s %s %s %s' % (rat(l), rat(r), rat(x), wl('%s %s' % (rat(a), rat(b)) for a, b in zip(xs, ys))), res
    if op == 'repcat':
        ns, D, sd = seqs[0], case['D'], case.get('sd')
        with Spy(sl) as spy:
            try:
                out = sl.repeat_sequence_to_duration(ns, D, sd)
                exc, full = None, 'ok ' + enc_m(out)
            except Exception as e:  # pylint: disable=broad-except
                exc, full = e, err_line(e)
        if spy.calls:
            arg, a, b = spy.calls[0][:3]
            res = 'ok %s %s %s' % (rat(float(a)), rat(float(b)), enc_m(arg))
        else:
            res = err_line(exc)
        d = sd if sd else ns.total_time
        n = max(0, int(math.ceil(D / d))) if d else 0
        args = '%s %s %s %s' % (merged_meta([ns] * n), rat(float(D)), rat(float(sd or 0)), enc_m(ns))
        return [('repcat ' + args, res), ('repeat ' + args, full)]
    if op == 'expand':
        ns = seqs[0]
        with Spy(sl) as spy:
            try:
                r = sl.expand_section_groups(ns)
                res = 'ok ' + enc_m(r)
            except Exception as e:  # pylint: disable=broad-except
                res = err_line(e)
        tab = []
        for (_, a, b, r, e) in spy.calls:
            tab.append('%s %s %s' % (rat(float(a)), rat(float(b)), 'ok ' + nswire.encode(r) if e is None else err_line(e)))
        k = len(py_flatten(ns.section_groups))
        mm = merged_meta([ns] * k)
        return [('expand %s %s %s' % (mm, wl(tab), enc_m(ns)), res), ('expandfull %s %s' % (mm, enc_m(ns)), res)]
    raise ValueError(op)


# ----------------------------------------------------------------------------- the oracle
def call(f, *a, **kw):
    try:
        return f(*a, **kw), None
    except Exception as e:  # pylint: disable=broad-except
        return None, e


def expect_err(err, names):
    got = type(err).__name__ if err is not None else 'a result'
    return None if got in names else 'expected %s, got %s' % ('/'.join(sorted(names)), got)


def with_times(src, g, kinds=EV, total=True):
    """a copy of `src` with every note/event time (of `kinds`) and total_time mapped through g"""
    c = clone(src)
    for n in c.notes:
        n.start_time, n.end_time = g(n.start_time), g(n.end_time)
    for k in kinds:
        for e in getattr(c, k):
            e.time = g(e.time)
    if total:
        c.total_time = g(c.total_time)
    return c


def first_diff(exp, out):
    """name of the first top-level field in which two NoteSequences differ"""
    for fd in exp.DESCRIPTOR.fields:
        a, b = getattr(exp, fd.name), getattr(out, fd.name)
        try:
            same = (list(a) == list(b)) if fd.name in EV + ['notes', 'section_groups', 'part_infos', 'instrument_infos'] else a == b
        except TypeError:
            same = a == b
        if not same:
            if fd.name in EV + ['notes']:
                la, lb = list(a), list(b)
                if len(la) != len(lb):
                    return '%s: %d expected, %d found' % (fd.name, len(la), len(lb))
                for i, (x, y) in enumerate(zip(la, lb)):
                    if x != y:
                        return '%s[%d]: expected {%s} found {%s}' % (fd.name, i, str(x).replace('\n', ' '), str(y).replace('\n', ' '))
            return fd.name
    if exp.HasField('subsequence_info') != out.HasField('subsequence_info'):
        return 'subsequence_info presence'
    return None


def o_shift(sl, case):
    ns, d = from_hex(case['seqs'][0]), case['d']
    before = to_hex(ns)
    out, err = call(sl.shift_sequence_times, ns, d)
    if to_hex(ns) != before:
        return 'argument modified'
    if d <= 0:
        return expect_err(err, {'ValueError'})
    if quantized(ns):
        return expect_err(err, {'QuantizationStatusError'})
    if err is not None:
        return 'unexpected %s on a valid input' % type(err).__name__
    exp = with_times(ns, lambda t: fl(F(t) + F(d)))
    exp.ClearField('subsequence_info')
    r = first_diff(exp, out)
    return 'shift by %r: %s' % (d, r) if r else None


def o_stretch(sl, case):
    ns, f = from_hex(case['seqs'][0]), case['f']
    before = to_hex(ns)
    out, err = call(sl.stretch_note_sequence, ns, f)
    if to_hex(ns) != before:
        return 'argument modified'
    if quantized(ns):
        return expect_err(err, {'QuantizationStatusError'})
    if f <= 0:
        return None            # outside the quantifier (positive factors)
    if err is not None:
        return 'unexpected %s on a valid input' % type(err).__name__
    exp = with_times(ns, lambda t: fl(F(t) * F(f)))
    for t in exp.tempos:
        t.qpm = fl(F(t.qpm) / F(f))
    r = first_diff(exp, out)
    return 'stretch by %r: %s' % (f, r) if r else None


def in_effect(events, t, val):
    cur = None
    for e in sorted(events, key=lambda e: e.time):
        if e.time <= t:
            cur = val(e)
    return cur


def check_state_events(kind, placed, got):
    """`got` must be `placed` in time order with exactly the events that repeat the value in force removed"""
    val = STATE[kind]
    srt = sorted(placed, key=lambda e: e.time)
    exp = [e for i, e in enumerate(srt) if i == 0 or val(e) != val(srt[i - 1])]
    if list(got) != exp:
        return '%s: expected %s, found %s' % (kind, [(e.time,) + val(e) for e in exp], [(e.time,) + val(e) for e in got])
    times = sorted({e.time for e in placed})
    probes = set(times) | {(a + b) / 2 for a, b in zip(times, times[1:])} | ({times[-1] + 1, times[0] - 1} if times else set())
    for t in probes:
        if in_effect(got, t, val) != in_effect(placed, t, val):
            return '%s in force at %r changed' % (kind, t)
    return None


def dedup(xs):
    out = []
    for x in xs:
        if x not in out:
            out.append(x)
    return out


def o_rr(sl, case):
    ns = from_hex(case['seqs'][0])
    before = to_hex(ns)
    out, err = call(sl.remove_redundant_data, ns)
    if to_hex(ns) != before:
        return 'argument modified'
    if err is not None:
        return 'unexpected %s' % type(err).__name__
    for k in STATE:
        r = check_state_events(k, list(getattr(ns, k)), getattr(out, k))
        if r:
            return r
    if list(out.sequence_metadata.composers) != dedup(ns.sequence_metadata.composers) or \
            list(out.sequence_metadata.genre) != dedup(ns.sequence_metadata.genre):
        return 'metadata de-duplication'
    exp = clone(out)
    for k in STATE:
        exp.ClearField(k)
        getattr(exp, k).extend(getattr(ns, k))
    if ns.HasField('sequence_metadata'):
        exp.sequence_metadata.CopyFrom(ns.sequence_metadata)
    return None if to_hex(exp) == before else 'a field other than tempos/signatures/metadata lists changed'


def o_concat(sl, case):
    seqs = [from_hex(h) for h in case['seqs']]
    durs = case.get('durs')
    merge = case['op'] == 'merge'
    before = [to_hex(s) for s in seqs]
    out, err = call(sl.merge_sequences, seqs) if merge else call(sl.concatenate_sequences, seqs, durs)
    if [to_hex(s) for s in seqs] != before:
        return 'argument modified'
    problems = set()
    if durs and len(durs) != len(seqs):
        return expect_err(err, {'ValueError'})
    offs, cur, totals = [], 0.0, []
    for i, s in enumerate(seqs):
        if durs and durs[i] < s.total_time:
            problems.add('ValueError')
        if cur > 0 and quantized(s):
            problems.add('QuantizationStatusError')
        offs.append(cur)
        totals.append(fl(F(s.total_time) + F(cur)))
        if not merge:
            cur = fl(F(cur) + F(durs[i] if durs else s.total_time))
    if problems:
        return expect_err(err, problems)
    if any(quantized(s) for s in seqs):
        return None        # quantized pieces are outside the quantifier; the code accepts them at offset 0
    if err is not None:
        return 'unexpected %s on a valid input' % type(err).__name__
    exp = NS()
    for s, o in zip(seqs, offs):
        p = with_times(s, (lambda t, o=o: fl(F(t) + F(o))) if o > 0 else (lambda t: t))
        for k in EV + ['notes', 'section_groups']:
            getattr(exp, k).extend(getattr(p, k))
    for k in ['notes', 'section_groups'] + [k for k in EV if k not in STATE]:
        a, b = list(getattr(exp, k)), list(getattr(out, k))
        if a != b:
            i = next((i for i, (x, y) in enumerate(zip(a, b)) if x != y), min(len(a), len(b)))
            return '%s of the pieces placed at offsets %s: %d expected, %d found, first difference at index %d: {%s} vs {%s}' % (
                k, offs, len(a), len(b), i, str(a[i]).replace('\n', ' ') if i < len(a) else '', str(b[i]).replace('\n', ' ') if i < len(b) else '')
    for k in STATE:
        r = check_state_events(k, list(getattr(exp, k)), getattr(out, k))
        if r:
            return r
    if out.HasField('subsequence_info'):
        return 'subsequence_info kept'
    if not merge:
        if out.total_time != (max(totals) if totals else 0.0):
            return 'total_time %r, pieces end at %r' % (out.total_time, totals)
        if any(n.end_time > out.total_time for n in out.notes):
            return 'total_time does not cover a note'
    if merge and out.total_time != max([s.total_time for s in seqs] + ([] if seqs else [0.0])):
        return 'merged total_time %r is not the longest of %r' % (out.total_time, [s.total_time for s in seqs])
    tpqs = [s.ticks_per_quarter for s in seqs if s.ticks_per_quarter]
    if out.ticks_per_quarter != (tpqs[-1] if tpqs else 0):
        return 'ticks_per_quarter is not the last one given'
    return None


def o_adjust(sl, case):
    ns, md = from_hex(case['seqs'][0]), case.get('md')
    f = build_map(case['map'])
    before = to_hex(ns)
    res, err = call(sl.adjust_notesequence_times, ns, f, md)
    if to_hex(ns) != before:
        return 'argument modified'
    kept, skipped, reject, maybe = [], 0, False, False
    for n in ns.notes:
        a, b = f(n.start_time), f(n.end_time)
        if a == b:
            if not md:
                skipped += 1
                maybe = maybe or a < 0      # a collapsed note before zero: dropping and rejecting are both acceptable
                continue
            b = fl(F(b) + F(md))
        if b < a or a < 0 or b < 0:
            reject = True
        kept.append((n, a, b))
    kinds = [k for k in EV if k != 'tempos']
    if any(f(e.time) < 0 for k in kinds for e in getattr(ns, k)):
        reject = True
    if reject:
        return expect_err(err, {'InvalidTimeAdjustmentError'})
    if err is not None:
        return None if (maybe and type(err).__name__ == 'InvalidTimeAdjustmentError') else \
            'unexpected %s on a map that reverses no note and makes no time negative' % type(err).__name__
    out, sk = res
    exp = clone(ns)
    del exp.notes[:]
    for n, a, b in kept:
        m = exp.notes.add()
        m.CopyFrom(n)
        m.start_time, m.end_time = a, b
    for k in kinds:
        for e in getattr(exp, k):
            e.time = f(e.time)
    del exp.tempos[:]
    exp.total_time = max([b for _, _, b in kept] + [0.0])
    r = first_diff(exp, out)
    if r:
        return 'adjust: %s' % r
    return None if sk == skipped else 'skipped_notes %d, %d notes collapsed' % (sk, skipped)


def o_rectify(sl, case):
    """the beat map M is the piecewise-linear interpolation through (0, the distinct beats <= total_time, total_time)
    -> k*60/bpm; "as the code computes it" = numpy's own np.interp on knots built HERE from the property text.
    Demanded exactly (no tolerance, at every magnitude): a note is dropped iff M(start) == M(end); the call raises
    InvalidTimeAdjustmentError iff M(end) < M(start) for some note; every kept note and every event sits at M(time).
    M itself is held to the exact rational interpolation (1e-9 relative; beats exactly on the grid)."""
    import numpy as np
    ns, bpm = from_hex(case['seqs'][0]), case['bpm']
    before = to_hex(ns)
    res, err = call(sl.rectify_beats, ns, bpm)
    if to_hex(ns) != before:
        return 'argument modified'
    if quantized(ns):
        return expect_err(err, {'QuantizationStatusError'})
    beats = sorted({t.time for t in ns.text_annotations if t.annotation_type == 2 and t.time <= ns.total_time})
    if not beats:
        return expect_err(err, {'RectifyBeatsError'})
    if bpm <= 0 or any(t < 0 for t in all_times(ns)):
        return None      # outside the quantifier
    tt = ns.total_time
    if any(n.start_time > tt or n.end_time > tt for n in ns.notes):
        return None      # outside the quantifier (a well-formed sequence ends at or after its last note)
    knots = sorted(set(beats) | {0.0, tt})
    spb = 60.0 / bpm
    targ = [spb * k for k in range(len(knots))]
    fk, ft = [F(x) for x in knots], [F(y) for y in targ]

    def M(t):
        return float(np.interp(t, knots, targ))

    def exact(t):
        t = F(t)
        i = max(0, min(bisect.bisect_right(fk, t) - 1, len(fk) - 2)) if len(fk) > 1 else 0
        if len(fk) == 1:
            return ft[0]
        return ft[i] + (t - fk[i]) * (ft[i + 1] - ft[i]) / (fk[i + 1] - fk[i])

    # a time after total_time is clamped to the *old* total_time by the map rectify_beats builds: only times
    # within [0,total_time] are judged (notes always are; events may lie later)
    judged = [t for t in set(all_times(ns)) if t <= tt]
    for t in judged:
        m, e = M(t), exact(t)
        if (t in knots and m != targ[knots.index(t)]) or abs(F(m) - e) > F(1, 10**9) * (1 + abs(e)):
            return 'the float beat map sends %r to %r, the interpolation through the beats gives %r' % (t, m, float(e))
    kept, reversed_ = [], None
    for n in ns.notes:
        a, b = M(n.start_time), M(n.end_time)
        if a == b:
            continue                      # collapsed to zero length: the only notes that may go
        if b < a and reversed_ is None:
            reversed_ = n
        kept.append((n, a, b))
    if reversed_ is not None:
        # the map as computed in floats reverses a note (possible for a 1-ulp note next to a beat, see meta level_note)
        return expect_err(err, {'InvalidTimeAdjustmentError'})
    if err is not None:
        return 'unexpected %s (the beat map reverses no note and makes no time negative)' % type(err).__name__
    out, al = res
    if [tuple(map(float, r)) for r in al] != list(zip(knots, targ)):
        return 'alignment rows are not (beat k, k*60/bpm)'
    if len(out.notes) != len(kept):
        gone = [(n.start_time, n.end_time) for n in ns.notes if M(n.start_time) != M(n.end_time)]
        return '%d notes have distinct mapped ends (must be kept), %d notes returned; input notes with non-zero mapped length: %s' % (
            len(kept), len(out.notes), gone[:6])
    exp = clone(ns)
    del exp.notes[:]
    for n, a, b in kept:
        m = exp.notes.add()
        m.CopyFrom(n)
        m.start_time, m.end_time = a, b
    for k in EV:
        if k in ('tempos', 'time_signatures'):
            continue
        a, b = getattr(exp, k), getattr(out, k)
        if len(a) != len(b):
            return '%s: %d events in, %d out' % (k, len(a), len(b))
        for x, y in zip(a, b):
            x.time = M(x.time) if x.time <= tt else y.time
    del exp.tempos[:]
    del exp.time_signatures[:]
    exp.tempos.add(qpm=bpm)
    exp.total_time = max([b for _, _, b in kept] + [0.0])
    r = first_diff(exp, out)
    return 'rectify: %s' % r if r else None


def note_key(n, a, b):
    c = type(n)()
    c.CopyFrom(n)
    c.start_time, c.end_time = a, b
    return c.SerializeToString(deterministic=True)


def o_repeat(sl, case):
    ns, D, sd = from_hex(case['seqs'][0]), case['D'], case.get('sd')
    before = to_hex(ns)
    out, err = call(sl.repeat_sequence_to_duration, ns, D, sd)
    if to_hex(ns) != before:
        return 'argument modified'
    d = sd if sd else ns.total_time
    if quantized(ns) or D <= 0 or d <= 0 or ns.total_time <= 0:
        return None      # outside the quantifier (unquantized, positive lengths)
    if d < ns.total_time:
        return expect_err(err, {'ValueError'})
    if err is not None:
        return 'unexpected %s on a valid input' % type(err).__name__
    # "enough copies": n = ceil(D/d).  D/d is a float quotient in the code; when the real quotient is within
    # 2^-40 (relative) of an integer m the rounded quotient may be m itself, so m copies are accepted as well
    # (the copy that is then missing would start less than 2^-40*D before the cut).
    ratio = F(D) / F(d)
    cands = {math.ceil(ratio)}
    m = round(ratio)
    if m >= 1 and abs(ratio - m) <= ratio * F(1, 2**40):
        cands |= {m, m + 1}
    got = sorted(n.SerializeToString(deterministic=True) for n in out.notes)
    ok = False
    for ncopies in sorted(cands):
        exp, off = [], 0.0
        for k in range(ncopies):
            for n in ns.notes:
                a = fl(F(n.start_time) + F(off)) if off > 0 else n.start_time
                b = fl(F(n.end_time) + F(off)) if off > 0 else n.end_time
                if a < D:
                    exp.append(note_key(n, a, min(b, D)))
            off = fl(F(off) + F(d))
        if got == sorted(exp):
            ok = True
            break
    if not ok:
        return 'notes are not the %s copies at multiples of %r cut at %r (%d found, %d expected)' % (sorted(cands), d, D, len(got), len(exp))
    starts = [n.start_time for n in out.notes]
    if out.total_time > D or any(n.end_time > out.total_time for n in out.notes):
        return 'total_time'
    if out.HasField('subsequence_info'):
        return 'subsequence_info kept'
    # "the concatenation of enough copies CUT at the requested duration": every other container must be what
    # the cut leaves of the concatenated copies — evaluated by composing the library's own public operations
    # (not the model): a cut keeps no pitch bends, only pedal controllers, only chord/beat annotations (C02).
    for ncopies in sorted(cands):
        try:
            cat = sl.concatenate_sequences([ns] * ncopies, [d] * ncopies)
            cut = sl.extract_subsequence(cat, 0, D)
        except Exception:  # pylint: disable=broad-except
            continue
        cut.ClearField('subsequence_info')
        if cut.SerializeToString(deterministic=True) == out.SerializeToString(deterministic=True):
            return None
    return 'result is not the concatenation of %s copies cut at %r (containers other than notes differ)' % (sorted(cands), D)


def o_expand(sl, case):
    ns = from_hex(case['seqs'][0])
    before = to_hex(ns)
    out, err = call(sl.expand_section_groups, ns)
    if to_hex(ns) != before:
        return 'argument modified'
    if not ns.section_groups:
        return None if err is None and to_hex(out) == before else 'no section groups: result must be a copy'
    anns = list(ns.section_annotations)
    ids = py_flatten(ns.section_groups)
    times = [a.time for a in anns] + [ns.total_time]
    valid = not quantized(ns) and all(a < b for a, b in zip(times, times[1:])) and all(i in {a.section_id for a in anns} for i in ids) \
        and len({a.section_id for a in anns}) == len(anns) and all(t >= 0 for t in all_times(ns))
    if not valid:
        return None
    if err is not None:
        return 'unexpected %s on a valid input' % type(err).__name__
    span = {a.section_id: (a.time, times[i + 1]) for i, a in enumerate(anns)}
    if [a.section_id for a in out.section_annotations] != ids:
        return 'sections play in order %s, groups say %s' % ([a.section_id for a in out.section_annotations], ids)
    off, offs = 0.0, []
    for i in ids:
        offs.append(off)
        off = fl(F(off) + F(fl(F(span[i][1]) - F(span[i][0]))))
    if [a.time for a in out.section_annotations] != offs:
        return 'sections start at %s, summed durations are %s' % ([a.time for a in out.section_annotations], offs)
    exp = []
    for i, o in zip(ids, offs):
        a, b = span[i]
        for n in ns.notes:
            if a <= n.start_time < b:
                s = fl(F(n.start_time) - F(a))
                e = fl(F(min(n.end_time, b)) - F(a))
                exp.append(note_key(n, fl(F(s) + F(o)) if o > 0 else s, fl(F(e) + F(o)) if o > 0 else e))
    got = [n.SerializeToString(deterministic=True) for n in out.notes]
    if sorted(got) != sorted(exp):
        return 'notes are not the section contents placed at the section offsets (%d found, %d expected)' % (len(got), len(exp))
    return None


# ----------------------------------------------------------------------------- histories (purity / aliasing)
def _tm(sl, c, q):
    return build_map(c['map'])


HIST_CALLS = {
    'shift': lambda sl, c, q: sl.shift_sequence_times(q[0], c['d']),
    'stretch': lambda sl, c, q: sl.stretch_note_sequence(q[0], c['f']),
    'rr': lambda sl, c, q: sl.remove_redundant_data(q[0]),
    'concat': lambda sl, c, q: sl.concatenate_sequences(q, c.get('durs')),
    'merge': lambda sl, c, q: sl.merge_sequences(q),
    'adjust': lambda sl, c, q: sl.adjust_notesequence_times(q[0], build_map(c['map']), c.get('md')),
    'rectify': lambda sl, c, q: sl.rectify_beats(q[0], c['bpm']),
    'repcat': lambda sl, c, q: sl.repeat_sequence_to_duration(q[0], c['D'], c.get('sd')),
    'expand': lambda sl, c, q: sl.expand_section_groups(q[0]),
}


def res_seqs(r):
    T = type(NS())
    if isinstance(r, T):
        return [r]
    if isinstance(r, (list, tuple)):
        return [x for x in r if isinstance(x, T)]
    return []


def res_canon(r):
    import numpy as np
    T = type(NS())
    if isinstance(r, T):
        return ('ns', to_hex(r))
    if isinstance(r, (list, tuple)):
        return tuple(res_canon(x) for x in r)
    if isinstance(r, np.ndarray):
        return ('nd', r.shape, r.tobytes())
    return ('py', repr(r))


def scramble(ns, salt=1):
    """the caller goes on working on a sequence it was handed back: in-place edits of every container"""
    for n in ns.notes:
        n.pitch = (n.pitch + 7) % 128
        n.start_time = n.start_time * 2 + salt
        n.end_time = n.end_time * 2 + salt + 0.5
    if len(ns.notes) > 1:
        del ns.notes[-1]
    x = ns.notes.add()
    x.pitch, x.velocity, x.start_time, x.end_time = 2, 3, 0.25, 4321.0
    ns.notes.sort(key=lambda n: -n.start_time)
    for k in EV:
        rep = getattr(ns, k)
        for e in rep:
            e.time = e.time * 2 + salt
        if len(rep) > 1:
            del rep[0]
    for t in ns.tempos:
        t.qpm = t.qpm / 2 + 1
    for t in ns.key_signatures:
        t.key = (t.key + 5) % 12
    ns.tempos.add(time=1.75, qpm=77.0)
    ns.pitch_bends.add(time=0.5, bend=-5)
    ns.section_annotations.add(time=3.0, section_id=31)
    ns.section_groups.add(num_times=3).sections.add().section_id = 31
    ns.sequence_metadata.composers.append('edited')
    ns.sequence_metadata.genre.append('edited')
    ns.subsequence_info.end_time_offset += 2.0
    ns.total_time = ns.total_time * 2 + 99.0
    ns.ticks_per_quarter += 3
    ns.id += '~'


def o_history(sl, case):
    """every operation in a short history, whatever its arguments (legal, raising, outside the quantifier):
         call 1            the arguments are byte-for-byte what they were (also when it raised);
                           no returned NoteSequence is one of the argument objects
         the caller edits  every returned sequence in place -> the arguments are still byte-for-byte what they were
         call 2            same outcome as call 1 had when it returned (same exception type and text, or equal
                           results), handing back none of the objects of call 1 or of the arguments"""
    f = HIST_CALLS.get(case['op'])
    if f is None:
        return None
    seqs = [from_hex(h) for h in case['seqs']]
    before = [to_hex(s) for s in seqs]

    def changed():
        return [i for i, (a, s) in enumerate(zip(before, seqs)) if to_hex(s) != a]
    r1, e1 = call(f, sl, case, seqs)
    if changed():
        return 'history: argument %s modified by the call (%s)' % (changed(), 'it returned' if e1 is None else 'it raised ' + type(e1).__name__)
    c1 = res_canon(r1) if e1 is None else None
    out1 = res_seqs(r1) if e1 is None else []
    shared = [(i, j) for i, o in enumerate(out1) for j, q in enumerate(seqs) if o is q]
    if shared:
        return 'history: the returned sequence %d IS the argument object %d (no new sequence was made)' % shared[0]
    for i, o in enumerate(out1):
        scramble(o, i + 1)
    if changed():
        return ('history: argument %s changed when the caller edited the returned sequence in place '
                '(the result shares memory with the argument)' % changed())
    r2, e2 = call(f, sl, case, seqs)
    if changed():
        return 'history: argument %s modified by the second call' % changed()
    if (e1 is None) != (e2 is None):
        return 'history: the second call %s, the first %s' % ('raised ' + type(e2).__name__ if e2 is not None else 'returned',
                                                              'raised ' + type(e1).__name__ if e1 is not None else 'returned')
    if e1 is not None:
        if (type(e1).__name__, str(e1)) != (type(e2).__name__, str(e2)):
            return 'history: the second call raised %s(%s), the first %s(%s)' % (type(e2).__name__, e2, type(e1).__name__, e1)
        return None
    if res_canon(r2) != c1:
        return 'history: the second call returns a different result (after the caller edited the first result in place)'
    out2 = res_seqs(r2)
    if any(a is b for a in out2 for b in out1) or any(a is q for a in out2 for q in seqs):
        return 'history: the second call hands back an object of the first result / an argument'
    return None


def o_interp(sl, case):
    return None    # numpy's function, no statement of the property about it (correspondence only)


def compose_plan(sl, case):
    """(first step, second step, the single step the two must equal or (None, None))"""
    k, a, b = case['kind'], case['a'], case['b']
    sh, st = sl.shift_sequence_times, sl.stretch_note_sequence
    if k == 'shift2':
        return (sh, a), (sh, b), (sh, a + b)
    if k == 'stretch2':
        return (st, a), (st, b), (st, a * b)
    return (sh, a), (st, b), (None, None)           # 'stretchshift': compared with stretch-then-shift by the oracle


def o_compose(sl, case):
    """operation sequences on inputs whose arithmetic is exact in doubles (dyadic times, power-of-two factors): the result
    of the second step applied to the RESULT of the first is the single operation with the combined argument; neither step
    modifies the object it was given (the original, or the intermediate result)"""
    ns = from_hex(case['seqs'][0])
    before = to_hex(ns)
    (f1, a1), (f2, a2), (fc, ac) = compose_plan(sl, case)
    mid, e1 = call(f1, ns, a1)
    if to_hex(ns) != before:
        return 'compose: argument modified by the first step'
    if e1 is not None:
        return expect_err(e1, {'QuantizationStatusError'}) if quantized(ns) else 'compose: first step raised %s on a valid input' % type(e1).__name__
    mid_before = to_hex(mid)
    two, e2 = call(f2, mid, a2)
    if to_hex(mid) != mid_before:
        return 'compose: the intermediate result was modified by the second step'
    if to_hex(ns) != before:
        return 'compose: the original argument changed during the second step (the intermediate result shares memory with it)'
    if e2 is not None:
        return 'compose: second step raised %s on the result of the first' % type(e2).__name__
    if two is mid or two is ns or mid is ns:
        return 'compose: a step returned the object it was given'
    if fc is not None:
        one, e = call(fc, ns, ac)
        what = '%s(%r) after %s(%r) vs one step with %r' % (f2.__name__, a2, f1.__name__, a1, ac)
    else:
        # stretch(shift(s, d), f) == shift(stretch(s, f), d * f)
        m2, e = call(f2, ns, a2)
        one, e = call(f1, m2, a1 * a2) if e is None else (None, e)
        what = 'stretch(%r) after shift(%r) vs shift(%r) after stretch(%r)' % (a2, a1, a1 * a2, a2)
    if e is not None:
        return 'compose: %s: the reference computation raised %s' % (what, type(e).__name__)
    r = first_diff(one, two)
    return 'compose: %s: %s' % (what, r) if r else None


ORACLES = {'compose': o_compose, 'shift': o_shift, 'stretch': o_stretch, 'rr': o_rr, 'concat': o_concat, 'merge': o_concat,
           'adjust': o_adjust, 'rectify': o_rectify, 'repcat': o_repeat, 'expand': o_expand, 'interp': o_interp}


# ----------------------------------------------------------------------------- generators
def ulps(rng, x, k=3):
    y = nswire.nextafter_n(x, rng.randrange(-k, k + 1))
    return y if y == 0 or abs(y) > 1e-300 else x     # subnormals are outside the float model (DESIGN 2.3)


def pos_double(rng):
    """positive doubles: simple, arbitrary, tiny, large, next to 1"""
    k = rng.random()
    if k < 0.25:
        return rng.choice([0.5, 1.0, 2.0, 0.25, 1.5, 3.0, 0.1, 1 / 3, 4.0])
    if k < 0.65:
        return rng.uniform(0.01, 10)
    if k < 0.75:
        return rng.uniform(1e-9, 1e-3)
    if k < 0.85:
        return rng.uniform(100, 1e6)
    if k < 0.93:
        return ulps(rng, 1.0, 4)
    return math.ldexp(rng.random() + 0.5, rng.randrange(-30, 30))


def logu(rng, lo, hi):
    return math.exp(rng.uniform(math.log(lo), math.log(hi)))


def set_times(ns, g):
    for n in ns.notes:
        n.start_time, n.end_time = g(n.start_time), g(n.end_time)
    for k in EV:
        for e in getattr(ns, k):
            e.time = g(e.time)
    ns.total_time = g(ns.total_time)


def retime(rng, ns):
    """magnitude diversity: an ORDER-PRESERVING re-timing of every time of `ns` (note starts/ends, all event
    containers, total_time), so start <= end and every coincidence survive, but the distinct times are laid out again
    over a long piece (up to 10^4 s) with gaps of very different sizes: 1e-4..1e-2 s (grace notes), 1e-7..1e-4 s,
    1..8 ulps, ordinary (0.05..2 s) and long rests.  Returns the scale."""
    times = sorted(set(all_times(ns) + [ns.total_time]))
    if not times or times[0] < 0:
        return None
    S = rng.choice([1.0, 30.0, 300.0, 3000.0, 1e4, logu(rng, 10, 1e4)])
    if times[0] == 0.0 and rng.random() < 0.6:
        cur = 0.0
    else:
        cur = rng.choice([0.0, S, round(S * rng.random(), 3), S * rng.random()])
    new = {}
    for i, t in enumerate(times):
        if i > 0:
            k = rng.random()
            if k < 0.30:
                nxt = cur + logu(rng, 1e-4, 1e-2)
                if rng.random() < 0.5:
                    nxt = round(nxt, rng.choice([3, 4, 6]))       # decimal times as in a transcription: 300.002
            elif k < 0.38:
                nxt = cur + logu(rng, 1e-7, 1e-4)
            elif k < 0.50 and cur > 1e-3:
                nxt = nswire.nextafter_n(cur, rng.choice([1, 1, 2, 3, 8]))
            elif k < 0.80:
                nxt = cur + rng.choice([0.125, 0.5, rng.uniform(0.05, 2.0)])
            else:
                nxt = cur + rng.choice([S, rng.uniform(0, 2 * S / len(times)), round(rng.uniform(0, S), 1)])
            cur = nxt if nxt > cur else nswire.nextafter_n(cur, 1) if cur > 1e-3 else cur + 1e-4
        new[t] = cur
    set_times(ns, lambda t: new[t])
    return S


def note_classes(ns, f):
    """coverage labels: what the map does to the notes (both sides of the collapse boundary)"""
    out = set()
    for n in ns.notes:
        try:
            a, b = f(n.start_time), f(n.end_time)
        except Exception:  # pylint: disable=broad-except
            continue
        d0 = n.end_time - n.start_time
        if d0 == 0:
            out.add('note:zero-length-input')
        if a == b and d0 > 0:
            out.add('note:collapsed-by-map' + ('(short)' if d0 <= 0.011 else ''))
        elif b > a:
            if d0 <= 0.011:
                out.add('note:short-input-kept(t>=100)' if n.start_time >= 100 else 'note:short-input-kept')
            if b - a < 1e-6:
                out.add('note:shrunk-below-1e-6-kept')
            if b - a <= 1e-8 + 1e-5 * abs(b):
                out.add('note:kept-though-isclose')
        elif b < a:
            out.add('note:reversed')
    return sorted(out)


def add_state_events(rng, ns, pool):
    """extra tempos / signatures from small value pools so that values repeat across times and pieces"""
    for _ in range(rng.choice([0, 0, 1, 2, 4])):
        x = ns.tempos.add()
        x.time, x.qpm = rng.choice(pool), rng.choice([120.0, 60.0, 90.5])
    for _ in range(rng.choice([0, 0, 1, 2, 4])):
        x = ns.time_signatures.add()
        x.time = rng.choice(pool)
        x.numerator, x.denominator = rng.choice([(4, 4), (3, 4)])
    for _ in range(rng.choice([0, 0, 1, 2, 4])):
        x = ns.key_signatures.add()
        x.time, x.key, x.mode = rng.choice(pool), rng.choice([0, 7]), rng.choice([0, 0, 1])


def add_groups(rng, ns, ids, depth=0):
    for _ in range(rng.choice([1, 1, 2])):
        g = ns.section_groups.add()
        fill_group(rng, g, ids, depth)


def fill_group(rng, g, ids, depth):
    g.num_times = rng.choice([1, 1, 2, 2, 3, 0])
    for _ in range(rng.choice([1, 2, 2, 3])):
        s = g.sections.add()
        if depth < 2 and rng.random() < 0.25:
            fill_group(rng, s.section_group, ids, depth + 1)
        else:
            s.section_id = rng.choice(ids)


def gen_piece(rng, max_notes=8, quant=0.04, empty=0.06, meta=True, state=True, mag=0.3):
    g = nswire.NSGen(rng, max_notes=max_notes)
    if rng.random() < empty:
        ns = NS() if rng.random() < 0.5 else g.make(notes=False, sub=True)
        if len(ns.ListFields()):
            ns.total_time = 0.0
        return ns
    ns = g.make(sub=True)
    if state and rng.random() < 0.5:
        add_state_events(rng, ns, g.pool)
    if rng.random() < mag:
        retime(rng, ns)
    if meta and rng.random() < 0.4:
        for _ in range(rng.randrange(0, 4)):
            ns.sequence_metadata.composers.append(rng.choice(['Bach', 'Bartók', 'x', '']))
        for _ in range(rng.randrange(0, 3)):
            ns.sequence_metadata.genre.append(rng.choice(['folk', 'jazz']))
        if rng.random() < 0.3:
            ns.sequence_metadata.artist = 'a%d' % rng.randrange(3)
    if rng.random() < 0.15:
        add_groups(rng, ns, [0, 1, 2])
    if rng.random() < quant:
        if rng.random() < 0.5:
            ns.quantization_info.steps_per_quarter = rng.choice([1, 4])
        else:
            ns.quantization_info.steps_per_second = 100
        ns.total_quantized_steps = rng.choice([0, 16])
    return ns


def case_shift(rng):
    ns = gen_piece(rng)
    k = rng.random()
    d = pos_double(rng) if k < 0.9 else rng.choice([0.0, -1.0, -0.5, -1e-9])
    return {'op': 'shift', 'seqs': [to_hex(ns)], 'd': d}, ['shift:' + ('positive' if d > 0 else 'non-positive')]


def case_stretch(rng):
    ns = gen_piece(rng)
    k = rng.random()
    f = pos_double(rng) if k < 0.86 else rng.choice([1.0, 1, nswire.nextafter_n(1.0, 1), nswire.nextafter_n(1.0, -1)]) if k < 0.92 \
        else rng.choice([0.0, -1.0, -2.5])
    return {'op': 'stretch', 'seqs': [to_hex(ns)], 'f': f}, ['stretch:' + ('one' if f == 1.0 else 'positive' if f > 0 else 'non-positive')]


def dyadic_piece(rng):
    """a generated piece with every time snapped to a multiple of 1/64 below 2^20 and every tempo to a multiple of 1/4 in
    1..1024: sums with dyadic offsets and products / quotients with power-of-two factors are then exact in doubles"""
    ns = gen_piece(rng, mag=0.15)

    def snap(t):
        return round(max(min(t, 2.0 ** 20), 0.0) * 64) / 64
    for n in ns.notes:
        n.start_time, n.end_time = snap(n.start_time), snap(n.end_time)
    for k in EV:
        for e in getattr(ns, k):
            e.time = snap(e.time)
    ns.total_time = snap(ns.total_time)
    if ns.HasField('subsequence_info'):
        ns.subsequence_info.start_time_offset = snap(ns.subsequence_info.start_time_offset)
        ns.subsequence_info.end_time_offset = snap(ns.subsequence_info.end_time_offset)
    for t in ns.tempos:
        t.qpm = min(max(round(t.qpm * 4) / 4, 1.0), 1024.0)
    return ns


def case_compose(rng):
    ns = dyadic_piece(rng)
    kind = rng.choice(['shift2', 'stretch2', 'stretch2', 'stretchshift'])
    pw = [0.125, 0.25, 0.5, 2.0, 4.0, 8.0]
    if kind == 'shift2':
        a, b = rng.randrange(1, 4096) / 64, rng.randrange(1, 4096) / 64
        tag = 'sum'
    elif kind == 'stretch2':
        a = rng.choice(pw + [1.0])
        b = 1 / a if rng.random() < 0.35 else rng.choice(pw + [1.0])
        tag = 'product-one' if a * b == 1.0 else 'one-factor-one' if 1.0 in (a, b) else 'general'
    else:
        a, b = rng.randrange(1, 4096) / 64, rng.choice(pw)
        tag = 'general'
    return {'op': 'compose', 'kind': kind, 'a': a, 'b': b, 'seqs': [to_hex(ns)]}, ['compose:%s:%s' % (kind, tag)]


def case_rr(rng):
    g = nswire.NSGen(rng, max_notes=3)
    ns = g.make(sub=True)
    pool = g.pool[:rng.choice([2, 3, 8])]
    for _ in range(rng.choice([1, 2])):
        add_state_events(rng, ns, pool)
    if rng.random() < 0.5:
        ns = nswire.shuffled(ns, rng)
    if rng.random() < 0.6:
        for _ in range(rng.randrange(0, 6)):
            ns.sequence_metadata.composers.append(rng.choice(['a', 'b', 'c', '']))
        for _ in range(rng.randrange(0, 4)):
            ns.sequence_metadata.genre.append(rng.choice(['x', 'y']))
    return {'op': 'rr', 'seqs': [to_hex(ns)]}, []


def case_concat(rng, merge=False):
    n = rng.choice([1, 2, 2, 3, 3, 4, 5]) if rng.random() < 0.97 else 0
    seqs = [gen_piece(rng, max_notes=rng.choice([0, 2, 5])) for _ in range(n)]
    if n > 1 and rng.random() < 0.2:      # the same piece twice: every state event of the copy is redundant
        seqs[rng.randrange(1, n)] = clone(seqs[0])
    hist = ['pieces:%d' % n]
    case = {'op': 'merge' if merge else 'concat', 'seqs': [to_hex(s) for s in seqs]}
    if merge:
        return case, hist
    k = rng.random()
    if k < 0.4:
        case['durs'] = None
        hist.append('durations:none')
    elif k < 0.45:
        case['durs'] = []
        hist.append('durations:empty-list')
    else:
        durs = []
        for s in seqs:
            j = rng.random()
            durs.append(s.total_time if j < 0.35 else s.total_time + rng.choice([0.5, 1.0, 0.1, rng.random()]) if j < 0.93
                        else nswire.nextafter_n(s.total_time, -1) if j < 0.97 and s.total_time > 0 else s.total_time / 2)
        if rng.random() < 0.06 and durs:
            durs = durs[:-1] if rng.random() < 0.5 else durs + [1.0]
        if rng.random() < 0.07 and durs:
            # the first value of the range: duration 0 / 0.0 (falsy numbers) - legal exactly for a piece of total_time 0
            z = rng.choice([0, 0.0])
            if rng.random() < 0.3:
                durs = [z for _ in durs]
            else:
                durs[rng.randrange(len(durs))] = z
            if rng.random() < 0.4 and seqs:
                i = rng.randrange(len(seqs))
                seqs[i] = NS() if rng.random() < 0.5 else nswire.NSGen(rng, max_notes=0).make(notes=False, sub=True)
                seqs[i].total_time = 0.0
                if i < len(durs):
                    durs[i] = z
                case['seqs'] = [to_hex(q) for q in seqs]
            hist.append('durations:zero-for-%s-piece' % ('a-non-empty' if any(
                d == 0 and q.total_time > 0 for d, q in zip(durs, seqs)) else 'an-empty'))
        case['durs'] = durs
        hist.append('durations:explicit')
        if len(durs) != len(seqs):
            hist.append('durations:wrong-length')
        elif any(d < s.total_time for d, s in zip(durs, seqs)):
            hist.append('durations:too-short')
    return case, hist


def gen_map(rng, tmax):
    k = rng.random()
    if k < 0.2:
        return {'kind': 'lin', 'a': rng.choice([2.0, 0.5, 1.0, 1 / 3, rng.uniform(0.1, 4)]), 'b': rng.choice([0.0, 0.0, 1.0, 0.25, rng.random()])}, 'map:linear'
    if k < 0.65:
        n = rng.choice([2, 3, 4, 6])
        xs = sorted({round(rng.uniform(0, tmax + 1), rng.choice([0, 1, 3])) for _ in range(n)} | {0.0})
        if len(xs) < 2:
            xs.append(xs[-1] + 1.0)
        ys, y = [], rng.choice([0.0, 0.0, 0.5])
        for i in range(len(xs)):
            ys.append(y)
            y += rng.choice([0.0, 0.0, 0.5, 1.0, rng.random() * 2])   # flat segments collapse notes
        return {'kind': rng.choice(['pl', 'pl', 'npinterp']), 'xs': xs, 'ys': ys}, 'map:piecewise-linear'
    if k < 0.75:
        return {'kind': 'step', 'g': rng.choice([0.5, 1.0, 2.0, 10.0])}, 'map:step'
    if k < 0.82:
        return {'kind': 'const', 'c': rng.choice([0.0, 1.0, -1.0])}, 'map:constant'
    if k < 0.91:
        return {'kind': 'lin', 'a': rng.choice([1.0, 2.0]), 'b': -rng.choice([0.125, 0.5, 1.0, 3.0])}, 'map:negative-somewhere'
    return {'kind': 'rev', 'c': rng.choice([tmax, tmax + 1, 100.0, 0.0])}, 'map:reversing'


def gen_map_mag(rng, ns):
    """time maps for the collapse boundary at every magnitude: slopes 1e-3..1e3 (and ~0: flat / 1e-9), knots on, next
    to (ulps, 1e-5..1e-2 s) and inside the notes, so that a map (a) genuinely collapses a short note (flat segment,
    grid cell, float absorption), (b) shrinks it to a tiny but non-zero length, (c) leaves it alone late in a long piece"""
    ts = sorted(set(all_times(ns))) or [0.0]
    tmax = max(ts + [1.0])
    shorts = [(n.start_time, n.end_time) for n in ns.notes if 0 < n.end_time - n.start_time <= 0.011]
    k = rng.random()
    if k < 0.25:
        a = rng.choice([1e-3, 1e3, 2.0 ** -10, 2.0 ** 10, 1.0, logu(rng, 1e-3, 1e3), logu(rng, 1e-3, 1e3)])
        b = rng.choice([0.0, 0.0, rng.random(), 1e3, logu(rng, 1e-3, 1e4)])
        return {'kind': 'lin', 'a': a, 'b': b}, 'map:linear-slope-%s' % ('>=1' if a >= 1 else '<1')
    if k < 0.85:
        cand = {0.0}
        for t in rng.sample(ts, min(len(ts), rng.choice([1, 2, 3, 5]))):
            j = rng.random()
            cand.add(t if j < 0.5 else ulps(rng, t, 2) if (j < 0.7 and t > 1e-3) else max(0.0, t + rng.choice([-1, 1]) * logu(rng, 1e-5, 1e-2)))
        if shorts and rng.random() < 0.75:
            a, b = rng.choice(shorts)
            m = rng.random()
            if m < 0.35:
                cand |= {a, b}                                   # one segment is exactly the short note
            elif m < 0.7:
                e = rng.choice([logu(rng, 1e-4, 1e-2), b - a])
                cand |= {max(0.0, a - e), b + e}                 # the short note strictly inside one segment
            else:
                cand.add(a + (b - a) / 2)                        # a knot inside the short note
        cand.add(tmax + rng.choice([0.0, 1.0, 1e-3]))
        xs = sorted(cand)
        if len(xs) < 2:
            xs.append(xs[-1] + 1.0)
        ys, y = [], rng.choice([0.0, 0.0, 0.5, 100.0])
        for i in range(len(xs)):
            ys.append(y)
            if i + 1 < len(xs):
                dx = xs[i + 1] - xs[i]
                j = rng.random()
                slope = 0.0 if j < 0.3 else logu(rng, 1e-9, 1e-3) if j < 0.45 else logu(rng, 1e-3, 1e3) if j < 0.85 else 1.0
                y = y + slope * dx
        return {'kind': rng.choice(['pl', 'npinterp', 'npinterp']), 'xs': xs, 'ys': ys}, 'map:piecewise-linear-slopes-1e-9..1e3'
    if k < 0.93:
        return {'kind': 'step', 'g': rng.choice([1e-3, 1e-2, 0.1, 1.0, 100.0])}, 'map:step'
    if k < 0.97:
        return {'kind': 'rev', 'c': rng.choice([tmax, tmax + 1, 2e4])}, 'map:reversing'
    return {'kind': 'lin', 'a': rng.choice([1.0, 1e-3]), 'b': -rng.choice([1e-3, 0.5, tmax / 2])}, 'map:negative-somewhere'


def case_adjust(rng):
    mag = rng.random() < 0.5
    ns = gen_piece(rng, quant=0.03, empty=0.03, mag=1.0 if mag else 0.0)
    tmax = max(all_times(ns) + [1.0])
    spec, h = gen_map_mag(rng, ns) if (mag and rng.random() < 0.85) or rng.random() < 0.15 else gen_map(rng, tmax)
    md = rng.choice([None, None, None, None, 0.0, 0.25, 0.01, 1e-4, -0.5])
    hist = [h, 'min_duration:' + ('none' if not md else 'set'), 'times:' + ('long-piece-short-notes' if mag else 'plain')]
    if not md:
        hist += note_classes(ns, build_map(spec))
    return {'op': 'adjust', 'seqs': [to_hex(ns)], 'map': spec, 'md': md}, hist


def case_rectify(rng):
    g = nswire.NSGen(rng, max_notes=8)
    ns = g.make(sub=True, texts=rng.random() < 0.3)
    mag = rng.random() < 0.5
    if mag:
        retime(rng, ns)
    k = rng.random()
    force_bpm = None
    hist = ['times:' + ('long-piece-short-notes' if mag else 'plain')]
    pool = sorted(set(all_times(ns))) if mag else g.pool
    if k < 0.9:
        tt = ns.total_time
        nb = rng.choice([1, 2, 3, 5, 9])
        mode = rng.random()
        ts = []
        if mode < 0.35:        # roughly regular beats with jitter
            if mag and rng.random() < 0.5:
                nb = rng.choice([20, 60, 150, 640])
            step = max(tt, 0.5) / nb
            ts = [max(0.0, i * step + rng.choice([0.0, rng.uniform(-0.2, 0.2) * step])) for i in range(nb + 1)]
        elif mode < 0.6:      # beats on times used by notes/events (coincidences), incl. 0 and total_time
            ts = [rng.choice(pool + [tt]) for _ in range(nb)]
        elif mode < 0.8:      # beats next to times used by notes/events: ulps away, or 1e-5..1e-2 s away
            for _ in range(nb):
                t = rng.choice(pool + [tt])
                j = rng.random()
                ts.append(t if j < 0.3 else ulps(rng, t, 2) if (j < 0.65 and t > 1e-3) else max(0.0, t + rng.choice([-1, 1]) * logu(rng, 1e-5, 1e-2)))
            shorts = [(n.start_time, n.end_time) for n in ns.notes if 0 < n.end_time - n.start_time <= 0.011]
            if shorts and rng.random() < 0.6:
                a, b = rng.choice(shorts)
                ts += rng.choice([[a, b], [a + (b - a) / 2], [a], [b]])
        else:
            ts = [rng.uniform(0, tt + 1) for _ in range(nb)]
        if rng.random() < 0.3 and ts:
            ts.append(ts[0])          # duplicate beat
        if rng.random() < 0.2:
            ts.append(tt + rng.choice([0.5, 1.0]))    # beat after the end is ignored
        rng.shuffle(ts)
        for t in ts:
            x = ns.text_annotations.add()
            x.time, x.annotation_type = t, 2
        hist.append('beats:%s' % ('some' if any(t <= tt for t in ts) else 'all-after-end'))
        hist.append('beats:%s' % ('<=10' if len(ts) <= 10 else '>10'))
    else:
        hist.append('beats:none')
    if rng.random() < 0.05 and ns.total_time >= 1.0:
        # float np.interp is not exactly monotone across a knot (interp_not_monotone_rne53): the only interior beat x0 at an
        # odd multiple of half an ulp of total_time with total_time - x0 in total_time's binade (x1 - x0 and pred(x1) - x0 are
        # both ties), and a 1..2-ulp note ending on the last knot -> the float map may reverse the note -> the code rejects it
        tt = ns.total_time
        for i in reversed(range(len(ns.text_annotations))):
            if ns.text_annotations[i].annotation_type == 2:
                del ns.text_annotations[i]
        h = math.ulp(tt) / 2
        maxj = int((tt - 2.0 ** math.floor(math.log2(tt))) / h) // 2
        j = rng.choice([0, 0, 1, rng.randrange(0, maxj + 1)]) if maxj >= 1 else 0
        x = ns.text_annotations.add()
        x.time, x.annotation_type = (2 * j + 1) * h, 2
        n = ns.notes.add()
        n.pitch, n.velocity = 60, 90
        n.start_time, n.end_time = nswire.nextafter_n(tt, -rng.choice([1, 1, 2])), tt
        hist = [h_ for h_ in hist if not h_.startswith('beats:')] + ['beats:half-ulp-beat+1ulp-note-on-last-knot']
        import numpy as np
        for _ in range(80):           # look for a tempo at which numpy's float interpolation really reverses the note
            force_bpm = rng.uniform(20, 300)
            spb = 60.0 / force_bpm
            if np.interp(n.start_time, [0.0, x.time, tt], [0.0, spb, spb * 2]) > spb * 2:
                hist.append('beats:float-map-reverses-a-1ulp-note')
                break
    if rng.random() < 0.6:            # keep events inside [0,total_time] (where the beat map is an interpolation)
        for kk in EV:
            for e in getattr(ns, kk):
                if e.time > ns.total_time:
                    e.time = ns.total_time
    if rng.random() < 0.04:
        ns.quantization_info.steps_per_quarter = 4
    bpm = rng.choice([120, 60, 100.0, 90.5, 30, rng.uniform(20, 300), logu(rng, 1, 6000)]) if rng.random() < 0.96 else rng.choice([0, -60.0])
    if force_bpm is not None:
        bpm = force_bpm
    return {'op': 'rectify', 'seqs': [to_hex(ns)], 'bpm': bpm}, hist


def case_interp(rng):
    n = rng.choice([1, 2, 3, 5, 8])
    xs = sorted({rng.choice([round(rng.uniform(0, 10), 1), rng.uniform(0, 10), rng.randrange(0, 80) / 8]) for _ in range(n)})
    spb = rng.choice([0.5, 1.0, 60.0 / rng.uniform(20, 300)])
    ys = [spb * k for k in range(len(xs))] if rng.random() < 0.6 else sorted(rng.uniform(0, 20) for _ in xs)
    k = rng.random()
    if k < 0.3:
        x, h = ulps(rng, rng.choice(xs), 2), 'x:knot+-ulps'
    elif k < 0.8:
        x, h = rng.uniform(xs[0], xs[-1]), 'x:inside'
    else:
        x, h = rng.choice([xs[0] - rng.random(), xs[-1] + rng.random()]), 'x:outside'
    return {'op': 'interp', 'seqs': [], 'xs': xs, 'ys': ys, 'x': x, 'left': rng.choice([0.0, -1.0]), 'right': rng.choice([xs[-1], 99.0])}, [h, 'knots:%d' % len(xs)]


def case_repeat(rng):
    ns = gen_piece(rng, max_notes=5, quant=0.03, empty=0.04)
    tt = ns.total_time
    k = rng.random()
    sd = None if k < 0.4 else tt if k < 0.55 else tt + rng.choice([0.5, 1.0, rng.random()]) if k < 0.92 else tt / 2 if k < 0.97 else 0.0
    d = sd if sd else tt
    j = rng.random()
    m = rng.choice([1, 2, 3, 4])
    if d > 0:
        if j < 0.3:
            D, h = d * m, 'target:at-multiple'
        elif j < 0.5:
            D, h = nswire.nextafter_n(d * m, rng.choice([-1, 1])), 'target:multiple+-ulp'
        elif j < 0.95:
            D, h = rng.uniform(0.01, d * 4.5), 'target:arbitrary'
        else:
            D, h = rng.choice([0.0, -1.0]), 'target:non-positive'
    else:
        D, h = rng.choice([1.0, 2.5]), 'length:zero'
    return {'op': 'repcat', 'seqs': [to_hex(ns)], 'D': D, 'sd': sd}, [h, 'sequence_duration:' + ('none' if not sd else 'set')]


def case_expand(rng):
    g = nswire.NSGen(rng, max_notes=8)
    ns = g.make(sub=False, sections=False)
    tt = ns.total_time
    k = rng.random()
    nsec = rng.choice([1, 2, 3, 4])
    hist = []
    if tt > 0 and k < 0.9:
        cuts = sorted({0.0} | {rng.choice([round(rng.uniform(0, tt), 1), rng.choice(g.pool)]) for _ in range(nsec - 1)})
        cuts = [c for c in cuts if c < tt]
        ids = list(range(len(cuts)))
        if rng.random() < 0.3:
            rng.shuffle(ids)
        for c, i in zip(cuts, ids):
            ns.section_annotations.add(time=c, section_id=i)
        if rng.random() < 0.06 and len(ns.section_annotations) > 1:     # unsorted annotations
            a, b = ns.section_annotations[0], ns.section_annotations[1]
            a.time, b.time = b.time, a.time
            hist.append('annotations:unsorted')
        use = ids + ([9] if rng.random() < 0.06 else [])
        if rng.random() < 0.9:
            add_groups(rng, ns, use)
            hist.append('groups:present')
        else:
            hist.append('groups:none')
    else:
        hist.append('groups:none')
    if rng.random() < 0.03:
        ns.quantization_info.steps_per_quarter = 4
    return {'op': 'expand', 'seqs': [to_hex(ns)]}, hist


STREAMS = [  # (name, case generator, quick count, thorough count)
    ('shift', case_shift, 1500, 30000),
    ('stretch', case_stretch, 1500, 30000),
    ('remove_redundant', case_rr, 1500, 30000),
    ('compose', case_compose, 1200, 30000),
    ('concatenate', case_concat, 2500, 50000),
    ('merge', lambda rng: case_concat(rng, merge=True), 600, 12000),
    ('adjust', case_adjust, 2000, 40000),
    ('rectify', case_rectify, 2000, 40000),
    ('interp', case_interp, 5000, 150000),
    ('repeat', case_repeat, 1500, 25000),
    ('expand', case_expand, 1500, 25000),
]


def result_kind(line):
    return 'result:' + (line.split()[1] if line.startswith('err') else 'ok')


def run(chk):
    from note_seq import sequences_lib as sl
    from absl import logging as alog
    alog.set_verbosity(alog.ERROR)
    generate(chk)
    chk.prove(MODULES, THEOREMS, [EXE], extra_trusted=TRUSTED)
    chk.rule = ('generated NoteSequences with every event kind (NSGen: times from a shared pool so that events coincide with each '
                'other, note boundaries and total_time; extra tempo/signature events from small value pools; metadata lists with '
                'duplicates; section groups; a few quantized and empty pieces) x per-operation arguments: arbitrary positive doubles '
                '(incl. 1.0 +- ulps, tiny, huge) and non-positive ones for shift/stretch; 0-5 pieces with no/empty/exact/longer/'
                'too-short/wrong-length durations; linear, piecewise-linear (flat segments), step, constant, negative and reversing '
                'time maps with and without minimum_duration; beat lists (jittered, on event times, duplicated, after the end, none) '
                'x bpm; np.interp knots +- ulps; repeat targets at, next to and between multiples; section-group forests. '
                'Magnitude diversity (30% of shift/stretch/concatenate/repeat pieces, 50% of adjust/rectify): an order-preserving '
                're-timing lays the distinct times out over pieces up to 10^4 s long with gaps of 1..8 ulps, 1e-7..1e-4 s, '
                '1e-4..1e-2 s (grace notes, decimal times like 300.002), ordinary and long rests; time maps with slopes 1e-3..1e3 '
                '(linear; piecewise-linear / np.interp with knots on, ulps or 1e-5..1e-2 s next to, around and inside the short '
                'notes; flat and 1e-9-slope segments; grids 1e-3..100) so that short notes are genuinely collapsed, shrunk to a '
                'tiny non-zero length, or left alone late in a long piece; beats on / ulps next to / inside short notes, up to 640 '
                'beats, bpm 1..6000.  The adjust and rectify oracles demand with exact float equality: dropped iff mapped start == '
                'mapped end, raises iff mapped end < mapped start (or a negative time). '
                'non-trivial = distinct request answered by the model with a value or a Python exception name')
    shown = set()

    def batch(cases):
        reqs, impl, owner = [], [], []
        for name, c, hist in cases:
            for req, res in request(sl, c):
                reqs.append(req)
                impl.append(res)
                owner.append((name, c, hist))
        model = chk.driver(EXE, reqs)
        for (name, c, hist), req, a, b in zip(owner, reqs, impl, model):
            chk.count(name, req, not b.startswith('bad-op'), hist + ['op:' + req.split(' ', 1)[0], result_kind(a)])
            if a != b:
                chk.disagree(name, c, a[:1500], b[:1500])
            if name not in shown and a.startswith('ok') and len(req) > 200:
                shown.add(name)
                chk.sample({'stream': name, 'request': req[:160] + ' …', 'impl': a[:120] + ' …', 'model_equal': a == b}, limit=12)
        # the property oracle on the real code (independent of the model)
        for name, c, hist in cases:
            if len(chk.failures) > 20:
                break
            chk.count('oracle', None)
            try:
                r = ORACLES[c['op']](sl, c) or o_history(sl, c)
            except Exception as e:  # pylint: disable=broad-except
                import traceback
                raise RuntimeError('oracle crashed on %s: %s' % (c['op'], traceback.format_exc())) from e
            if r:
                chk.fail('%s: %s' % (c['op'], r), c)

    batch([('corpus', c.get('input', c), ['corpus:' + name]) for name, c in corpus_cases(PID)])
    for name, gen, q, t in STREAMS:
        rng = chk.subrng(name)
        left = chk.n(q, t)
        while left > 0:
            k = min(left, 10000)
            left -= k
            cases = []
            for _ in range(k):
                c, hist = gen(rng)
                cases.append((name, c, hist))
            batch(cases)


def replay(chk, obj):
    from note_seq import sequences_lib as sl
    from absl import logging as alog
    alog.set_verbosity(alog.ERROR)
    print('replay C13: op=%s %s' % (obj['op'], {k: v for k, v in obj.items() if k not in ('seqs', 'op')}))
    r = ORACLES[obj['op']](sl, obj) or o_history(sl, obj)
    print('PROPERTY FAILS: %s' % r if r else 'property holds on this input')
    return 1 if r else 0


TRUSTED = [
    'rne53 as a model of IEEE-754 binary64 arithmetic (validated bit-exactly by every request of this run)',
    'protobuf semantics modelled, not verified: CopyFrom/deepcopy = value copy; MergeFrom = repeated fields appended, scalars '
    'overwritten when non-default, oneof overwritten by the set member (Model/C13.lean mergeFrom); in-place stable sort of a '
    'repeated field; message equality; the merge of the unmodelled metadata fields is computed by protobuf itself in the harness '
    'and passed to the model as a parameter',
    "np.interp / np.arange / math.ceil: numpy's arr_interp formula slope*(x-xp[j])+fp[j] with slope=(fp[j+1]-fp[j])/(xp[j+1]-xp[j]) "
    'transcribed as interpR and validated against np.interp on the interp and rectify streams; the theorems use only its exact-arithmetic form',
    'extract_subsequence (property C02): repeat/expand models are parametric in it; the driver instance is Model/C02.lean',
    'harness/c13.py: AST extraction of the event-container lists of shift/stretch/adjust into Generated/C13.lean',
]
