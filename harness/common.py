"""Common machinery for every property check (see DESIGN.md section 2).

A property harness module `harness/cXX.py` defines

    PID = 'CXX'
    def run(chk):      # regenerate -> prove -> correspondence -> oracle
    def replay(chk, obj):   # re-run one replay object against the real code

and uses the `Check` object below for: regenerating Lean files from /repo, building
and auditing the proof obligations, talking to the compiled Lean driver, recording
correspondence disagreements / property failures on the real code, matching known
findings, and writing evidence + verdict.

Exit codes: 0 = property held on everything explored, 1 = VIOLATION printed,
2 = the machinery itself failed (never reported as a violation).
"""
import fcntl
import hashlib
import json
import os
import random
import re
import subprocess
import sys
import time
import traceback
from fractions import Fraction
from pathlib import Path

VERIF = Path(__file__).resolve().parent.parent
LEAN = VERIF / 'lean'
REPO = Path(os.environ.get('NOTE_SEQ_REPO', '/repo'))
EVIDENCE = VERIF / 'evidence'
REPLAYS = VERIF / 'replays'
CORPUS = VERIF / 'corpus'
KNOWN = VERIF / 'known_findings.json'

ALLOWED_AXIOMS = {'propext', 'Classical.choice', 'Quot.sound'}
FORBIDDEN = re.compile(
    r'\bsorry\b|\badmit\b|^\s*axiom\b|native_decide|bv_decide|implemented_by|'
    r'\bunsafe\b|maxHeartbeats\s+0\b|\bextern\b', re.M)


# ----------------------------------------------------------------------------- wire
def rat(x):
    """exact wire form of a Python number (float -> num/den)."""
    if isinstance(x, bool):
        return '1' if x else '0'
    if isinstance(x, int):
        return str(x)
    if isinstance(x, Fraction):
        return str(x.numerator) if x.denominator == 1 else '%d/%d' % (x.numerator, x.denominator)
    x = float(x)
    if x != x or x in (float('inf'), float('-inf')):
        raise ValueError('non-finite float on the wire: %r' % x)
    n, d = x.as_integer_ratio()
    return str(n) if d == 1 else '%d/%d' % (n, d)


def unrat(tok):
    if '/' in tok:
        n, d = tok.split('/')
        return Fraction(int(n), int(d))
    return Fraction(int(tok))


def wl(items):
    """wire list: '<n> item*'"""
    items = list(items)
    return ' '.join([str(len(items))] + [str(i) for i in items])


def strip_lean_comments(src):
    out, i, depth, n = [], 0, 0, len(src)
    while i < n:
        if src.startswith('/-', i):
            depth += 1
            i += 2
        elif depth and src.startswith('-/', i):
            depth -= 1
            i += 2
        elif depth:
            if src[i] == '\n':
                out.append('\n')
            i += 1
        elif src.startswith('--', i):
            while i < n and src[i] != '\n':
                i += 1
        elif src[i] == '"':
            j = i + 1
            while j < n and src[j] != '"':
                j += 2 if src[j] == '\\' else 1
            out.append('""')
            i = j + 1
        else:
            out.append(src[i])
            i += 1
    return ''.join(out)


def lean_str(s):
    return '"' + s.replace('\\', '\\\\').replace('"', '\\"').replace('\n', '\\n') + '"'


def lean_int(i):
    return str(i) if i >= 0 else '(%d)' % i


def lean_list(items):
    return '[' + ', '.join(items) + ']'


BOOST = 3     # quick-tier stream multiplier when an anchored source file differs from the committed baseline


class MachineryError(Exception):
    pass


# ----------------------------------------------------------------------------- Check
class Check:
    def __init__(self, pid, tier, seed):
        self.pid, self.tier, self.seed = pid, tier, seed
        self.t0 = time.time()
        self.rng = random.Random((seed * 1000003 + int(pid[1:])) & 0xFFFFFFFF)
        self.thorough = tier == 'thorough'
        self.obligations = 0
        self.discharged = 0
        self.broken = []          # names of theorems / build targets that no longer check
        self.axioms = {}          # theorem -> axioms
        self.translit = {}        # free-form notes on translator ties
        self.disagreements = []   # correspondence disagreements (model vs implementation)
        self.failures = []        # property failures observed on the real code
        self.known_lines = []
        self.streams = {}         # stream name -> dict(evaluations=, nontrivial=set(), hist={})
        self.samples = []
        self.trusted = []
        self.assumptions = []
        self.checker_cmds = []
        self.notes = {}
        self.rule = ''
        self.exhaustive = False
        self.replay_n = 0
        self.known = [e for e in json.loads(KNOWN.read_text()).get('findings', [])
                      if e.get('property') == pid] if KNOWN.exists() else []

        self.changed_sources = self._changed_sources()
        self.notes['source_fingerprint'] = ('anchored source files identical to the committed baseline' if not self.changed_sources
                                            else 'anchored source files differ from the committed baseline: %s -> quick stream sizes x%d'
                                            % (', '.join(self.changed_sources), BOOST))

    # ------------------------------------------------------------------ scale helper
    def _changed_sources(self):
        """files this property is anchored in (properties.jsonl) whose content differs from harness/source_baseline.json,
        looked up where the interpreter will import note_seq from (so a PYTHONPATH shadow copy counts)"""
        try:
            import importlib.util
            base = json.loads((VERIF / 'harness' / 'source_baseline.json').read_text())
            spec = importlib.util.find_spec('note_seq')
            root = Path(list(spec.submodule_search_locations)[0]).parent
            files = []
            for l in (VERIF / 'properties.jsonl').read_text().splitlines():
                if l.strip():
                    pr = json.loads(l)
                    if pr['id'] == self.pid:
                        files = pr['anchors']['files']
            out = []
            # anchored files first, then every other source file of the package (constants, events_lib, … matter too)
            for f in list(files) + sorted(set(base) - set(files)):
                q = root / f
                h = hashlib.sha256(q.read_bytes()).hexdigest() if q.exists() else 'missing'
                if base.get(f) != h:
                    out.append(f)
            return out
        except Exception:  # pylint: disable=broad-except
            return []

    def n(self, quick, thorough):
        if self.thorough:
            return thorough
        if self.changed_sources:
            return max(quick, min(thorough, quick * BOOST))
        return quick

    def subrng(self, name):
        h = int(hashlib.sha256(('%s/%s/%d' % (self.pid, name, self.seed)).encode()).hexdigest()[:12], 16)
        return random.Random(h)

    # ------------------------------------------------------------------ regenerate
    def regenerate(self, relpath, content):
        """(re)write a generated Lean file under lean/ only if its content changed."""
        p = LEAN / relpath
        p.parent.mkdir(parents=True, exist_ok=True)
        if p.exists() and p.read_text() == content:
            return False
        tmp = p.with_suffix('.tmp%d' % os.getpid())
        tmp.write_text(content)
        os.replace(tmp, p)
        return True

    # ------------------------------------------------------------------ build / audit
    def _lake(self, args, timeout=3600):
        lock = open(LEAN / '.build.lock', 'w')
        fcntl.flock(lock, fcntl.LOCK_EX)
        try:
            r = subprocess.run(['lake'] + args, cwd=LEAN, capture_output=True, text=True,
                               timeout=timeout)
        finally:
            fcntl.flock(lock, fcntl.LOCK_UN)
            lock.close()
        return r.returncode, r.stdout + r.stderr

    def _regenerate_dependencies(self, targets):
        """every Generated/Cxx*.lean in the import closure of this check's modules and drivers is regenerated from the
        package the interpreter imports NOW (not only this property's own file): a generated file left behind by a run
        of another property against a different tree can then never leak into this check."""
        import importlib
        seen, todo, gens = set(), [], set()
        exe_roots = {}
        try:
            txt = (LEAN / 'lakefile.toml').read_text()
            for m in re.finditer(r'name\s*=\s*"(drv_\w+)"\s*\nroot\s*=\s*"([\w.]+)"', txt):
                exe_roots[m.group(1)] = m.group(2)
        except OSError:
            pass
        for t in targets:
            todo.append(exe_roots.get(t, t))
        while todo:
            mod = todo.pop()
            if mod in seen:
                continue
            seen.add(mod)
            f = LEAN / (mod.replace('.', '/') + '.lean')
            if not f.exists():
                continue
            for line in f.read_text().splitlines():
                mm = re.match(r'\s*import\s+((?:NoteSeqVerif|Driver)\.[\w.]+)', line)
                if mm:
                    dep = mm.group(1)
                    todo.append(dep)
                    g = re.match(r'NoteSeqVerif\.Generated\.(C\d\d)', dep)
                    if g:
                        gens.add(g.group(1))
        done = []
        for pid in sorted(gens - {self.pid}):
            try:
                mod = importlib.import_module('harness.' + pid.lower())
                if hasattr(mod, 'generate'):
                    sub = Check.__new__(Check)
                    sub.__dict__.update(pid=pid, tier=self.tier, seed=self.seed, translit={}, notes={}, thorough=self.thorough,
                                        changed_sources=self.changed_sources)
                    mod.generate(sub)
                    done.append(pid)
            except Exception as e:  # pylint: disable=broad-except
                self.notes['regenerate_dependency:' + pid] = 'failed: %s: %s' % (type(e).__name__, str(e)[:200])
        if done:
            self.notes['regenerated_dependencies'] = ' '.join(done)

    def prove(self, modules, theorems, exes=(), extra_trusted=()):
        """Build the property's proof modules and drivers, audit axioms of every registered
        theorem, scan sources for forbidden constructs.  Records obligations/discharged and
        the names that no longer check.  Returns True iff everything is discharged."""
        self.obligations += len(theorems)
        self.checker_cmds.append('cd lean && lake build %s && lake env lean <audit: #print axioms of %d theorems>'
                                 % (' '.join(list(modules) + list(exes)), len(theorems)))
        targets = list(modules) + list(exes)
        self._regenerate_dependencies(targets)
        rc, log = self._lake(['build'] + targets)
        self.notes.setdefault('build_log_tail', log[-1500:] if rc else 'ok')
        built = set(modules)
        if rc != 0:
            # find which modules are broken: build them one by one
            built = set()
            for m in modules:
                rc1, log1 = self._lake(['build', m])
                if rc1 == 0:
                    built.add(m)
                else:
                    self.broken.append('build:' + m)
                    self.notes['build_error:' + m] = log1[-3000:]
            for e in exes:
                rc1, log1 = self._lake(['build', e])
                if rc1 != 0:
                    self.broken.append('build:' + e)
                    self.notes['build_error:' + e] = log1[-3000:]
        # audit
        by_mod = {}
        for t in theorems:
            mod, name = t if isinstance(t, tuple) else (modules[-1], t)
            by_mod.setdefault(mod, []).append(name)
        for mod, names in by_mod.items():
            if mod not in built:
                for nme in names:
                    self.broken.append('theorem:' + nme)
                continue
            res = self._audit(mod, names)
            for nme in names:
                ax = res.get(nme)
                if ax is None:
                    self.broken.append('theorem:' + nme + ' (missing)')
                elif not set(ax) <= ALLOWED_AXIOMS:
                    self.broken.append('theorem:' + nme + ' (axioms %s)' % sorted(set(ax) - ALLOWED_AXIOMS))
                else:
                    self.axioms[nme] = sorted(ax)
                    self.discharged += 1
        hits = self.forbidden_scan(modules, exes)
        if hits:
            self.broken.append('forbidden-constructs:' + ';'.join(hits[:5]))
        self.trusted = sorted(set(self.trusted) | set(extra_trusted) | {
            'Lean 4.33.0 kernel', 'axioms: ' + ', '.join(sorted({a for v in self.axioms.values() for a in v}) or ['none']),
            'correspondence harness (generators, canonicalisation, wire format)'})
        if self.thorough and not self.broken:
            self._leanchecker(modules)
        return not self.broken

    def prove_bridge(self, modules, theorems):
        """Bridge theorems `generated definition = hand-written model function` (translator tie T2 for code whose
        property theorems are stated about a hand model).  They are a SECOND tie next to the differential
        correspondence: when one no longer checks, the entries are recorded as 'translator:bridge …' — by themselves
        not a violation (finish()), but `self.bridge_broken` tells the property's harness to aim a much deeper
        differential search at exactly the functions whose generated definition changed."""
        self.bridge_broken = getattr(self, 'bridge_broken', [])
        # (a bridge theorem counts among the obligations of the property only when it checks: the property theorems are
        # about the hand model, whose tie to the code is the correspondence; the bridge tally is in translator_ties)
        self.checker_cmds.append('cd lean && lake build %s (bridge theorems: generated definitions = model functions)'
                                 % ' '.join(modules))
        ok_mods = set()
        for m in modules:
            rc, log = self._lake(['build', m])
            if rc == 0:
                ok_mods.add(m)
            else:
                self.notes['bridge_build_error:' + m] = log[-2500:]
        by_mod = {}
        for mod, name in theorems:
            by_mod.setdefault(mod, []).append(name)
        for mod, names in by_mod.items():
            res = self._audit(mod, names) if mod in ok_mods else {}
            for nme in names:
                ax = res.get(nme)
                if ax is not None and set(ax) <= ALLOWED_AXIOMS:
                    self.axioms[nme] = sorted(ax)
                    self.obligations += 1
                    self.discharged += 1
                else:
                    self.bridge_broken.append(nme)
                    self.broken.append('translator:bridge %s (the definition regenerated from the current source is no longer '
                                       'provably the model function)' % nme)
        hits = self.forbidden_scan(modules, ())
        if hits:
            self.broken.append('forbidden-constructs:' + ';'.join(hits[:5]))
        self.translit['bridge_theorems'] = {'checked': [n for _, n in theorems if n not in self.bridge_broken],
                                            'broken': list(self.bridge_broken)}
        return not self.bridge_broken

    def _audit(self, mod, names):
        d = LEAN / '.audit'
        d.mkdir(exist_ok=True)
        f = d / ('%s_%d.lean' % (self.pid, os.getpid()))
        f.write_text('import %s\n' % mod + ''.join('#print axioms %s\n' % nme for nme in names))
        try:
            r = subprocess.run(['lake', 'env', 'lean', str(f)], cwd=LEAN, capture_output=True,
                               text=True, timeout=1800)
        finally:
            try:
                f.unlink()
            except OSError:
                pass
        out = r.stdout + r.stderr
        res = {}
        for m in re.finditer(r"'([^']+)' depends on axioms: \[([^\]]*)\]", out, re.S):
            res[m.group(1)] = [a.strip() for a in m.group(2).replace('\n', ' ').split(',') if a.strip()]
        for m in re.finditer(r"'([^']+)' does not depend on any axioms", out):
            res[m.group(1)] = []
        # names may be printed fully qualified; map by suffix
        final = {}
        for nme in names:
            for k, v in res.items():
                if k == nme or k.endswith('.' + nme) or nme.endswith('.' + k):
                    final[nme] = v
        self.notes['audit_tail'] = out[-600:]
        return final

    def _import_closure(self, modules, exes):
        """Lean source files (under lean/) that the given modules / driver executables depend on."""
        todo = list(modules) + ['Driver.' + e[len('drv_'):].upper() for e in exes if e.startswith('drv_')]
        seen, files = set(), []
        while todo:
            m = todo.pop()
            if m in seen:
                continue
            seen.add(m)
            f = LEAN / (m.replace('.', '/') + '.lean')
            if not f.exists():
                continue
            files.append(f)
            for mm in re.findall(r'^\s*import\s+((?:NoteSeqVerif|Driver)[\w.]*)', f.read_text(), re.M):
                todo.append(mm)
        return files

    def forbidden_scan(self, modules=None, exes=()):
        """scan the Lean sources this property depends on (import closure of its proof modules and
        drivers) for constructs that would void a proof; all sources if no modules are given."""
        hits = []
        if modules is None:
            files = list((LEAN / 'NoteSeqVerif').rglob('*.lean')) + list((LEAN / 'Driver').rglob('*.lean'))
        else:
            files = self._import_closure(modules, exes)
        self.notes['lean_files_scanned'] = len(files)
        for p in files:
            src = strip_lean_comments(p.read_text())
            for m in FORBIDDEN.finditer(src):
                hits.append('%s:%s' % (p.relative_to(LEAN), m.group(0).strip()))
            if '/Driver/' not in str(p) and 'Common/Wire' not in str(p) and re.search(r'\bpartial\s+def\b', src):
                hits.append('%s:partial def' % p.relative_to(LEAN))
        return hits

    def _leanchecker(self, modules):
        t = time.time()
        try:
            r = subprocess.run(['lake', 'env', 'leanchecker'] + list(modules), cwd=LEAN,
                               capture_output=True, text=True, timeout=3000)
            ok = r.returncode == 0
            self.notes['leanchecker'] = {'modules': list(modules), 'ok': ok, 'wall_s': round(time.time() - t, 1),
                                         'tail': (r.stdout + r.stderr)[-300:]}
            self.checker_cmds.append('cd lean && lake env leanchecker ' + ' '.join(modules))
            if not ok:
                self.broken.append('leanchecker:' + ','.join(modules))
        except subprocess.TimeoutExpired:
            self.notes['leanchecker'] = 'timeout (not counted)'

    # ------------------------------------------------------------------ driver
    def driver(self, exe, lines, timeout=3600):
        """send request lines to the compiled Lean driver, return response lines."""
        lines = list(lines)
        if not lines:
            return []
        binp = LEAN / '.lake' / 'build' / 'bin' / exe
        if not binp.exists():
            raise MachineryError('driver %s not built' % exe)
        data = '\n'.join(lines) + '\n'
        r = subprocess.run([str(binp)], input=data, capture_output=True, text=True, timeout=timeout)
        out = r.stdout.split('\n')
        if out and out[-1] == '':
            out.pop()
        if r.returncode != 0 or len(out) != len(lines):
            raise MachineryError('driver %s: rc=%s, %d responses for %d requests; stderr=%s'
                                 % (exe, r.returncode, len(out), len(lines), r.stderr[-500:]))
        return out

    # ------------------------------------------------------------------ recording
    def stream(self, name):
        return self.streams.setdefault(name, {'evaluations': 0, 'nontrivial': set(), 'hist': {}})

    def count(self, stream, key=None, nontrivial=False, hist=None):
        s = self.stream(stream)
        s['evaluations'] += 1
        if nontrivial and key is not None:
            s['nontrivial'].add(key if isinstance(key, (str, int)) else hashlib.md5(repr(key).encode()).hexdigest())
        if hist:
            for h in ([hist] if isinstance(hist, str) else hist):
                s['hist'][h] = s['hist'].get(h, 0) + 1

    def sample(self, obj, limit=6):
        if len(self.samples) < limit:
            self.samples.append(obj)

    def disagree(self, stream, inp, impl, model):
        """model and implementation differ on `inp` (correspondence broken)."""
        if len(self.disagreements) < 50:
            self.disagreements.append({'stream': stream, 'input': inp, 'impl': impl, 'model': model})
        else:
            self.disagreements.append(None)

    def fail(self, what, replay, finding=None):
        """the PROPERTY fails on the real code for the concrete input `replay`.
        `finding` = id of the known finding this input is an instance of (or None)."""
        self.failures.append({'what': what, 'replay': replay, 'finding': finding})

    # ------------------------------------------------------------------ verdict
    def _write_replay(self, obj):
        REPLAYS.mkdir(exist_ok=True)
        self.replay_n += 1
        p = REPLAYS / ('%s-%s-seed%d-%d.json' % (self.pid, self.tier, self.seed, self.replay_n))
        p.write_text(json.dumps(obj, indent=1, default=str))
        return p

    def finish(self):
        violations = 0
        open_ids = {e['id'] for e in self.known if e.get('status') == 'open'}
        seen_known = {}
        for f in self.failures:
            if f['finding'] in open_ids:
                seen_known.setdefault(f['finding'], f)
                continue
            if violations < 5:
                p = self._write_replay({'property': self.pid, 'kind': 'failing-input', 'what': f['what'],
                                        'input': f['replay'], 'seed': self.seed, 'tier': self.tier})
                print('VIOLATION property=%s replay=%s' % (self.pid, p))
            violations += 1
        for e in self.known:
            if e.get('status') == 'open' and e['id'] in seen_known:
                print('KNOWN-FINDING: property=%s %s %s' % (self.pid, e['id'], e.get('what', '')))
        ndis = len(self.disagreements)
        # The models are tied to the source in two ways at once: translator (tables / AST facts / transliterated
        # functions regenerated from the source) and differential correspondence.  When the translator merely GIVES UP on a
        # rewritten source (entries 'translator:…'; the last regenerated definitions stay in place), but every proof still
        # checks, the correspondence of the compiled model with the code as it is now shows no disagreement and no oracle
        # found a failing input, the model is still tied by the second way: recorded, not reported.  (A translator that
        # SUCCEEDS and yields definitions for which a theorem fails, or any disagreement, is reported as before.)
        tr = [b for b in self.broken if b.startswith('translator:')]
        if tr and len(tr) == len(self.broken) and ndis == 0 and not [f for f in self.failures if f['finding'] not in open_ids]:
            self.notes['translator_tie'] = ('gave up on the current source (%s); proofs about the last regenerated definitions '
                                            'check and the correspondence tie holds on every explored input (streams x%d): '
                                            'not a violation' % ('; '.join(tr)[:600], BOOST if self.changed_sources else 1))
            self.broken = []
        if (self.broken or ndis) and violations == 0:
            p = self._write_replay({'property': self.pid, 'kind': 'no-failing-input-found',
                                    'no_longer_checks': self.broken,
                                    'correspondence_disagreements': [d for d in self.disagreements if d][:10],
                                    'notes': {k: v for k, v in self.notes.items() if k.startswith('build_error')},
                                    'seed': self.seed, 'tier': self.tier})
            print('VIOLATION property=%s replay=%s no-failing-input-found' % (self.pid, p))
            violations += 1
        self._write_evidence(violations, sorted(seen_known))
        return 1 if violations else 0

    def _write_evidence(self, violations, known_seen):
        evaluations = sum(s['evaluations'] for s in self.streams.values())
        distinct = sum(len(s['nontrivial']) for s in self.streams.values())
        cov = {
            'obligations': self.obligations,
            'discharged': self.discharged,
            'checker_cmd': ' ; '.join(self.checker_cmds) or 'none',
            'trusted_base': self.trusted,
            'evaluations': evaluations,
            'distinct_nontrivial': distinct,
            'rule': self.rule,
            'samples': self.samples or ['(no sample recorded)'],
            'traces_validated_against_impl': evaluations,
            'exhaustive': self.exhaustive,
            'theorems': self.axioms,
            'no_longer_checks': self.broken,
            'correspondence_disagreements': len(self.disagreements),
            'property_failures_on_real_code': len(self.failures),
            'known_findings_seen': known_seen,
            'streams': {k: {'evaluations': s['evaluations'], 'distinct_nontrivial': len(s['nontrivial']),
                            'histogram': dict(sorted(s['hist'].items()))} for k, s in self.streams.items()},
            'translator_ties': self.translit,
            'notes': {k: v for k, v in self.notes.items() if not k.startswith('build_error')},
        }
        ev = {'property_id': self.pid, 'tier': self.tier, 'seed': self.seed, 'level': 'proof',
              'coverage': cov, 'assumptions': self.assumptions, 'wall_s': round(time.time() - self.t0, 2),
              'violations': violations}
        EVIDENCE.mkdir(exist_ok=True)
        (EVIDENCE / ('%s.json' % self.pid)).write_text(json.dumps(ev, indent=1, default=str))


# ----------------------------------------------------------------------------- corpus
def corpus_cases(pid):
    d = CORPUS / pid
    if not d.is_dir():
        return []
    out = []
    for p in sorted(d.glob('*.json')):
        out.append((p.name, json.loads(p.read_text())))
    return out


def main(argv):
    import importlib
    if len(argv) < 2:
        print('usage: check <ID> quick|thorough | check <ID> --replay <file>')
        return 2
    pid = argv[0].upper()
    seed = int(os.environ.get('VERIF_SEED', '0') or 0)
    try:
        mod = importlib.import_module('harness.%s' % pid.lower())
        if argv[1] == '--replay':
            chk = Check(pid, 'quick', seed)
            obj = json.loads(Path(argv[2]).read_text())
            return mod.replay(chk, obj.get('input', obj))
        tier = argv[1]
        if tier not in ('quick', 'thorough'):
            tier = os.environ.get('VERIF_TIER', 'quick')
        chk = Check(pid, tier, seed)
        try:
            mod.run(chk)
        except Exception as e:  # pylint: disable=broad-except
            # An exception that escapes the harness is a machinery error (exit 2) UNLESS it was raised inside the
            # implementation under test (innermost frames in the note_seq package): on the unchanged tree every
            # stream runs to completion, so the implementation now raises where it did not - the correspondence
            # can no longer be established.  Reported as a broken correspondence (with whatever the oracles
            # found before), never silently as exit 2.
            tb = traceback.extract_tb(e.__traceback__)
            inner = [f for f in tb if os.sep + 'note_seq' + os.sep in f.filename and os.sep + 'harness' + os.sep not in f.filename]
            if not inner or os.sep + 'note_seq' + os.sep not in tb[-1].filename and not any(
                    os.sep + 'note_seq' + os.sep in f.filename for f in tb[-6:]):
                raise
            traceback.print_exc()
            chk.broken.append('correspondence: the implementation raised %s: %s at %s:%d (%s) while the harness drove it on an '
                              'input that runs to completion on the unchanged tree' % (
                                  type(e).__name__, str(e)[:200], inner[-1].filename, inner[-1].lineno, inner[-1].name))
            chk.notes['implementation_exception'] = ''.join(traceback.format_exception(type(e), e, e.__traceback__))[-3000:]
        return chk.finish()
    except Exception:
        traceback.print_exc()
        print('MACHINERY-ERROR property=%s (exit 2; not a violation)' % pid)
        return 2


if __name__ == '__main__':
    sys.exit(main(sys.argv[1:]))
