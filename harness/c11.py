"""C11 — sequence operations never modify their argument and return well-formed sequences (DESIGN 6.11).

(a) purity: the IR of every listed operation is regenerated from the current source by gen/refir.py;
    `pure_<op> : pureProg ir_<op> = true` is re-decided by the Lean kernel against it; `pure_sound` says
    what an accepted IR means.  The two runtime facts the heap semantics builds in are probed on the
    live protobuf runtime first.
(b) well-formed results / nothing invented: theorems on the functional models (Props/C11_*.lean).
Dynamic cross-check and oracle: every operation x generated well-formed sequences carrying every
repeated field x legal and raising arguments, on the real code.
"""
import copy
import math
import os

from harness import nswire
from harness.common import LEAN

PID = 'C11'
EXE = 'drv_c11'
A_MOD = 'NoteSeqVerif.Props.C11'
OPS_MOD = 'NoteSeqVerif.Props.C11_ops'

PURE_OPS = ['trim_note_sequence', '_extract_subsequences', 'extract_subsequence', 'split_note_sequence',
            'split_note_sequence_on_time_changes', 'split_note_sequence_on_silence', 'shift_sequence_times',
            'stretch_note_sequence', 'transpose_note_sequence', 'quantize_note_sequence',
            'quantize_note_sequence_absolute', 'apply_sustain_control_changes', 'concatenate_sequences',
            'merge_sequences', 'repeat_sequence_to_duration', 'expand_section_groups', 'remove_redundant_data',
            'adjust_notesequence_times', 'rectify_beats']
IMPURE_OPS = ['stretch_note_sequence__in_place', 'transpose_note_sequence__in_place', '_quantize_notes']

A_THEOREMS = ['pure_sound', 'pure_sound_all', 'pure_sound_raise', 'fresh_result_sound', 'exec_sound']
OPS_THEOREMS = (['pure_' + n for n in PURE_OPS] + ['fresh_' + n for n in PURE_OPS]
                + ['contract__quantize_notes', 'impure_stretch_note_sequence_in_place',
                   'impure_transpose_note_sequence_in_place', 'impure__quantize_notes'])

# (b): one Lean file per operation family (`Props/C11_<family>.lean`), each naming its theorems on
# `-- THEOREMS:` lines at its top; a family is registered as soon as its file exists
B_FILES = {}


def b_modules():
    out = {}
    for mod, ths in B_FILES.items():
        if (LEAN / (mod.replace('.', '/') + '.lean')).exists():
            out[mod] = ths
    # further families are registered by the files themselves: `-- THEOREMS: a b c` on the first lines
    d = LEAN / 'NoteSeqVerif' / 'Props'
    for p in sorted(d.glob('C11_*.lean')):
        mod = 'NoteSeqVerif.Props.' + p.stem
        if mod in out or mod == OPS_MOD:
            continue
        names = []
        for line in p.read_text().splitlines()[:12]:
            if line.startswith('-- THEOREMS:'):
                names += line.split(':', 1)[1].split()
        if names:
            out[mod] = names
    return out


def generate(chk):
    from gen import refir
    txt, info = refir.generate_lean()
    changed = chk.regenerate('NoteSeqVerif/Generated/C11.lean', txt)
    chk.translit['refir'] = {
        'regenerated_file_changed': changed,
        'operations_translated': len(info['ops']),
        'conservative_translations': info['conservative'],
        'missing': info['missing'],
        'trusted_external_calls': info['trusted_external_calls'],
        'callable_parameters_assumed_scalar_to_scalar': info['callable_parameters_assumed_scalar_to_scalar'],
        'schema': {'scalar_attribute_names': info['scalar_attrs'], 'protobuf_valued_attribute_names': info['pb_attrs']},
        'ops': {k: {kk: v[kk] for kk in ('line', 'ir_nodes', 'writes', 'calls', 'contract', 'pure', 'fresh_result',
                                          'failing_lines_for_any_argument')} for k, v in info['ops'].items()},
    }
    return info


# ----------------------------------------------------------------------------- runtime assumptions
def probe_runtime(chk):
    """The two facts about the protobuf runtime that the heap semantics builds in."""
    from note_seq.protobuf import music_pb2
    res = {}

    def mk():
        s = music_pb2.NoteSequence()
        for i in range(3):
            n = s.notes.add()
            n.pitch, n.start_time, n.end_time, n.voice = 60 + i, float(i), i + 1.0, i + 1
        t = s.tempos.add()
        t.qpm = 120.0
        g = s.section_groups.add()
        g.sections.add().section_id = 1
        g.num_times = 2
        s.sequence_metadata.composers.append('a')
        s.total_time = 3.0
        return s
    # A1: insertion into a repeated field copies (extend / append / add(**kw) / MergeFrom of an element)
    src = mk()
    before = src.SerializeToString(deterministic=True)
    dst = music_pb2.NoteSequence()
    dst.notes.extend([src.notes[0]])
    dst.notes.append(src.notes[1])
    dst.notes.extend(src.notes)
    dst.notes.add().MergeFrom(src.notes[2])
    dst.notes.add().CopyFrom(src.notes[2])
    dst.section_groups.extend(src.section_groups)
    ok = all(d is not s for d in dst.notes for s in src.notes)
    for d in dst.notes:
        d.pitch += 1
        d.start_time += 5.0
    dst.section_groups[0].sections[0].section_id = 9
    dst.section_groups[0].sections.add().section_id = 3
    del dst.notes[0]
    ok = ok and src.SerializeToString(deterministic=True) == before
    res['A1_insertion_into_repeated_field_copies'] = ok
    # A2: CopyFrom / MergeFrom / deepcopy / constructor(**kw) give objects sharing nothing with the source
    ok2 = True
    for how in ('CopyFrom', 'MergeFrom', 'deepcopy', 'ctor', 'copy.copy'):
        src = mk()
        before = src.SerializeToString(deterministic=True)
        if how == 'CopyFrom':
            c = music_pb2.NoteSequence()
            c.CopyFrom(src)
        elif how == 'MergeFrom':
            c = music_pb2.NoteSequence()
            c.MergeFrom(src)
        elif how == 'deepcopy':
            c = copy.deepcopy(src)
        elif how == 'copy.copy':
            c = copy.copy(src)
        else:
            c = music_pb2.NoteSequence(notes=src.notes, tempos=src.tempos, section_groups=src.section_groups,
                                       sequence_metadata=src.sequence_metadata, total_time=3.0)
        same_before = c.SerializeToString(deterministic=True) == before
        for n in c.notes:
            n.pitch += 1
            n.end_time *= 2
        c.notes.add().pitch = 1
        del c.notes[0]
        c.notes.sort(key=lambda n: -n.pitch)
        c.tempos[0].qpm = 1.0
        c.section_groups[0].sections[0].section_id = 7
        c.sequence_metadata.composers.append('b')
        c.total_time = 99.0
        c.ClearField('section_groups')
        good = same_before and src.SerializeToString(deterministic=True) == before
        res['A2_%s_shares_nothing' % how] = good
        if how != 'copy.copy':
            ok2 = ok2 and good
    # sanity of the observation itself: a mutation through an alias IS visible in the serialized bytes
    src = mk()
    before = src.SerializeToString(deterministic=True)
    sorted(src.notes, key=lambda n: n.start_time)[0].pitch += 1
    res['alias_of_sorted_is_not_a_copy'] = src.SerializeToString(deterministic=True) != before
    src = mk()
    before = src.SerializeToString(deterministic=True)
    list(src.notes)[1].end_time = 9.0
    res['alias_of_list_is_not_a_copy'] = src.SerializeToString(deterministic=True) != before
    chk.notes['runtime_probes'] = res
    from google.protobuf.internal import api_implementation
    import google.protobuf
    chk.notes['protobuf_runtime'] = '%s (%s)' % (google.protobuf.__version__, api_implementation.Type())
    if not (res['A1_insertion_into_repeated_field_copies'] and ok2):
        chk.broken.append('assumption:protobuf runtime does not copy on insert / CopyFrom (see notes.runtime_probes)')
    if not (res['alias_of_sorted_is_not_a_copy'] and res['alias_of_list_is_not_a_copy']):
        chk.broken.append('assumption:serialized bytes do not show a mutation through an alias')
    return res


# ----------------------------------------------------------------------------- generator
class Gen:
    """well-formed NoteSequences carrying every repeated field (NSGen + what it lacks)."""

    def __init__(self, rng):
        self.rng = rng
        self.tag = 0

    def seq(self, quantized=False, beats=None, sections=None, max_notes=None):
        r = self.rng
        from note_seq.protobuf import music_pb2
        g = nswire.NSGen(r, max_notes=max_notes if max_notes is not None else r.choice([1, 4, 8, 12, 16]),
                         pool_size=r.choice([3, 6, 9]), dyadic=r.random() < 0.4)
        ns = g.make(sub=True, well_formed=True, sections=False)
        if not ns.notes and r.random() < 0.8:      # NSGen draws the count from 0..max: keep empty sequences rare
            for _ in range(r.choice([1, 2, 5])):
                n = ns.notes.add()
                n.start_time = r.choice(g.pool)
                n.end_time = n.start_time + r.choice([0.25, 0.5, 1.0])
                n.pitch, n.velocity, n.instrument = r.randrange(30, 90), r.randrange(1, 128), r.randrange(3)
        if r.random() < 0.4:
            ns.subsequence_info.start_time_offset = r.choice([0.5, 1.5])
            ns.subsequence_info.end_time_offset = r.choice([0.0, 2.25])
        # unique identity tags
        for n in ns.notes:
            self.tag += 1
            n.voice = self.tag
        if r.random() < 0.25:            # a zero-length note, a note ending exactly at total_time
            for n in ns.notes[:1]:
                n.end_time = n.start_time
        # beats (rectify_beats), chord symbols are already there
        if beats if beats is not None else r.random() < 0.5:
            t = r.choice([0.0, 0.25, 0.5])
            step = r.choice([0.5, 0.75, 1.0, r.uniform(0.3, 1.2)])
            while t <= ns.total_time + 1.0 and len(ns.text_annotations) < 24:
                ta = ns.text_annotations.add()
                ta.time, ta.annotation_type = t, music_pb2.NoteSequence.TextAnnotation.BEAT
                t += step * r.choice([1.0, 1.0, 1.1, 0.9])
        # sections and (nested) section groups
        if sections if sections is not None else r.random() < 0.5:
            k = r.choice([1, 2, 3])
            times = sorted({0.0} | {r.choice(g.pool) for _ in range(k - 1)})
            times = [t for t in times if t < ns.total_time] or ([0.0] if ns.total_time > 0 else [])
            for i, t in enumerate(times):
                sa = ns.section_annotations.add()
                sa.time, sa.section_id = t, i + 1
            ids = [sa.section_id for sa in ns.section_annotations]
            if ids and r.random() < 0.85:
                for _ in range(r.choice([1, 1, 2])):
                    sg = ns.section_groups.add()
                    sg.num_times = r.choice([1, 1, 2, 3])
                    for _ in range(r.choice([1, 2, 3])):
                        s = sg.sections.add()
                        if r.random() < 0.25:
                            s.section_group.num_times = r.choice([1, 2])
                            s.section_group.sections.add().section_id = r.choice(ids)
                        else:
                            s.section_id = r.choice(ids)
        # metadata with duplicates, part infos
        if r.random() < 0.6:
            for _ in range(r.choice([1, 2, 4])):
                ns.sequence_metadata.composers.append(r.choice(['Bach', 'Bach', 'Anon', 'X']))
            for _ in range(r.choice([0, 2, 3])):
                ns.sequence_metadata.genre.append(r.choice(['folk', 'folk', 'jazz']))
            ns.sequence_metadata.artist = 'art'
            pi = ns.part_infos.add()
            pi.part, pi.name = 0, 'p0'
            ii = ns.instrument_infos.add()
            ii.instrument, ii.name = 1, 'i1'
        # redundant tempo / signature events
        if r.random() < 0.3 and ns.tempos:
            t = ns.tempos.add()
            t.time, t.qpm = ns.tempos[0].time + 1.0, ns.tempos[0].qpm
        if r.random() < 0.3 and ns.time_signatures:
            t = ns.time_signatures.add()
            t.CopyFrom(ns.time_signatures[0])
            t.time += 2.0
        if quantized:
            if r.random() < 0.5:
                ns.quantization_info.steps_per_quarter = 4
            else:
                ns.quantization_info.steps_per_second = 100
        self.fix_total(ns)
        return ns

    @staticmethod
    def fix_total(ns):
        if ns.notes and max(n.end_time for n in ns.notes) > ns.total_time:
            ns.total_time = max(n.end_time for n in ns.notes)

    def single_tempo(self, ns):
        """make the sequence acceptable to quantize_note_sequence (one tempo, one 2^k time signature)"""
        r = self.rng
        qpm = r.choice([120.0, 60.0, 90.5, 100.0])
        del ns.tempos[:]
        for _ in range(r.choice([0, 1, 2])):
            t = ns.tempos.add()
            t.qpm, t.time = qpm, r.choice([0.0, 0.0, 1.5]) if qpm == 120.0 or len(ns.tempos) > 1 else 0.0
        sig = r.choice([(4, 4), (3, 4), (6, 8), (2, 2)])
        del ns.time_signatures[:]
        for _ in range(r.choice([0, 1, 2])):
            t = ns.time_signatures.add()
            t.numerator, t.denominator = sig
            t.time = r.choice([0.0, 0.0, 2.0]) if sig == (4, 4) or len(ns.time_signatures) > 1 else 0.0


def ser(x):
    return x.SerializeToString(deterministic=True)


def all_notes_tags(seqs):
    return [n.voice for s in seqs for n in s.notes]


# ----------------------------------------------------------------------------- oracle pieces
EVENT_FIELDS = ('tempos', 'time_signatures', 'key_signatures', 'text_annotations', 'control_changes',
                'pitch_bends', 'section_annotations')


def wf_input(ns):
    return (all(0 <= n.start_time <= n.end_time <= ns.total_time for n in ns.notes)
            and all(e.time >= 0 for f in EVENT_FIELDS for e in getattr(ns, f)) and ns.total_time >= 0)


def wf_result(ns, quantized):
    """the property's well-formedness of a result; returns what fails or None"""
    for i, n in enumerate(ns.notes):
        if n.end_time < n.start_time:
            return 'note %d (tag %d) ends before it starts: %r < %r' % (i, n.voice, n.end_time, n.start_time)
        if n.start_time < 0 or n.end_time < 0:
            return 'note %d (tag %d) has a negative time' % (i, n.voice)
        if n.end_time > ns.total_time:
            return 'total_time %r does not cover note %d (tag %d) ending at %r' % (ns.total_time, i, n.voice, n.end_time)
        if quantized:
            if not (0 <= n.quantized_start_step < n.quantized_end_step):
                return 'note %d: quantized steps %d..%d' % (i, n.quantized_start_step, n.quantized_end_step)
            if n.quantized_end_step > ns.total_quantized_steps:
                return 'total_quantized_steps %d does not cover note %d ending at step %d' % (
                    ns.total_quantized_steps, i, n.quantized_end_step)
    if ns.total_time < 0:
        return 'negative total_time %r' % ns.total_time
    for f in EVENT_FIELDS:
        for e in getattr(ns, f):
            if e.time < 0:
                return 'negative %s time %r' % (f, e.time)
            if quantized and f in ('text_annotations', 'control_changes') and e.quantized_step < 0:
                return 'negative quantized step in %s' % f
    return None


def traceable(inputs, outputs, max_mult, pitch_shift=None):
    """every output note carries the tag of an input note, agrees with it on the attributes the
    operation does not touch, and no tag occurs more often than the operation can repeat it."""
    src = {}
    for s in inputs:
        for n in s.notes:
            src[n.voice] = n
    count = {}
    for o in outputs:
        for n in o.notes:
            m = src.get(n.voice)
            if m is None:
                return 'output note with tag %d (pitch %d, %r-%r) is not an input note' % (n.voice, n.pitch, n.start_time, n.end_time)
            want_pitch = m.pitch if (pitch_shift is None or m.is_drum) else m.pitch + pitch_shift
            if (n.velocity, n.instrument, n.program, n.is_drum, n.part) != (m.velocity, m.instrument, m.program, m.is_drum, m.part) \
                    or n.pitch != want_pitch:
                return 'output note with tag %d does not match the input note it claims to be' % n.voice
            count[n.voice] = count.get(n.voice, 0) + 1
            if max_mult is not None and count[n.voice] > max_mult:
                return 'input note with tag %d occurs %d times in the result (at most %d possible)' % (n.voice, count[n.voice], max_mult)
    return None


# ----------------------------------------------------------------------------- the operations
class Case:
    """one call: op name, list of argument NoteSequences (observed), python args, expectations"""

    def __init__(self, op, seqs, call, kind, expect_raise=None, quantized=False, max_mult=1, pitch_shift=None,
                 wf=True, desc=None, pylists=None):
        self.op, self.seqs, self.call, self.kind = op, seqs, call, kind
        self.pylists = pylists or []           # Python lists handed to the operation itself (observed like the sequences)
        self.expect_raise, self.quantized, self.max_mult, self.pitch_shift, self.wf = expect_raise, quantized, max_mult, pitch_shift, wf
        self.desc = desc or {}


def result_seqs(r):
    """NoteSequences inside a result"""
    from note_seq.protobuf import music_pb2
    if isinstance(r, music_pb2.NoteSequence):
        return [r]
    if isinstance(r, (list, tuple)):
        return [x for x in r if isinstance(x, music_pb2.NoteSequence)]
    return []


def canon_result(r):
    """comparable form of a result (bytes of sequences, exact numbers)"""
    import numpy as np
    from note_seq.protobuf import music_pb2
    if isinstance(r, music_pb2.NoteSequence):
        return ('ns', ser(r))
    if isinstance(r, (list, tuple)):
        return ('seq', tuple(canon_result(x) for x in r))
    if isinstance(r, np.ndarray):
        return ('nd', r.shape, r.tobytes())
    return ('py', repr(r))


def time_funcs():
    return {
        'affine': lambda t: t * 1.5 + 0.25,
        'identity': lambda t: t,
        'halve': lambda t: t / 2.0,
        'floor': lambda t: float(math.floor(t)),           # monotone, collapses short notes (skipped notes)
        'reverse': lambda t: 10.0 - t,                      # non-monotone: raises for any note with positive length
        'negative': lambda t: t - 3.0,                      # before zero: raises
    }


def gen_cases(sl, g, rng, op):
    """yield Cases for one operation: mostly legal arguments, a separate share of raising ones."""
    r = rng
    raising = r.random() < 0.3
    tf = time_funcs()
    if op == 'trim_note_sequence':
        ns = g.seq(quantized=raising and r.random() < 0.5)
        a, b = sorted([g_t(r, ns), g_t(r, ns)])
        if raising and not sl.is_quantized_sequence(ns):
            a, b = b + 1.0, a                                       # reversed window: legal, empty result
        q = sl.is_quantized_sequence(ns)
        yield Case(op, [ns], lambda: sl.trim_note_sequence(ns, a, b), 'raise' if q else 'legal',
                   expect_raise='QuantizationStatusError' if q else None, desc={'start': a, 'end': b})
    elif op in ('_extract_subsequences', 'extract_subsequence'):
        ns = g.seq(quantized=raising and r.random() < 0.3)
        q = sl.is_quantized_sequence(ns)
        if op == 'extract_subsequence':
            a, b = sorted([g_t(r, ns), g_t(r, ns)])
            mode = 'legal'
            if raising and not q:
                mode = r.choice(['past_end', 'reversed'])
                if mode == 'past_end':
                    a, b = ns.total_time + r.choice([0.0, 1.0]), ns.total_time + 2.0
                else:
                    a, b = b + 0.5, a
            exp = 'QuantizationStatusError' if q else 'ValueError' if (a > b or a >= ns.total_time) else None
            pc = r.choice([None, None, (64,), (64, 66, 67, 7), ()])
            yield Case(op, [ns], lambda: sl.extract_subsequence(ns, a, b, preserve_control_numbers=pc),
                       'raise' if exp else 'legal', expect_raise=exp, desc={'start': a, 'end': b, 'preserve': pc})
        else:
            k = r.choice([2, 2, 3, 4, 6])
            ts = sorted(g_t(r, ns) for _ in range(k))
            if raising and not q:
                mode = r.choice(['short', 'unsorted', 'past_end'])
                if mode == 'short':
                    ts = ts[:1]
                elif mode == 'unsorted':
                    ts = [ts[-1] + 1.0] + ts
                else:
                    ts = ts + [ns.total_time + 1.0, ns.total_time + 2.0]
            exp = None
            if q:
                exp = 'QuantizationStatusError'
            elif len(ts) < 2 or any(x > y for x, y in zip(ts, ts[1:])) or any(x >= ns.total_time for x in ts[:-1]):
                exp = 'ValueError'
            ts_arg = list(ts)
            yield Case(op, [ns], lambda: sl._extract_subsequences(ns, ts_arg), 'raise' if exp else 'legal',
                       expect_raise=exp, desc={'split_times': ts}, pylists=[ts_arg])
    elif op == 'split_note_sequence':
        ns = g.seq(quantized=raising and r.random() < 0.5)
        q = sl.is_quantized_sequence(ns)
        skip = r.random() < 0.5
        if r.random() < 0.4:
            hop = sorted(g_t(r, ns) for _ in range(r.choice([0, 1, 3, 5])))
            hop = [h for h in hop if 0 < h]
            r.shuffle(hop)
        else:
            hop = r.choice([0.5, 1.0, 2.5, r.uniform(0.2, 4.0)])
        if isinstance(hop, list):
            # listed split times at / past the end may or may not be rejected by _extract_subsequences
            dicey = q or ns.total_time == 0 or any(h >= ns.total_time for h in hop)
            hop_arg = list(hop)
            yield Case(op, [ns], lambda: sl.split_note_sequence(ns, hop_arg, skip), 'any' if dicey else 'legal',
                       desc={'hop': hop, 'skip': skip}, pylists=[hop_arg])
        else:
            exp = 'QuantizationStatusError' if (q and ns.total_time > 0 and hop < ns.total_time or q and ns.total_time > 0) else None
            yield Case(op, [ns], lambda: sl.split_note_sequence(ns, hop, skip), 'raise' if exp else 'legal',
                       expect_raise=exp, desc={'hop': hop, 'skip': skip})
    elif op == 'split_note_sequence_on_time_changes':
        ns = g.seq(quantized=raising and r.random() < 0.5)
        q = sl.is_quantized_sequence(ns)
        skip = r.random() < 0.5
        exp = 'QuantizationStatusError' if (q and ns.total_time > 0) else None
        yield Case(op, [ns], lambda: sl.split_note_sequence_on_time_changes(ns, skip), 'raise' if exp else 'legal',
                   expect_raise=exp, desc={'skip': skip})
    elif op == 'split_note_sequence_on_silence':
        ns = g.seq(quantized=raising and r.random() < 0.5)
        q = sl.is_quantized_sequence(ns)
        gap = r.choice([0.0, 0.25, 1.0, 3.0])
        exp = 'QuantizationStatusError' if (q and ns.total_time > 0) else None
        yield Case(op, [ns], lambda: sl.split_note_sequence_on_silence(ns, gap), 'raise' if exp else 'legal',
                   expect_raise=exp, desc={'gap': gap})
    elif op == 'shift_sequence_times':
        ns = g.seq(quantized=raising and r.random() < 0.5)
        q = sl.is_quantized_sequence(ns)
        s = r.choice([0.5, 1.0, 0.1, r.uniform(0.01, 20.0)])
        if raising and not q:
            s = r.choice([0.0, -1.0])
        exp = 'ValueError' if s <= 0 else 'QuantizationStatusError' if q else None
        yield Case(op, [ns], lambda: sl.shift_sequence_times(ns, s), 'raise' if exp else 'legal', expect_raise=exp,
                   desc={'shift': s})
    elif op == 'stretch_note_sequence':
        ns = g.seq(quantized=raising and r.random() < 0.5)
        q = sl.is_quantized_sequence(ns)
        f = r.choice([1.0, 2.0, 0.5, 1.1, r.uniform(0.1, 4.0)])
        if raising and not q:
            f = 0.0                                                 # ZeroDivisionError in `tempo.qpm /= f` after the notes were moved
        exp = 'QuantizationStatusError' if q else 'ZeroDivisionError' if (f == 0.0 and ns.tempos) else None
        yield Case(op, [ns], lambda: sl.stretch_note_sequence(ns, f), 'raise' if exp else 'legal', expect_raise=exp,
                   desc={'factor': f})
    elif op == 'transpose_note_sequence':
        ns = g.seq()
        if raising:
            ta = ns.text_annotations.add()
            ta.time, ta.annotation_type, ta.text = g_t(r, ns), sl.CHORD_SYMBOL, r.choice(['hello', 'H7', 'Cmaj#'])
        amt = r.choice([0, 1, -1, 5, -7, 12, 40, -40])
        lo, hi = r.choice([(0, 127), (0, 127), (21, 108), (60, 72)])
        tc = r.random() < 0.7
        from note_seq import chord_symbols_lib
        exp = None
        if tc:
            for ta in ns.text_annotations:
                if ta.annotation_type == sl.CHORD_SYMBOL and ta.text != 'N.C.':
                    try:
                        chord_symbols_lib.transpose_chord_symbol(ta.text, amt)
                    except chord_symbols_lib.ChordSymbolError:
                        exp = 'ChordSymbolError'
                        break
        yield Case(op, [ns], lambda: sl.transpose_note_sequence(ns, amt, lo, hi, tc), 'raise' if exp else 'legal',
                   expect_raise=exp, pitch_shift=amt, desc={'amount': amt, 'min': lo, 'max': hi, 'chords': tc})
    elif op in ('quantize_note_sequence', 'quantize_note_sequence_absolute'):
        ns = g.seq()
        if op == 'quantize_note_sequence':
            if not raising:
                g.single_tempo(ns)
            res = r.choice([1, 4, 4, 12, 24])
            yield Case(op, [ns], lambda: sl.quantize_note_sequence(ns, res), 'any', quantized=True, desc={'steps_per_quarter': res})
        else:
            res = r.choice([1, 10, 31, 100])
            yield Case(op, [ns], lambda: sl.quantize_note_sequence_absolute(ns, res), 'legal', quantized=True,
                       desc={'steps_per_second': res})
    elif op == 'apply_sustain_control_changes':
        ns = g.seq(quantized=raising and r.random() < 0.5)
        q = sl.is_quantized_sequence(ns)
        num = r.choice([64, 64, 64, 66])
        yield Case(op, [ns], lambda: sl.apply_sustain_control_changes(ns, num), 'raise' if q else 'legal',
                   expect_raise='QuantizationStatusError' if q else None, desc={'control_number': num})
    elif op in ('concatenate_sequences', 'merge_sequences'):
        k = r.choice([0, 1, 2, 2, 3, 4])
        seqs = [g.seq(quantized=raising and r.random() < 0.3) for _ in range(k)]
        if k >= 2 and r.random() < 0.2:
            seqs[r.randrange(k)] = seqs[0]                          # the same object twice
        if op == 'merge_sequences':
            distinct = {id(s) for s in seqs}
            seq_arg = list(seqs)
            yield Case(op, seqs, lambda: sl.merge_sequences(seq_arg), 'legal',
                       max_mult=None if len(distinct) < len(seqs) else 1, desc={'n': k}, pylists=[seq_arg])
        else:
            durs = None
            if r.random() < 0.6:
                # explicit durations: exactly total_time, longer, and (raising share) the ends of the range: 0 / 0.0 for a
                # sequence that is not empty, 1 ulp short, half, wrong length
                durs = [s.total_time + r.choice([0.0, 0.0, 0.5, 2.0]) for s in seqs]
                if raising and durs:
                    m = r.random()
                    i = r.randrange(len(durs))
                    if m < 0.25:
                        durs = durs[:-1] + ([] if r.random() < 0.5 else [durs[-1], 1.0])
                    elif m < 0.45:
                        durs[i] -= 0.5
                    elif m < 0.75:
                        durs[i] = r.choice([0, 0.0])                # zero: legal only for a sequence of total_time 0
                        if r.random() < 0.3:
                            durs = [r.choice([0, 0.0]) for _ in durs]
                    elif m < 0.9:
                        durs[i] = nswire.nextafter_n(seqs[i].total_time, -1) if seqs[i].total_time > 0 else 0.0
                    else:
                        durs[i] = seqs[i].total_time / 2
            exp, kind = concat_expectation(sl, seqs, durs)
            seq_arg, dur_arg = list(seqs), None if durs is None else list(durs)
            yield Case(op, seqs, lambda: sl.concatenate_sequences(seq_arg, dur_arg), kind, expect_raise=exp,
                       max_mult=None if len({id(s) for s in seqs}) < len(seqs) else 1, desc={'n': k, 'durations': durs},
                       pylists=[seq_arg] + ([dur_arg] if dur_arg is not None else []))
    elif op == 'repeat_sequence_to_duration':
        ns = g.seq(quantized=raising and r.random() < 0.3, max_notes=r.choice([0, 1, 3, 6]))
        dur = r.choice([0.5, 1.0, 3.0, 7.5, r.uniform(0.1, 12.0)])
        sd = r.choice([None, None, ns.total_time + 0.5, ns.total_time])
        if raising:
            dur = r.choice([dur, 0.0, -1.0])
            sd = r.choice([sd, ns.total_time / 2 if ns.total_time else None])
        legal = not raising and ns.total_time > 0 and not sl.is_quantized_sequence(ns)
        yield Case(op, [ns], lambda: sl.repeat_sequence_to_duration(ns, dur, sd), 'legal' if legal else 'any', max_mult=None,
                   desc={'duration': dur, 'sequence_duration': sd})
    elif op == 'expand_section_groups':
        ns = g.seq(sections=True, quantized=raising and r.random() < 0.3)
        if raising and ns.section_groups and r.random() < 0.5:
            ns.section_groups[0].sections.add().section_id = 77     # a section that is not annotated: KeyError
        legal = not raising and not sl.is_quantized_sequence(ns)
        yield Case(op, [ns], lambda: sl.expand_section_groups(ns), 'legal' if legal else 'any', max_mult=None, desc={})
    elif op == 'remove_redundant_data':
        ns = g.seq(quantized=r.random() < 0.2)
        yield Case(op, [ns], lambda: sl.remove_redundant_data(ns), 'legal', quantized=False, desc={})
    elif op == 'adjust_notesequence_times':
        ns = g.seq()
        name = r.choice(['affine', 'identity', 'halve', 'floor'] if not raising else ['reverse', 'negative'])
        md = r.choice([None, None, 0.125])
        yield Case(op, [ns], lambda: sl.adjust_notesequence_times(ns, tf[name], md), 'any' if name in ('reverse', 'negative') else 'legal',
                   desc={'time_func': name, 'minimum_duration': md})
    elif op == 'rectify_beats':
        ns = g.seq(beats=not raising or r.random() < 0.5, quantized=raising and r.random() < 0.5)
        bpm = r.choice([60, 120, 90.5])
        q = sl.is_quantized_sequence(ns)
        has_beats = any(ta.annotation_type == sl.BEAT and ta.time <= ns.total_time for ta in ns.text_annotations)
        exp = 'QuantizationStatusError' if q else None if has_beats else 'RectifyBeatsError'
        yield Case(op, [ns], lambda: sl.rectify_beats(ns, bpm), 'raise' if exp else 'legal', expect_raise=exp, desc={'bpm': bpm})
    else:
        raise ValueError(op)


def concat_expectation(sl, seqs, durs):
    """what concatenate_sequences is documented to do with these arguments -> (expected exception names | None, kind).
    'ValueError: If the length of sequences and sequence_durations do not match or if a specified duration is less
    than the total_time of the sequence' - a duration of 0 for a sequence with total_time > 0 IS less.  Pieces after the
    first positive offset are shifted, and shifting a quantized sequence raises QuantizationStatusError.  An empty
    durations list is not distinguishable from None for the code (left to 'any' when there are sequences)."""
    if durs is not None and len(durs) == 0 and seqs:
        return None, 'any'
    problems = set()
    if durs and len(durs) != len(seqs):
        return {'ValueError'}, 'raise'
    cur = 0.0
    for i, s in enumerate(seqs):
        if durs and durs[i] < s.total_time:
            problems.add('ValueError')
        if cur > 0 and sl.is_quantized_sequence(s):
            problems.add('QuantizationStatusError')
        cur = cur + durs[i] if durs else cur + s.total_time
    if problems:
        return problems, 'raise'
    if any(sl.is_quantized_sequence(s) for s in seqs):
        return None, 'any'
    return None, 'legal'


def g_t(r, ns):
    """a time related to the sequence: one of its own times, inside, at the end, beyond"""
    k = r.random()
    times = [n.start_time for n in ns.notes] + [n.end_time for n in ns.notes] + [ns.total_time, 0.0]
    if k < 0.45:
        return r.choice(times)
    if k < 0.85:
        return r.uniform(0, ns.total_time) if ns.total_time > 0 else 0.0
    return ns.total_time + r.choice([0.0, 0.5, 3.0])


DYNAMIC_OPS = [op for op in PURE_OPS]

# documented / accepted exception types per operation (anything else on a well-formed input is reported)
ACCEPTED_ERRORS = {
    'split_note_sequence': {'ValueError', 'QuantizationStatusError'},
    'quantize_note_sequence': {'MultipleTempoError', 'MultipleTimeSignatureError', 'BadTimeSignatureError', 'NegativeTimeError'},
    'quantize_note_sequence_absolute': {'NegativeTimeError'},
    'concatenate_sequences': {'ValueError', 'QuantizationStatusError'},
    'repeat_sequence_to_duration': {'ValueError', 'QuantizationStatusError', 'ZeroDivisionError'},
    'expand_section_groups': {'KeyError', 'ValueError', 'QuantizationStatusError'},
    'adjust_notesequence_times': {'InvalidTimeAdjustmentError'},
}


def scramble(ns, salt=1):
    """the caller edits a NoteSequence it was handed back: every kind of in-place edit protobuf offers"""
    from note_seq.protobuf import music_pb2
    for n in ns.notes:
        n.pitch = (n.pitch + 5 + salt) % 128
        n.velocity = (n.velocity + 3) % 128
        n.start_time += 1.0 + salt
        n.end_time += 2.5 + salt
        n.quantized_start_step += 3
        n.quantized_end_step += 4
        n.voice += 100000
    if len(ns.notes) > 1:
        del ns.notes[0]
    x = ns.notes.add()
    x.pitch, x.velocity, x.start_time, x.end_time, x.voice = 1, 1, 0.125, 9999.5, 424242
    ns.notes.sort(key=lambda n: -n.start_time)
    for f in EVENT_FIELDS:
        rep = getattr(ns, f)
        for e in rep:
            e.time += 0.75 + salt
        if len(rep) > 1:
            del rep[-1]
    for t in ns.tempos:
        t.qpm += 11.0
    for k in ns.key_signatures:
        k.key = (k.key + 1) % 12
    for t in ns.text_annotations:
        t.text += '~'
    ns.tempos.add(time=3.25, qpm=33.0)
    ns.control_changes.add(time=0.5, control_number=64, control_value=1)
    ns.section_annotations.add(time=77.0, section_id=99)
    g = ns.section_groups.add()
    g.num_times = 7
    g.sections.add().section_id = 99
    for g in ns.section_groups:
        g.num_times += 1
    ns.sequence_metadata.composers.append('edited')
    ns.subsequence_info.start_time_offset += 1.0
    ns.total_time += 1234.5
    ns.total_quantized_steps += 17
    ns.ticks_per_quarter += 1
    ns.id += 'edited'
    if salt % 2:
        ns.quantization_info.steps_per_second += 1
    return ns


def pylist_snapshot(lst):
    """identity of NoteSequence elements, exact value of numbers"""
    return [('id', id(x)) if hasattr(x, 'SerializeToString') else ('v', type(x).__name__, repr(x)) for x in lst]


def same_object(results, seqs):
    """index pairs (i, j) with results[i] being the very object seqs[j]"""
    return [(i, j) for i, o in enumerate(results) for j, s in enumerate(seqs) if o is s]


def run_case(c):
    """one short HISTORY on the real code; -> (list of property failures, outcome label)
         call 1 -> r1          arguments byte-for-byte as before (also when it raised); Python list arguments too
                               no NoteSequence of r1 is an argument object ("returns a NEW NoteSequence")
         the caller edits r1   in place, every way protobuf offers: the arguments must still be byte-for-byte as before
         call 2 -> r2          same outcome as call 1 had BEFORE the caller edited it; r2 shares no object with r1
                               or the arguments; arguments unchanged
       then well-formedness / traceability of r2 (a fresh, unedited result equal to r1 as returned)."""
    fails = []
    before = [ser(s) for s in c.seqs]
    lists_before = [pylist_snapshot(l) for l in c.pylists]
    n_before = len(c.seqs)

    def args_changed(when):
        after = [ser(s) for s in c.seqs]
        if after != before or len(c.seqs) != n_before:
            which = [i for i, (a, b) in enumerate(zip(before, after)) if a != b]
            fails.append('argument %s modified %s' % (which, when))
            return True
        if [pylist_snapshot(l) for l in c.pylists] != lists_before:
            fails.append('a Python list passed as an argument was modified %s' % when)
            return True
        return False

    def one_call():
        try:
            return ('ok', c.call())
        except Exception as e:  # pylint: disable=broad-except
            return ('err', type(e).__name__, str(e)[:200])

    a = one_call()
    if args_changed('by the call (%s)' % ('it raised ' + a[1] if a[0] == 'err' else 'it returned')):
        return fails, 'mutated'
    canon_a = canon_result(a[1]) if a[0] == 'ok' else None
    if a[0] == 'ok':
        r1 = result_seqs(a[1])
        same = same_object(r1, c.seqs)
        if same:
            fails.append('no new NoteSequence returned: result %d is the argument object %d itself' % same[0])
        if len({id(o) for o in r1}) != len(r1):
            fails.append('no new NoteSequence returned: the same object occurs twice in the result')
        if not same:
            for i, o in enumerate(r1):
                scramble(o, i + 1)
            if args_changed('when the caller edited the returned sequence in place (result and argument share memory)'):
                return fails, 'aliased'
    b = one_call()
    if args_changed('by the second call (%s)' % ('it raised ' + b[1] if b[0] == 'err' else 'it returned')):
        return fails, 'mutated'
    if a[0] != b[0] or (a[0] == 'err' and a[1:] != b[1:]) or (a[0] == 'ok' and canon_result(b[1]) != canon_a):
        fails.append('second call gives a different result' + (' (after the caller edited the first result in place)' if a[0] == 'ok' else ''))
    if a[0] == 'ok' and b[0] == 'ok':
        r2 = result_seqs(b[1])
        if any(x is y for x in r2 for y in r1):
            fails.append('no new NoteSequence returned: the second call hands back an object of the first result')
        same = same_object(r2, c.seqs)
        if same and not any('argument object' in f for f in fails):
            fails.append('no new NoteSequence returned: result %d of the second call is the argument object %d itself' % same[0])
    label = 'ok' if a[0] == 'ok' else 'raise:' + a[1]
    if a[0] == 'err':
        if c.expect_raise is not None:
            want = c.expect_raise if isinstance(c.expect_raise, (set, frozenset, list, tuple)) else [c.expect_raise]
            if a[1] not in want:
                fails.append('expected %s, got %s: %s' % ('/'.join(sorted(want)), a[1], a[2]))
        elif c.kind == 'legal' or a[1] not in ACCEPTED_ERRORS.get(c.op, set()):
            fails.append('unexpected %s on a %s input: %s' % (a[1], c.kind, a[2]))
        return fails, label
    if c.expect_raise is not None:
        want = c.expect_raise if isinstance(c.expect_raise, (set, frozenset, list, tuple)) else [c.expect_raise]
        fails.append('expected %s, got a result' % '/'.join(sorted(want)))
        return fails, label
    res = result_seqs(b[1]) if b[0] == 'ok' else []
    if all(wf_input(s) for s in c.seqs) and c.wf:
        for o in res:
            w = wf_result(o, c.quantized)
            if w:
                fails.append('result not well-formed: ' + w)
                break
    t = traceable(c.seqs, res, c.max_mult, c.pitch_shift)
    if t:
        fails.append('note invented: ' + t)
    return fails, label


def replay_obj(c, what):
    exp = sorted(c.expect_raise) if isinstance(c.expect_raise, (set, frozenset)) else c.expect_raise
    return {'op': c.op, 'what': what, 'args': c.desc, 'kind': c.kind, 'expect_raise': exp,
            'sequences': [nswire.encode(s) for s in c.seqs],
            'sequences_b64': [__import__('base64').b64encode(ser(s)).decode() for s in c.seqs]}


def known_finding_for(chk, c, what):
    """match a failure against the open known findings of C11 (by operation and clause)"""
    for e in chk.known:
        m = e.get('match', {})
        if e.get('status') == 'open' and m.get('op') == c.op and m.get('clause', '') in what:
            return e['id']
    return None


# ----------------------------------------------------------------------------- run
def run(chk):
    from absl import logging as absl_logging
    absl_logging.set_verbosity(absl_logging.ERROR)
    from note_seq import sequences_lib as sl
    info = generate(chk)
    probe_runtime(chk)
    bmods = b_modules()
    modules = [A_MOD, OPS_MOD] + list(bmods)
    theorems = [(A_MOD, 'NSV.C11.' + t) for t in A_THEOREMS] + [(OPS_MOD, 'NSV.C11.' + t) for t in OPS_THEOREMS]
    for mod, ths in bmods.items():
        theorems += [(mod, 'NSV.C11.' + t) for t in ths]
    chk.prove(modules, theorems, [EXE], extra_trusted=[
        'gen/refir.py: Python AST -> reference IR (supported forms and conservative fallbacks listed in its docstring; '
        'kinds PB/PY inferred from the music.proto schema and from constructors)',
        'heap semantics of Model/C11.lean as a model of CPython + protobuf (probed: insertion into a repeated field copies; '
        'CopyFrom/MergeFrom/deepcopy share nothing with their source)',
        'external calls assumed not to mutate their arguments: ' + ', '.join(info['trusted_external_calls']),
    ])
    chk.notes['b_modules'] = sorted(bmods)
    chk.assumptions = ['protobuf repeated-field insertion copies (probed every run)',
                       'CopyFrom / MergeFrom / deepcopy results share nothing with their source (probed every run)',
                       'Python containers created by an operation are only aliased in the syntactic ways gen/refir.py tracks']
    chk.rule = ('(a) static: compiled checker on the regenerated IR of every listed operation vs the translator\'s own analysis; '
                '(dyn) every listed operation x generated well-formed NoteSequences carrying every repeated field (notes, tempos, '
                'time/key signatures, annotations incl. beats and chords, control changes, pitch bends, section annotations, nested '
                'section groups, metadata) x legal and raising arguments, called twice on the real code: argument bytes before/after, '
                'equality of the two results, well-formedness and traceability of the result; non-trivial = distinct (op, input) whose '
                'outcome is a result or an expected exception')

    # ---- (a) static correspondence: compiled Lean checker vs the translator's proposals
    names = PURE_OPS + IMPURE_OPS
    resp = chk.driver(EXE, ['pure %s' % n for n in names])
    for n, line in zip(names, resp):
        t = line.split()
        mine = info['listed'].get(n) or {}
        chk.count('static:checker', n, True, ['verdict:' + ('pure' if t[1:2] == ['1'] else 'impure')])
        want = n in PURE_OPS
        if t[0] != 'ok':
            chk.disagree('static:checker', {'op': n}, 'translated', line)
            continue
        lean_pure, lean_fresh, lean_ok = t[1] == '1', t[2] == '1', t[3] == '1'
        if lean_pure != bool(mine.get('pure')) or not lean_ok or (lean_pure and lean_fresh != bool(mine.get('fresh_result'))):
            chk.disagree('static:checker', {'op': n}, 'translator analysis: %s' % mine, 'lean checker: %s' % line)
        if lean_pure != want:
            chk.notes.setdefault('static_verdicts_unexpected', {})[n] = {
                'expected_pure': want, 'checker_pure': lean_pure,
                'write_statements_to_aim_at (source lines)': mine.get('failing_lines_for_any_argument')}
    chk.sample({'static': dict(zip(names, resp))})
    # "documented as returning a NEW NoteSequence": theorem fresh_<op> for every listed operation (Props/C11_ops.lean)
    chk.notes['result_is_newly_allocated (demanded: theorems fresh_<op>)'] = {
        n: (line.split()[2:3] == ['1']) for n, line in zip(names, resp) if n in PURE_OPS}
    for n, line in zip(names, resp):
        if n in PURE_OPS and line.split()[:1] == ['ok'] and line.split()[2:3] != ['1']:
            chk.disagree('static:checker', {'op': n, 'clause': 'returns a new NoteSequence'},
                         'documented: returns a new NoteSequence', 'lean checker: the result may be (part of) an argument: ' + line)

    # ---- corpus (past failing inputs) first
    import base64
    from harness.common import corpus_cases
    from note_seq.protobuf import music_pb2
    for fname, obj in corpus_cases(PID):
        obj = obj.get('input', obj)
        seqs = []
        for b in obj['sequences_b64']:
            s_ = music_pb2.NoteSequence()
            s_.ParseFromString(base64.b64decode(b))
            seqs.append(s_)
        c = rebuild_case(sl, obj['op'], seqs, obj.get('args') or {})
        if c.op != 'concatenate_sequences':          # (its expectation is recomputed from the documented behaviour)
            c.kind, c.expect_raise = obj.get('kind', 'any'), obj.get('expect_raise')
        fails, label = run_case(c)
        chk.count('corpus', fname, not fails, ['outcome:' + label])
        for what in fails:
            chk.fail('%s (corpus %s): %s' % (c.op, fname, what), replay_obj(c, what), finding=known_finding_for(chk, c, what))

    # ---- dynamic cross-check + oracle on the real code
    rng = chk.subrng('dyn')
    g = Gen(rng)
    per_op = chk.n(150, 2500)
    nfail = 0
    for op in DYNAMIC_OPS:
        for i in range(per_op):
            for c in gen_cases(sl, g, rng, op):
                fails, label = run_case(c)
                key = (op, tuple(ser(s) for s in c.seqs), repr(sorted(c.desc.items(), key=str)))
                chk.count('dyn:' + op, key, not fails, ['outcome:' + label, 'kind:' + c.kind,
                                                         'notes:%s' % ('0' if not all_notes_tags(c.seqs) else '1+')])
                for what in fails:
                    nfail += 1
                    chk.fail('%s: %s' % (op, what), replay_obj(c, what), finding=known_finding_for(chk, c, what))
                if i < 1 and op in ('trim_note_sequence', 'expand_section_groups'):
                    chk.sample({'op': op, 'args': c.desc, 'outcome': label, 'notes_in': len(all_notes_tags(c.seqs))})
            if nfail > 60:
                break
    # self-test of the observation: the in-place variants MUST be seen to mutate
    seen = {}
    for i in range(40):
        ns = g.seq(max_notes=4)
        if not ns.notes:
            continue
        for name, f in (('stretch_note_sequence__in_place', lambda s: sl.stretch_note_sequence(s, 2.0, in_place=True)),
                        ('transpose_note_sequence__in_place', lambda s: sl.transpose_note_sequence(s, 3, in_place=True)),
                        ('_quantize_notes', lambda s: sl._quantize_notes(s, 10.0))):
            c2 = copy.deepcopy(ns)
            b = ser(c2)
            try:
                f(c2)
            except Exception:  # pylint: disable=broad-except
                pass
            seen[name] = seen.get(name, False) or ser(c2) != b
            chk.count('dyn:in_place_self_test', None, False, ['%s:%s' % (name, 'mutates' if ser(c2) != b else 'same')])
    chk.notes['in_place_variants_observed_to_mutate'] = seen
    if not all(seen.get(n) for n in IMPURE_OPS):
        chk.broken.append('self-test:in-place variant not observed to mutate its argument')


def replay(chk, obj):
    import base64
    from note_seq import sequences_lib as sl
    from note_seq.protobuf import music_pb2
    print('replay C11: %s %s' % (obj.get('op'), obj.get('args')))
    seqs = []
    for b in obj['sequences_b64']:
        s = music_pb2.NoteSequence()
        s.ParseFromString(base64.b64decode(b))
        seqs.append(s)
    c = rebuild_case(sl, obj['op'], seqs, obj.get('args') or {})
    if c.op != 'concatenate_sequences':
        c.kind, c.expect_raise = obj.get('kind', 'any'), obj.get('expect_raise')
    fails, label = run_case(c)
    print('outcome:', label)
    for f in fails:
        print('PROPERTY FAILS: %s' % f)
    if not fails:
        print('property holds on this input')
    return 1 if fails else 0


def rebuild_case(sl, op, seqs, a):
    tf = time_funcs()
    ns = seqs[0] if seqs else None
    q = op.startswith('quantize')
    calls = {
        'trim_note_sequence': lambda: sl.trim_note_sequence(ns, a['start'], a['end']),
        'extract_subsequence': lambda: sl.extract_subsequence(ns, a['start'], a['end'], preserve_control_numbers=a.get('preserve')),
        '_extract_subsequences': lambda: sl._extract_subsequences(ns, list(a['split_times'])),
        'split_note_sequence': lambda: sl.split_note_sequence(ns, copy.copy(a['hop']), a['skip']),
        'split_note_sequence_on_time_changes': lambda: sl.split_note_sequence_on_time_changes(ns, a['skip']),
        'split_note_sequence_on_silence': lambda: sl.split_note_sequence_on_silence(ns, a['gap']),
        'shift_sequence_times': lambda: sl.shift_sequence_times(ns, a['shift']),
        'stretch_note_sequence': lambda: sl.stretch_note_sequence(ns, a['factor']),
        'transpose_note_sequence': lambda: sl.transpose_note_sequence(ns, a['amount'], a['min'], a['max'], a['chords']),
        'quantize_note_sequence': lambda: sl.quantize_note_sequence(ns, a['steps_per_quarter']),
        'quantize_note_sequence_absolute': lambda: sl.quantize_note_sequence_absolute(ns, a['steps_per_second']),
        'apply_sustain_control_changes': lambda: sl.apply_sustain_control_changes(ns, a['control_number']),
        'concatenate_sequences': lambda: sl.concatenate_sequences(list(seqs), a.get('durations')),
        'merge_sequences': lambda: sl.merge_sequences(list(seqs)),
        'repeat_sequence_to_duration': lambda: sl.repeat_sequence_to_duration(ns, a['duration'], a.get('sequence_duration')),
        'expand_section_groups': lambda: sl.expand_section_groups(ns),
        'remove_redundant_data': lambda: sl.remove_redundant_data(ns),
        'adjust_notesequence_times': lambda: sl.adjust_notesequence_times(ns, tf[a['time_func']], a.get('minimum_duration')),
        'rectify_beats': lambda: sl.rectify_beats(ns, a['bpm']),
    }
    mult = None if op in ('repeat_sequence_to_duration', 'expand_section_groups') or len({id(s) for s in seqs}) < len(seqs) else 1
    c = Case(op, seqs, calls[op], 'any', quantized=q, max_mult=mult,
             pitch_shift=a.get('amount') if op == 'transpose_note_sequence' else None, desc=a)
    if op == 'concatenate_sequences':
        c.expect_raise, c.kind = concat_expectation(sl, seqs, a.get('durations'))
    return c
