"""C17 — event sequences keep length, step range and indexing consistent under any edits (DESIGN 6.17).

Lock-step histories: a history = (class, constructor arguments, list of operations).  The real
object executes the operations one by one (an exception is caught and the same object carries on);
the compiled Lean model (`drv_c17`) executes the same history from the same constructor arguments.
After every operation the complete observation (len, start_step, end_step, resolution /
num_steps, list(iter), obj[i] for every i in -len-1..len, steps) and the exception status are
compared exactly.  Independently of the model, the oracle evaluates the property statement on the
observations of the real object after every operation.

Object identity: a history works on a HEAP of real objects.  `copy.deepcopy(s)`, `s[i:j]`, `s[i:j:k]`
return a new object and leave `s` alive; the history continues on the new object and may switch back to
any earlier one (`['sw', k]`).  After every operation the oracle checks that no object other than the
receiver changed, and the complete heap (every object's observation) is compared with the model's heap at
the end of every history (for the exhaustive stream: at every node).  For lead sheets `['sh', a, b]` builds
`LeadSheet(obj[a].melody, obj[b].chords)` (the constructor stores the objects it is given: real sharing)
and `['mo', op]` / `['co', op]` call a method of the current lead sheet's melody / chords object behind the
lead sheet's back; these three are outside the property's operation alphabet (the oracle makes no demands
after them) and exist to tie the model's reference semantics to the code.

Extended slices s[i:j:k] are modelled and compared (start offset = slice.indices(len)[0], ValueError for
k = 0); the property's clause "slices carry the step offset of the elements they contain" cannot hold for
them (element m comes from source step lo + m*k but is reported at lo + m), so the oracle demands only
that the result is a consistent sequence of the same class holding exactly the selected events.
"""
import copy
import json

from harness.common import corpus_cases, lean_int, lean_str, wl

PID = 'C17'
MODULES = ['NoteSeqVerif.Props.C17', 'NoteSeqVerif.Props.C17Heap']
EXE = 'drv_c17'
THEOREMS = [('NoteSeqVerif.Props.C17', 'NSV.C17.' + t) for t in (
    # python list primitives
    'py_slice_start py_slice_elements py_index py_range '
    # simple family (SimpleEventSequence, Melody, DrumTrack, ChordProgression)
    'class_records_lawful inv_init inv_from_event_list inv_step inv_reachable observations_consistent '
    'melody_in_range set_length_exact set_length_keeps melody_sustain_iff melody_set_length_first_new '
    'slice_offset slice_elements clean_pointwise inc_res_scales step_frame refines_abstract '
    # lead sheet
    'lead_inv_init lead_inv_step lead_inv_reachable lead_observations_consistent lead_slice_ok lead_set_length_exact '
    # pianoroll
    'roll_step roll_set_length_exact roll_observations_consistent '
    # performance
    'perf_append_steps perf_trim_steps perf_append_trim perf_set_length_exact perf_inv_step '
    'perf_inv_reachable perf_observations_consistent '
    # Melody events stay within -2..127 after every operation / history
    'melody_step_in_range melody_reachable_in_range lead_melody_reachable_in_range '
    # extended slices s[i:j:k]
    'py_slice_step_elements py_slice_step_unit strided_slice_result strided_slice_zero_step '
    'strided_slice_misplaces lead_strided_slice_ok '
    # NotePerformance
    'nperf_step nperf_set_length_noop nperf_observations_consistent nperf_reachable').split()] + [
    ('NoteSeqVerif.Props.C17Heap', 'NSV.C17.' + t) for t in (
    # heaps of objects: identity, deepcopy independence, invariants of every object
    'heap_untouched deepcopy_independent deepcopy_independent_classes heap_inv_reachable '
    'melody_heap_in_range perf_heap_inv_reachable '
    # lead sheets as references to Melody / ChordProgression objects
    'store_wf_reachable lead_copy_is_private lead_deepcopy_independent lead_private_untouched '
    'lead_store_inv_reachable').split()]

SIMPLE = ('simple', 'melody', 'drum', 'chord')
KINDS = SIMPLE + ('lead', 'roll', 'perf', 'nperf')
FRESH = ('sc', 'sk', 'dc', 'in')     # operations that return a new object
NO_EVENT, NOTE_OFF = -2, -1          # from the property text / Melody docstring, not from the code


def generate(chk):
    """Generated/C17.lean: the constants the model uses, read from the working tree."""
    from note_seq import constants, melodies_lib as ml, events_lib as el, chords_lib as cl, performance_lib as pl
    PE = pl.PerformanceEvent
    rows = [
        ('MELODY_NOTE_OFF', 'Int', lean_int(ml.MELODY_NOTE_OFF)), ('MELODY_NO_EVENT', 'Int', lean_int(ml.MELODY_NO_EVENT)),
        ('MIN_MELODY_EVENT', 'Int', lean_int(ml.MIN_MELODY_EVENT)), ('MAX_MELODY_EVENT', 'Int', lean_int(ml.MAX_MELODY_EVENT)),
        ('MIN_MIDI_PITCH', 'Int', lean_int(constants.MIN_MIDI_PITCH)), ('MAX_MIDI_PITCH', 'Int', lean_int(constants.MAX_MIDI_PITCH)),
        ('DEFAULT_STEPS_PER_BAR', 'Int', lean_int(el.DEFAULT_STEPS_PER_BAR)),
        ('DEFAULT_STEPS_PER_QUARTER', 'Int', lean_int(el.DEFAULT_STEPS_PER_QUARTER)),
        ('NO_CHORD', 'String', lean_str(cl.NO_CHORD)),
        ('NOTE_ON', 'Nat', str(PE.NOTE_ON)), ('NOTE_OFF', 'Nat', str(PE.NOTE_OFF)), ('TIME_SHIFT', 'Nat', str(PE.TIME_SHIFT)),
        ('VELOCITY', 'Nat', str(PE.VELOCITY)), ('DURATION', 'Nat', str(PE.DURATION)),
        ('MAX_NUM_VELOCITY_BINS', 'Int', lean_int(pl.MAX_NUM_VELOCITY_BINS)),
    ]
    txt = ('/-! GENERATED from /repo on every run by harness/c17.py — do not edit. -/\n'
           'namespace NSV.C17.Gen\n' + ''.join('def %s : %s := %s\n' % r for r in rows) + 'end NSV.C17.Gen\n')
    chk.regenerate('NoteSeqVerif/Generated/C17.lean', txt)


# ----------------------------------------------------------------------------- events
def ev_py(kind, j):
    """JSON event -> Python event"""
    if kind == 'drum':
        return frozenset(j[1]) if j[0] == 'f' else list(j[1])
    if kind == 'lead':
        return (j[0], j[1])
    if kind == 'roll':
        return tuple(j)
    if kind == 'nperf':
        from note_seq.performance_lib import PerformanceEvent as PE
        return (PE(PE.TIME_SHIFT, j[0]), PE(PE.NOTE_ON, j[1]), PE(PE.VELOCITY, j[2]), PE(PE.DURATION, j[3]))
    return j


def ev_wire(kind, j):
    if kind == 'drum':
        return '%s:%s' % (j[0], ','.join(map(str, j[1])))
    if kind == 'roll':
        return 't:' + ','.join(map(str, j))
    if kind == 'nperf':
        return ','.join(map(str, j))
    return str(j)


def ev_render(kind, e):
    """event read back from the object -> wire token"""
    if kind == 'drum':
        return 'f:' + ','.join(map(str, sorted(e)))
    if kind == 'lead':
        return '%s/%s' % (e[0], e[1])
    if kind == 'roll':
        return 't:' + ','.join(map(str, e))
    if kind == 'perf':
        return '%d:%d' % (e.event_type, e.event_value)
    if kind == 'nperf':
        return ','.join(str(x.event_value) for x in e)
    return str(e)


def opt(x):
    return 'N' if x is None else str(x)


# ----------------------------------------------------------------------------- real objects
def make(kind, init):
    from note_seq import events_lib as el, melodies_lib as ml, drums_lib as dl, chords_lib as cl
    from note_seq import lead_sheets_lib as ll, pianoroll_lib as prl, performance_lib as pl
    if kind in SIMPLE:
        evs = None if init['events'] is None else [ev_py(kind, e) for e in init['events']]
        kw = dict(events=evs, start_step=init['start'], steps_per_bar=init['spb'], steps_per_quarter=init['spq'])
        if kind == 'simple':
            return el.SimpleEventSequence(init['pad'], **kw)
        return {'melody': ml.Melody, 'drum': dl.DrumTrack, 'chord': cl.ChordProgression}[kind](**kw)
    if kind == 'lead':
        if init is None:
            return ll.LeadSheet()
        return ll.LeadSheet(make('melody', init['melody']), make('chord', init['chords']))
    if kind == 'roll':
        return prl.PianorollSequence(events_list=[tuple(e) for e in init['events']], steps_per_quarter=init['spq'],
                                     start_step=init['start'], min_pitch=init['min_pitch'], max_pitch=init['max_pitch'],
                                     shift_range=bool(init['shift_range']))
    if kind == 'perf':
        if init.get('metric'):
            q, mq = init['metric']
            assert q * mq == init['max_shift']
            return pl.MetricPerformance(steps_per_quarter=q, start_step=init['start'], max_shift_quarters=mq)
        return pl.Performance(steps_per_second=100, start_step=init['start'], max_shift_steps=init['max_shift'])
    if kind == 'nperf':
        from note_seq.protobuf import music_pb2
        qs = music_pb2.NoteSequence()
        qs.quantization_info.steps_per_second = 100
        return pl.NotePerformance(qs, num_velocity_bins=32, instrument=0, start_step=init['start'],
                                  max_shift_steps=init['max_shift'])
    raise ValueError(kind)


def quantized_input(kind, spec):
    """the quantized NoteSequence (4/4, 4 steps per quarter) an extraction spec describes"""
    from note_seq.protobuf import music_pb2
    q = music_pb2.NoteSequence()
    q.quantization_info.steps_per_quarter = 4
    q.tempos.add(qpm=120.0)
    q.time_signatures.add(numerator=4, denominator=4)
    last = 0
    if kind == 'chord':
        for fig, step in spec['chords']:
            t = q.text_annotations.add(text=fig, quantized_step=step, time=step / 8.0)
            t.annotation_type = music_pb2.NoteSequence.TextAnnotation.CHORD_SYMBOL
            last = max(last, step)
    else:
        for pitch, a, b in spec['notes']:
            q.notes.add(pitch=pitch, velocity=90, quantized_start_step=a, quantized_end_step=b, start_time=a / 8.0,
                        end_time=b / 8.0, is_drum=(kind == 'drum'), instrument=9 if kind == 'drum' else 0)
            last = max(last, b)
    q.total_quantized_steps = last
    q.total_time = last / 8.0
    return q


def extract_into(kind, obj, spec):
    """re-populate a real object with its class's from_quantized_sequence"""
    q = quantized_input(kind, spec)
    if kind == 'melody':
        obj.from_quantized_sequence(q, search_start_step=spec['ss'], instrument=0, gap_bars=spec['gap'],
                                    ignore_polyphonic_notes=True, pad_end=spec['pad'], filter_drums=True)
    elif kind == 'drum':
        obj.from_quantized_sequence(q, search_start_step=spec['ss'], gap_bars=spec['gap'], pad_end=spec['pad'],
                                    ignore_is_drum=False)
    else:
        obj.from_quantized_sequence(q, spec['ss'], spec['end'])


def rand_fq(kind, rng):
    """an extraction op for melody / drum / chord objects: ['fq', start, spb, spq, event codes, spec] with the first four
    taken from a scratch extraction on a fresh object (None when that extraction raises: the generator then picks another
    op, so every generated 'fq' is a valid operation)"""
    ss = rng.choice([0, 0, 16, 32])
    if kind == 'chord':
        figs = ['C', 'G7', 'Am', 'F', 'Dm7']
        steps = sorted(rng.sample(range(0, 64), rng.randrange(0, 5)))
        spec = {'chords': [[rng.choice(figs), st] for st in steps], 'ss': ss, 'end': ss + rng.choice([1, 7, 16, 23, 40])}
    else:
        notes, t = [], ss + rng.choice([0, 0, 3, 17])
        for _ in range(rng.randrange(1, 6)):
            d = rng.choice([1, 1, 2, 3, 5, 9])
            notes.append([rng.randrange(36, 84) if kind == 'melody' else rng.choice([36, 38, 42, 46]), t, t + d])
            t += d + rng.choice([0, 0, 1, 4])
        spec = {'notes': notes, 'ss': ss, 'gap': rng.choice([1, 2]), 'pad': rng.random() < 0.6}
    scratch = make(kind, {'events': None, 'start': 0, 'spb': 16, 'spq': 4})
    try:
        extract_into(kind, scratch, spec)
        evs = list(scratch)
    except Exception:  # pylint: disable=broad-except
        return None
    code = (lambda e: int(e)) if kind == 'melody' else (lambda e: ['f', sorted(e)]) if kind == 'drum' else str
    return ['fq', scratch.start_step, scratch.steps_per_bar, scratch.steps_per_quarter, [code(e) for e in evs], spec]


def wire_seq_init(kind, init):
    s = '%s %d %d %d' % ('N' if init['events'] is None else 'L', init['start'], init['spb'], init['spq'])
    if init['events'] is not None:
        s += ' ' + wl(ev_wire(kind, e) for e in init['events'])
    return s


def wire_init(kind, init):
    if kind == 'simple':
        return 'simple %d %s' % (init['pad'], wire_seq_init(kind, init))
    if kind in SIMPLE:
        return '%s %s' % (kind, wire_seq_init(kind, init))
    if kind == 'lead':
        if init is None:
            return 'lead N'
        return 'lead L ' + wire_lead_args(init)
    if kind == 'roll':
        return 'roll %d %d %d %d %d %s' % (init['start'], init['spq'], init['min_pitch'], init['max_pitch'],
                                           1 if init['shift_range'] else 0, wl(ev_wire('roll', e) for e in init['events']))
    if kind in ('perf', 'nperf'):
        return '%s %d %d' % (kind, init['start'], init['max_shift'])
    raise ValueError(kind)


def wire_lead_args(init):
    m, c = init['melody'], init['chords']
    return '%d %d %d %s %d %d %d %s' % (m['start'], m['spb'], m['spq'], wl(m['events'] or []),
                                        c['start'], c['spb'], c['spq'], wl(c['events'] or []))


def wire_op(kind, op):
    t = op[0]
    if t == 'sw':
        return 'sw %d' % op[1]
    if t == 'sk':
        return 'sk %s %s %d' % (opt(op[1]), opt(op[2]), op[3])
    if kind == 'lead' and t == 'sh':
        return 'sh %d %d' % (op[1], op[2])
    if kind == 'lead' and t in ('mo', 'co'):
        return '%s %s' % (t, wire_op('melody' if t == 'mo' else 'chord', op[1]))
    if kind == 'nperf':
        if t == 'a':
            return 'a ' + ev_wire(kind, op[1])
        if t == 'sl':
            return 'sl %d %d' % (op[1], 1 if op[2] else 0)
        if t == 'tr':
            return 'tr %d' % op[1]
        return t
    if kind in SIMPLE:
        if t == 'a':
            return 'a ' + ev_wire(kind, op[1])
        if t == 'sl':
            return 'sl %d %d' % (op[1], 1 if op[2] else 0)
        if t == 'sc':
            return 'sc %s %s' % (opt(op[1]), opt(op[2]))
        if t == 'ir':
            return 'ir %d %s' % (op[1], 'N' if op[2] is None else ev_wire(kind, op[2]))
        if t in ('ri', 'fq'):
            # 'fq' (from_quantized_sequence) is, for the model, a re-initialisation with the events, start step and
            # resolution a scratch extraction of the same input produced: the model derives end_step / steps / len
            return 'ri %d %d %d %s' % (op[1], op[2], op[3], wl(ev_wire(kind, e) for e in op[4]))
        return t
    if kind == 'lead':
        if t == 'a':
            return 'a %d %s' % (op[1][0], op[1][1])
        if t == 'sl':
            return 'sl %d' % op[1]
        if t == 'sc':
            return 'sc %s %s' % (opt(op[1]), opt(op[2]))
        if t == 'ir':
            return 'ir %d' % op[1]
        if t == 'in':
            return 'in ' + wire_lead_args(op[1])
        return t
    if kind == 'roll':
        if t == 'a':
            return 'a %d %s' % (1 if op[1] else 0, ev_wire('roll', op[2]))
        if t == 'sl':
            return 'sl %d %d' % (op[1], 1 if op[2] else 0)
        return t
    if kind == 'perf':
        if t == 'a':
            return 'a %d %d' % (op[1], op[2])
        if t == 'sl':
            return 'sl %d %d' % (op[1], 1 if op[2] else 0)
        if t in ('tr', 'as', 'ts'):
            return '%s %d' % (t, op[1])
        return t
    raise ValueError(kind)


def apply_op(kind, obj, op):
    """run one operation on the real object; returns the current object afterwards"""
    t = op[0]
    if kind in SIMPLE:
        if t == 'a':
            obj.append(ev_py(kind, op[1]))
        elif t == 'sl':
            if op[2]:
                obj.set_length(op[1], from_left=True)
            else:
                obj.set_length(op[1])
        elif t == 'sc':
            return obj[op[1]:op[2]]
        elif t == 'sk':
            return obj[op[1]:op[2]:op[3]]
        elif t == 'ir':
            if kind in ('melody', 'drum') or op[2] is None:
                obj.increase_resolution(op[1])
            else:
                obj.increase_resolution(op[1], fill_event=ev_py(kind, op[2]))
        elif t == 'dc':
            return copy.deepcopy(obj)
        elif t == 'ri':
            obj._from_event_list([ev_py(kind, e) for e in op[4]], start_step=op[1], steps_per_bar=op[2],
                                 steps_per_quarter=op[3])
        elif t == 'fq':
            extract_into(kind, obj, op[5])
        elif t == 'rs':
            obj._reset()
        else:
            raise ValueError(op)
        return obj
    if kind == 'lead':
        if t == 'a':
            obj.append(ev_py('lead', op[1]))
        elif t == 'sl':
            obj.set_length(op[1])
        elif t == 'sc':
            return obj[op[1]:op[2]]
        elif t == 'sk':
            return obj[op[1]:op[2]:op[3]]
        elif t == 'ir':
            obj.increase_resolution(op[1])
        elif t == 'dc':
            return copy.deepcopy(obj)
        elif t == 'in':
            return make('lead', op[1])
        elif t == 'rs':
            obj._reset()
        else:
            raise ValueError(op)
        return obj
    if kind == 'roll':
        if t == 'a':
            obj.append(tuple(op[2]), shift_range=bool(op[1]))
        elif t == 'sl':
            if op[2]:
                obj.set_length(op[1], from_left=True)
            else:
                obj.set_length(op[1])
        elif t == 'dc':
            return copy.deepcopy(obj)
        else:
            raise ValueError(op)
        return obj
    if kind == 'perf':
        from note_seq.performance_lib import PerformanceEvent as PE
        if t == 'a':
            obj.append(PE(op[1], op[2]))
        elif t == 'ab':
            obj.append('not-an-event')
        elif t == 'sl':
            if op[2]:
                obj.set_length(op[1], from_left=True)
            else:
                obj.set_length(op[1])
        elif t == 'tr':
            obj.truncate(op[1])
        elif t == 'as':
            obj._append_steps(op[1])
        elif t == 'ts':
            obj._trim_steps(op[1])
        elif t == 'dc':
            return copy.deepcopy(obj)
        else:
            raise ValueError(op)
        return obj
    if kind == 'nperf':
        if t == 'a':
            obj.append(ev_py('nperf', op[1]))
        elif t == 'ab':
            obj.append('not-a-tuple')
        elif t == 'sl':
            if op[2]:
                obj.set_length(op[1], from_left=True)
            else:
                obj.set_length(op[1])
        elif t == 'tr':
            obj.truncate(op[1])
        elif t == 'dc':
            return copy.deepcopy(obj)
        else:
            raise ValueError(op)
        return obj
    raise ValueError(kind)


# ----------------------------------------------------------------------------- the heap of real objects
class World(object):
    """the real objects of one history: `objs` in creation order, `cur` = index of the object the next call goes
    to, `snaps[k]` = last observation of object k, `raws[k]` = attribute-level snapshot taken with it"""
    __slots__ = ('kind', 'objs', 'cur', 'snaps', 'raws')

    def __init__(self, kind, objs, cur=0):
        self.kind, self.objs, self.cur = kind, objs, cur
        self.snaps = [None] * len(objs)
        self.raws = [None] * len(objs)


def world_apply(w, op):
    """run one operation of a history on the heap (exceptions propagate, the heap is then as the call left it)"""
    t = op[0]
    kind = w.kind
    if t == 'sw':
        w.objs[op[1]]                  # IndexError of the object list when there is no such object
        w.cur = op[1]
        return
    if kind == 'lead' and t == 'sh':
        from note_seq import lead_sheets_lib as ll
        new = ll.LeadSheet(w.objs[op[1]].melody, w.objs[op[2]].chords)
    elif kind == 'lead' and t == 'mo':
        apply_op('melody', w.objs[w.cur].melody, op[1])
        return
    elif kind == 'lead' and t == 'co':
        apply_op('chord', w.objs[w.cur].chords, op[1])
        return
    else:
        new = apply_op(kind, w.objs[w.cur], op)
        if t not in FRESH:
            return
    w.objs.append(new)
    w.snaps.append(None)
    w.raws.append(None)
    w.cur = len(w.objs) - 1


def _raw_copy(v, memo):
    """attribute-level copy that does not go through any code under test and PRESERVES sharing: two objects
    (or two attributes) holding the same list / the same sub-object hold the same copy (events are immutable)"""
    if type(v) is list:
        c = memo.get(id(v))
        if c is None:
            c = memo[id(v)] = list(v)
        return c
    if hasattr(v, '_events') or hasattr(v, '_melody'):
        c = memo.get(id(v))
        if c is None:
            c = memo[id(v)] = object.__new__(type(v))
            d = c.__dict__
            for k, x in v.__dict__.items():
                d[k] = _raw_copy(x, memo)
        return c
    return v


def clone_world(w):
    memo = {}
    c = World(w.kind, [_raw_copy(o, memo) for o in w.objs], w.cur)
    c.snaps = list(w.snaps)
    c.raws = list(w.raws)
    return c


def raw_state(o):
    """value of every attribute (lists copied, sub-objects recursively): what an observation is a function of"""
    out = {}
    for k, v in o.__dict__.items():
        if type(v) is list:
            v = list(v)
        elif hasattr(v, '_events'):
            v = raw_state(v)
        out[k] = v
    return out


def raw_same(o, st):
    d = o.__dict__
    if len(d) != len(st):
        return False
    for k, v in d.items():
        if k not in st:
            return False
        x = st[k]
        if hasattr(v, '_events'):
            if type(x) is not dict or not raw_same(v, x):
                return False
        elif type(v) is not type(x) or v != x:
            return False
    return True


class Snap(object):
    __slots__ = ('n', 'it', 'idx', 'steps', 'start', 'end', 'x1', 'x2', 'chords', 'text')


IDXERR = object()


def observe(kind, obj):
    """everything the property talks about, read through the public interface of the real object"""
    sn = Snap()
    n = sn.n = len(obj)
    it = sn.it = list(obj)
    idx = []
    for i in range(-n - 1, n + 1):
        try:
            idx.append(obj[i])
        except IndexError:
            idx.append(IDXERR)
    sn.idx = idx
    sn.steps = obj.steps
    sn.start, sn.end = obj.start_step, obj.end_step
    if kind == 'roll':
        sn.x1, sn.x2 = obj.num_steps, obj.steps_per_quarter
    elif kind in ('perf', 'nperf'):
        sn.x1, sn.x2 = obj.num_steps, obj.max_shift_steps
    else:
        sn.x1, sn.x2 = obj.steps_per_bar, obj.steps_per_quarter
    txt = '%d %d %d %d %d | %s | %s | %s' % (
        n, sn.start, sn.end, sn.x1, sn.x2, wl(ev_render(kind, e) for e in it),
        ' '.join('E' if e is IDXERR else ev_render(kind, e) for e in idx), wl(sn.steps))
    sn.chords = None
    if kind == 'perf':
        # the resolution attribute of the concrete class (not part of the model): must never change
        sn.chords = ('spq', obj.steps_per_quarter) if hasattr(obj, 'steps_per_quarter') else ('sps', obj.steps_per_second)
    if kind == 'lead':
        c = obj.chords
        sn.chords = (len(c), c.start_step, c.end_step, c.steps_per_bar, c.steps_per_quarter, list(c), list(obj.melody))
        txt += ' | chords %d %d %d %d %d' % sn.chords[:5]
    sn.text = txt
    return sn


# ----------------------------------------------------------------------------- oracle (property text)
def melody_ok(e):
    return isinstance(e, int) and -2 <= e <= 127


def drum_ok(j):
    return j[0] == 'f' and all(0 <= p <= 127 for p in j[1])


def pe_ok(ty, v):
    """PerformanceEvent documented value ranges"""
    if ty in (1, 2):
        return 0 <= v <= 127
    if ty == 3:
        return v >= 0
    if ty == 4:
        return 1 <= v <= 127
    if ty == 5:
        return v >= 1
    return False


def seq_init_ok(kind, init):
    evs = init['events'] or []
    if kind == 'melody':
        return all(melody_ok(e) for e in evs)
    if kind == 'drum':
        return all(drum_ok(e) for e in evs)
    return True


def lead_init_class(init):
    from note_seq import lead_sheets_lib as ll
    if init is None:
        return ('valid', None)
    m, c = init['melody'], init['chords']
    if not seq_init_ok('melody', m):
        return ('reject', ValueError)
    if (len(m['events'] or []) != len(c['events'] or []) or m['start'] != c['start'] or m['spb'] != c['spb']
            or m['spq'] != c['spq']):
        return ('reject', ll.MelodyChordsMismatchError)
    return ('valid', None)


def classify(kind, op):
    """('valid', None): must succeed and satisfy the property; ('reject', Exc): documented rejection, object
    must stay as it was; ('undefined', None): outside the operation's domain (negative length, factor < 1):
    nothing is demanded, and nothing is demanded of the object afterwards."""
    t = op[0]
    if t == 'sw':
        return ('valid', None)
    if t in ('sh', 'mo', 'co'):
        return ('undefined', None)          # aliasing probes: outside the property's operation alphabet
    if t == 'sk' and op[3] == 0:
        return ('reject', ValueError)       # "slice step cannot be zero"
    if kind == 'nperf':
        if t == 'ab':
            return ('reject', ValueError)
        return ('valid', None)
    if kind in SIMPLE:
        if t == 'a':
            if kind == 'melody' and not melody_ok(op[1]):
                return ('reject', ValueError)
            if kind == 'drum' and not drum_ok(op[1]):
                return ('reject', ValueError)
        elif t == 'sl':
            if op[1] < 0:
                return ('undefined', None)
        elif t == 'ir':
            if op[1] < 1:
                return ('undefined', None)
        elif t == 'ri':
            if not seq_init_ok(kind, {'events': op[4]}):
                return ('reject', ValueError)
        return ('valid', None)
    if kind == 'lead':
        if t == 'a' and not melody_ok(op[1][0]):
            return ('reject', ValueError)
        if t == 'sl' and op[1] < 0:
            return ('undefined', None)
        if t == 'ir' and op[1] < 1:
            return ('undefined', None)
        if t == 'in':
            return lead_init_class(op[1])
        return ('valid', None)
    if kind == 'roll':
        if t == 'sl':
            if op[2]:
                return ('reject', NotImplementedError)
            if op[1] < 0:
                return ('undefined', None)
        return ('valid', None)
    if kind == 'perf':
        if t == 'a' and not pe_ok(op[1], op[2]):
            return ('reject', ValueError)
        if t == 'ab':
            return ('reject', ValueError)
        if t == 'sl':
            if op[2]:
                return ('reject', NotImplementedError)
            if op[1] < 0:
                return ('undefined', None)
        if t in ('as', 'ts') and op[1] < 0:
            return ('undefined', None)
        return ('valid', None)
    raise ValueError(kind)


def shift_vals(it):
    return [e.event_value for e in it if e.event_type == 3]


def state_failures(kind, sn):
    """the state invariants of the property statement, on one observation"""
    n, it, idx = sn.n, sn.it, sn.idx
    if kind == 'nperf':
        shifts = [e[0].event_value for e in it]
        total = sum(shifts) + (it[-1][3].event_value if it else 0)
        if sn.end - sn.start != total or sn.x1 != total:
            return 'num_steps / end_step - start_step differ from the time shifts plus the last duration'
        st, want = sn.start, []
        for v in shifts:
            st += v
            want.append(st)
        if sn.steps != want:
            return 'steps does not list the onset step of every note event'
    elif kind == 'perf':
        total = sum(shift_vals(it))
        if sn.end - sn.start != total or sn.x1 != total:
            return 'num_steps / end_step - start_step differ from the sum of the time shifts'
        if len(sn.steps) != n:
            return 'steps does not list one step per event'
        st = sn.start
        for e, s in zip(it, sn.steps):
            if s != st:
                return 'steps[i] is not start_step plus the shifts before event i'
            if e.event_type == 3:
                st += e.event_value
    else:
        if n != sn.end - sn.start:
            return 'len != end_step - start_step'
        if sn.steps != list(range(sn.start, sn.end)) or len(sn.steps) != n:
            return 'steps does not list one step per event over [start_step, end_step)'
        if kind == 'roll' and sn.x1 != n:
            return 'num_steps != len'
    if len(it) != n:
        return 'iteration yields a different number of events than len'
    if idx[0] is not IDXERR or idx[-1] is not IDXERR:
        return 'indexing past either end does not raise IndexError'
    for i in range(n):
        if idx[n + 1 + i] is IDXERR or idx[1 + i] is IDXERR or idx[n + 1 + i] != it[i] or idx[1 + i] != it[i]:
            return 'indexing and iteration disagree at %d' % i
    if kind == 'melody' and not all(melody_ok(e) for e in it):
        return 'melody event outside -2..127'
    if kind == 'lead':
        c = sn.chords
        if not all(melody_ok(m) for m, _ in it):
            return 'lead sheet melody event outside -2..127'
        if c[:3] != (n, sn.start, sn.end) or c[3:5] != (sn.x1, sn.x2):
            return 'lead sheet melody and chords disagree on length / step range / resolution'
        if it != list(zip(c[6], c[5])):
            return 'lead sheet iteration is not the pairing of melody and chords'
    return None


def sounding(evs):
    """a note is sounding at the end of a melody: the last event that is not NO_EVENT is a pitch"""
    for e in reversed(evs):
        if e == NOTE_OFF:
            return False
        if e != NO_EVENT:
            return True
    return False


def cleaned_view(evs):
    """Melody re-initialisation may rewrite NOTE_OFFs before the first pitch to NO_EVENT (no note to end)"""
    out = list(evs)
    for i, e in enumerate(out):
        if e not in (NO_EVENT, NOTE_OFF):
            break
        out[i] = NO_EVENT
    return out


def same_events(kind, got, want):
    """equality of event lists; for melodies up to the documented leading NOTE_OFF cleaning"""
    if got == want:
        return True
    if kind == 'melody':
        return got == cleaned_view(want)
    if kind == 'lead':
        return [c for _, c in got] == [c for _, c in want] and [m for m, _ in got] == cleaned_view([m for m, _ in want])
    return False


def pad_of(kind, init_pad):
    return {'simple': init_pad, 'melody': NO_EVENT, 'drum': frozenset(), 'chord': 'N.C.'}[kind]


def transition_failures(kind, op, b, a, obj_b, obj_a, pad):
    """what the property demands of one valid operation: b/a = observations before/after"""
    t = op[0]
    if kind in SIMPLE or kind == 'lead':
        mel = kind in ('melody', 'lead')
        if t == 'a':
            e = ev_py(kind, op[1])
            if a.n != b.n + 1 or a.it[:-1] != b.it or a.it[-1] != e or a.start != b.start:
                return 'append did not add exactly the event at the end'
        elif t == 'sl':
            n, left = op[1], (kind != 'lead' and bool(op[2]))
            if a.n != n or a.end - a.start != n:
                return 'set_length(%d) did not yield exactly %d steps' % (n, n)
            k = min(n, b.n)
            if left:
                if a.end != b.end or a.it[a.n - k:] != b.it[b.n - k:]:
                    return 'set_length from the left did not keep the retained (right) side'
                if any(e != pad for e in a.it[:a.n - k]):
                    return 'set_length from the left padded with something other than the pad event'
            else:
                if a.start != b.start or a.it[:k] != b.it[:k]:
                    return 'set_length did not keep the retained (left) side'
                new = a.it[k:]
                if new:
                    if kind == 'lead':
                        want0 = (NOTE_OFF if sounding([m for m, _ in b.it]) else NO_EVENT, 'N.C.')
                        rest = (NO_EVENT, 'N.C.')
                    elif kind == 'melody':
                        want0, rest = (NOTE_OFF if sounding(b.it) else NO_EVENT), NO_EVENT
                    else:
                        want0 = rest = pad
                    if new[0] != want0 or any(e != rest for e in new[1:]):
                        return ('set_length padding wrong (first new step must be NOTE_OFF iff a note is sounding, '
                                'the rest pad events)')
        elif t == 'sc':
            if type(obj_a) is not type(obj_b):
                return 'slice is not a %s' % type(obj_b).__name__
            want = b.it[op[1]:op[2]]
            if not same_events(kind, a.it, want):
                return 'slice does not contain the sliced events'
            if (a.x1, a.x2) != (b.x1, b.x2):
                return 'slice changed the resolution'
            if a.n:
                # every element keeps the step it had in the source
                off = a.start - b.start
                if off < 0 or off + a.n > b.n or not same_events(kind, a.it, b.it[off:off + a.n]):
                    return 'slice does not carry the step offset of the elements it contains'
            elif not b.start <= a.start <= b.end:
                return 'empty slice placed outside the step range of its source'
        elif t == 'sk':
            # extended slice: a consistent sequence of the same class holding exactly the selected events, same
            # resolution; no step-offset demand (a stride has no step-range meaning, see the module docstring)
            if type(obj_a) is not type(obj_b):
                return 'strided slice is not a %s' % type(obj_b).__name__
            if not same_events(kind, a.it, b.it[op[1]:op[2]:op[3]]):
                return 'strided slice does not contain the selected events'
            if (a.x1, a.x2) != (b.x1, b.x2):
                return 'strided slice changed the resolution'
        elif t == 'ir':
            k = op[1]
            if (a.n, a.start, a.end, a.x1, a.x2) != (b.n * k, b.start * k, b.end * k, b.x1 * k, b.x2 * k):
                return 'increase_resolution(%d) did not scale length, step range and resolution together' % k
            if a.it[::k] != b.it:
                return 'increase_resolution moved or changed the original events'
        elif t == 'dc':
            if obj_a is obj_b or type(obj_a) is not type(obj_b):
                return 'deepcopy returned the same object or another type'
            if not same_events(kind, a.it, b.it) or (a.n, a.start, a.end, a.x1, a.x2) != (b.n, b.start, b.end, b.x1, b.x2):
                return 'deepcopy differs from the original'
        elif t in ('ri', 'fq'):
            want = [ev_py(kind, e) for e in op[4]]
            if not same_events(kind, a.it, want) or (a.start, a.x1, a.x2) != (op[1], op[2], op[3]):
                return 're-initialisation did not install the given events / start / resolution'
        elif t == 'in':
            pass      # state invariants only
        elif t == 'rs':
            if a.n != 0 or a.start != 0:
                return 'reset did not empty the sequence'
        return None
    if kind == 'roll':
        if t == 'a':
            if a.n != b.n + 1 or a.it[:-1] != b.it or a.start != b.start:
                return 'append did not add exactly one event at the end'
            if not op[1] and a.it[-1] != tuple(op[2]):
                return 'appended event differs'
        elif t == 'sl':
            n = op[1]
            k = min(n, b.n)
            if a.n != n or a.x1 != n or a.start != b.start or a.it[:k] != b.it[:k] or any(e != () for e in a.it[k:]):
                return 'set_length(%d) did not yield exactly %d steps keeping the left side' % (n, n)
        elif t == 'dc':
            if obj_a is obj_b or a.text != b.text:
                return 'deepcopy differs from the original'
        return None
    if kind == 'nperf':
        if t == 'a':
            if a.n != b.n + 1 or a.it[:-1] != b.it or a.it[-1] != ev_py('nperf', op[1]) or a.start != b.start:
                return 'append did not add exactly the event at the end'
        elif t == 'sl':
            # NotePerformance.set_length is a documented no-op ("not actually implemented"): NotePerformance is not in
            # the property's class list; what is checked is that it really leaves the object alone
            if a.text != b.text:
                return 'NotePerformance.set_length changed the object'
        elif t == 'tr':
            if a.start != b.start or a.it != b.it[:a.n] or (op[1] >= 0 and a.n != min(op[1], b.n)):
                return 'truncate did not keep exactly the first events'
        elif t == 'dc':
            if obj_a is obj_b or type(obj_a) is not type(obj_b) or a.text != b.text:
                return 'deepcopy differs from the original'
        return None
    if kind == 'perf':
        if a.chords != b.chords:
            return 'steps_per_quarter / steps_per_second changed'
        mx = b.x2
        okb = all(1 <= v <= mx for v in shift_vals(b.it))
        oka = all(1 <= v <= mx for v in shift_vals(a.it))
        if t == 'a':
            if a.n != b.n + 1 or a.it[:-1] != b.it or (a.it[-1].event_type, a.it[-1].event_value) != (op[1], op[2]):
                return 'append did not add exactly the event at the end'
        elif t in ('sl', 'as', 'ts'):
            if t == 'sl':
                want = op[1]
            elif t == 'as':
                want = b.x1 + op[1]
            else:
                want = max(b.x1 - op[1], 0)
            if a.x1 != want:
                return '%s: num_steps is %d, must be exactly %d' % (t, a.x1, want)
            if a.start != b.start:
                return 'start_step changed'
            if okb and not oka:
                return 'a time shift left 1..max_shift_steps'
            if t == 'sl' and want == b.x1:
                if a.it != b.it:
                    return 'set_length to the current length changed the events'
            elif t == 'as' or (t == 'sl' and want > b.x1):
                # growing keeps every event; only a final time shift may have been lengthened
                if a.it[:max(b.n - 1, 0)] != b.it[:max(b.n - 1, 0)] or a.n < b.n:
                    return 'events of the retained side changed'
                if b.n and a.it[b.n - 1] != b.it[b.n - 1] and not (
                        b.it[-1].event_type == 3 and a.it[b.n - 1].event_type == 3
                        and a.it[b.n - 1].event_value > b.it[-1].event_value):
                    return 'last retained event changed into something other than a longer time shift'
                if any(e.event_type != 3 for e in a.it[b.n:]):
                    return 'padding added events other than time shifts'
            else:
                # shrinking keeps a prefix; only its final time shift may have been shortened
                if a.n > b.n or a.it[:max(a.n - 1, 0)] != b.it[:max(a.n - 1, 0)]:
                    return 'events of the retained side changed'
                if a.n and a.it[-1] != b.it[a.n - 1] and not (
                        a.it[-1].event_type == 3 and b.it[a.n - 1].event_type == 3
                        and a.it[-1].event_value < b.it[a.n - 1].event_value):
                    return 'last retained event changed into something other than a shorter time shift'
        elif t == 'tr':
            # truncate(n), n >= 0: exactly the first n events; for a negative n only "a prefix is kept" is demanded
            if a.start != b.start or a.it != b.it[:a.n] or (op[1] >= 0 and a.n != min(op[1], b.n)):
                return 'truncate did not keep exactly the first events'
        elif t == 'dc':
            if obj_a is obj_b or type(obj_a) is not type(obj_b) or a.text != b.text:
                return 'deepcopy differs from the original'
        return None
    raise ValueError(kind)


# ----------------------------------------------------------------------------- one step, real side
def snapshot(w, k):
    """(re)observe object k of the heap and remember the attribute values the observation was made from"""
    sn = observe(w.kind, w.objs[k])
    w.snaps[k] = sn
    w.raws[k] = raw_state(w.objs[k])
    return sn


def world_dump(w):
    return 'heap %d %d' % (len(w.objs), w.cur) + ''.join(' # ' + sn.text for sn in w.snaps)


def real_step(w, op, pad, tainted):
    """apply `op` to the heap `w` (mutated).  returns (status token, observation of the current object afterwards,
    oracle failure or None, tainted')."""
    kind = w.kind
    cls, exc = classify(kind, op)
    recv, n_before = w.cur, len(w.objs)
    before = w.snaps[recv]
    err = None
    try:
        world_apply(w, op)
    except Exception as e:  # pylint: disable=broad-except
        err = e
    status = 'ok' if err is None else err_name(err)
    # re-observe the receiver, every new object and every other object whose attributes are no longer what they were
    changed = []
    try:
        for k in range(len(w.objs)):
            if k == recv or k >= n_before:
                snapshot(w, k)
            elif not raw_same(w.objs[k], w.raws[k]):
                old = w.snaps[k].text
                if snapshot(w, k).text != old:
                    changed.append(k)
    except Exception as e:  # pylint: disable=broad-except
        if tainted or cls == 'undefined':
            raise Unobservable(status, e)
        raise OracleHit('observing object %d raised %s: %s' % (k, type(e).__name__, e), status)
    after = w.snaps[w.cur]
    if tainted or cls == 'undefined':
        return status, after, None, True
    fail = None
    recv_after = w.snaps[recv]
    if changed:
        fail = ('object %d changed although the operation was applied to object %d (objects share storage)'
                % (changed[0], recv))
    elif cls == 'reject':
        if err is None or not isinstance(err, exc):
            fail = 'expected %s, got %s' % (exc.__name__, status if err else 'a result')
        elif recv_after.text != before.text or len(w.objs) != n_before:
            fail = 'object changed although the operation raised %s' % status
    elif err is not None:
        fail = 'valid operation raised %s: %s' % (type(err).__name__, err)
    elif op[0] == 'sw':
        fail = state_failures(kind, after)
    elif op[0] in FRESH:
        if len(w.objs) != n_before + 1 or w.cur != n_before:
            fail = 'no new object'
        elif recv_after.text != before.text:
            fail = 'the operation returns a new object but changed its receiver'
        else:
            fail = state_failures(kind, after) or transition_failures(kind, op, before, after, w.objs[recv], w.objs[w.cur], pad)
    else:
        fail = state_failures(kind, after) or transition_failures(kind, op, before, after, w.objs[recv], w.objs[recv], pad)
    return status, after, fail, False


class OracleHit(Exception):
    def __init__(self, what, status):
        Exception.__init__(self, what)
        self.what, self.status = what, status


class Unobservable(Exception):
    def __init__(self, status, e):
        Exception.__init__(self, 'unobservable after undefined op: %r' % e)
        self.status = status


def from_implementation(e):
    """True iff the innermost frame of the exception's traceback is code of the note_seq package (then it
    is the implementation failing on a harness call, i.e. a property failure, not a harness bug)"""
    tb = e.__traceback__
    last = None
    while tb is not None:
        last = tb.tb_frame.f_code.co_filename
        tb = tb.tb_next
    return last is not None and '/note_seq/' in last.replace('\\', '/')


def err_name(e):
    n = type(e).__name__
    return n


def real_init(kind, init):
    """construct; returns (obj or None, status, oracle failure)"""
    if kind == 'lead':
        cls, exc = lead_init_class(init)
    elif kind in SIMPLE and not seq_init_ok(kind, init):
        cls, exc = 'reject', ValueError
    else:
        cls, exc = 'valid', None
    try:
        obj = make(kind, init)
    except Exception as e:  # pylint: disable=broad-except
        if cls == 'reject' and isinstance(e, exc):
            return None, err_name(e), None
        return None, err_name(e), 'constructor raised %s: %s on valid arguments' % (type(e).__name__, e)
    if cls == 'reject':
        return obj, 'ok', 'constructor accepted arguments it must reject with %s' % exc.__name__
    return obj, 'ok', None


def run_history(kind, init, ops):
    """real side of one history.  returns (expected trace-mode response, first oracle failure or None,
    number of ops whose observation is in the response, number of ops a replay needs, complete?)"""
    obj, status, fail = real_init(kind, init)
    if obj is None:
        return 'init ' + status, fail, 0, 0, True
    pad = init.get('pad') if kind == 'simple' else None
    pad = pad_of(kind, pad) if kind in SIMPLE else None
    w = World(kind, [obj])
    try:
        sn = snapshot(w, 0)
    except Exception as e:  # pylint: disable=broad-except
        return 'init ok', 'observing the fresh object raised %s: %s' % (type(e).__name__, e), 0, 0, False
    fail = fail or state_failures(kind, sn)
    parts = ['init ok ' + sn.text]
    tainted = False
    for k, op in enumerate(ops):
        try:
            status, sn, f, tainted = real_step(w, op, pad, tainted)
        except OracleHit as h:
            return ' ; '.join(parts), fail or ('op %d %s: %s' % (k, json.dumps(op), h.what)), k, k + 1, False
        except Unobservable:
            return ' ; '.join(parts), fail, k, k + 1, False
        if f and not fail:
            fail = 'op %d %s: %s' % (k, json.dumps(op), f)
        parts.append(status + ' ' + sn.text)
    parts.append(world_dump(w))
    return ' ; '.join(parts), fail, len(ops), len(ops), True


def history_line(mode, kind, init, ops):
    return ' ; '.join(['%s %s' % (mode, wire_init(kind, init))] + [wire_op(kind, op) for op in ops])


# ----------------------------------------------------------------------------- alphabets
def seq_init(events, start=0, spb=16, spq=4, pad=None):
    d = {'events': events, 'start': start, 'spb': spb, 'spq': spq}
    if pad is not None:
        d['pad'] = pad
    return d


def lead_init(mev, cev, start=0, spb=16, spq=4):
    return {'melody': seq_init(mev, start, spb, spq), 'chords': seq_init(cev, start, spb, spq)}


SLICES = [['sc', 1, None], ['sc', -2, None], ['sc', None, -1], ['sc', 1, 3], ['sc', 7, None]]
SW0 = [['sw', 0]]        # back to the first object of the history


def exhaustive_plan(kind):
    """(initial objects, operation alphabet) enumerated exhaustively to the tier's depth"""
    if kind == 'simple':
        return ([seq_init([1, 2, 3], 4, pad=0)],
                [['a', 5], ['sl', 0, 0], ['sl', 2, 0], ['sl', 4, 0], ['sl', 0, 1], ['sl', 2, 1], ['sl', 5, 1]]
                + SLICES + [['ir', 2, None], ['ir', 1, 9], ['dc'], ['ri', 2, 12, 3, [7, 8]], ['rs'], ['sk', None, None, -2]] + SW0)
    if kind == 'melody':
        return ([seq_init([NOTE_OFF, 60, NO_EVENT], 4)],
                [['a', 62], ['a', NOTE_OFF], ['a', NO_EVENT], ['a', 128], ['sl', 0, 0], ['sl', 2, 0], ['sl', 5, 0],
                 ['sl', 0, 1], ['sl', 2, 1], ['sl', 4, 1], ['sc', 1, None], ['sc', -2, None], ['sc', None, -1],
                 ['ir', 2, None], ['dc'], ['ri', 2, 12, 3, [NOTE_OFF, 64]], ['sk', -1, None, -1]] + SW0)
    if kind == 'drum':
        return ([seq_init([['f', [36]], ['f', []], ['f', [38, 42]]], 4)],
                [['a', ['f', [36, 42]]], ['a', ['f', [128]]], ['a', ['x', [36]]], ['sl', 0, 0], ['sl', 2, 0], ['sl', 4, 0],
                 ['sl', 0, 1], ['sl', 5, 1], ['sc', 1, None], ['sc', -2, None], ['sc', None, -1], ['sc', 7, None],
                 ['ir', 2, None], ['dc']] + SW0)
    if kind == 'chord':
        return ([seq_init(['C', 'Am', 'N.C.'], 4)],
                [['a', 'G7'], ['sl', 0, 0], ['sl', 2, 0], ['sl', 4, 0], ['sl', 0, 1], ['sl', 2, 1], ['sl', 5, 1]]
                + SLICES + [['ir', 2, None], ['ir', 2, 'X'], ['dc']] + SW0)
    if kind == 'lead':
        return ([lead_init([60, NO_EVENT, NOTE_OFF], ['C', 'C', 'Am'], 4)],
                [['a', [62, 'G']], ['a', [NOTE_OFF, 'N.C.']], ['a', [200, 'C']], ['sl', 0], ['sl', 2], ['sl', 5],
                 ['sc', 1, None], ['sc', -2, None], ['sc', None, -1], ['sc', 7, None], ['ir', 2], ['dc'], ['rs'],
                 ['in', {'melody': seq_init([NOTE_OFF, 67], 2), 'chords': seq_init(['F', 'G'], 3)}],
                 ['sk', None, None, 2], ['sh', 0, 1], ['mo', ['a', 64]]] + SW0)
    if kind == 'roll':
        return ([{'start': 4, 'spq': 4, 'min_pitch': 21, 'max_pitch': 108, 'shift_range': False, 'events': [[0, 4], []]}],
                [['a', 0, [3]], ['a', 1, [20, 60, 109]], ['a', 0, []], ['sl', 0, 0], ['sl', 1, 0], ['sl', 2, 0], ['sl', 3, 0],
                 ['sl', 5, 0], ['sl', 2, 1], ['dc']] + SW0)
    if kind == 'perf':
        # Performance (steps_per_second) and MetricPerformance (steps_per_quarter=3, max_shift_quarters=1)
        return ([{'start': 7, 'max_shift': 3}, {'start': 7, 'max_shift': 3, 'metric': [3, 1]}],
                [['a', 1, 60], ['a', 3, 1], ['a', 3, 3], ['a', 3, -1], ['a', 3, 0], ['ab'], ['sl', 0, 0], ['sl', 2, 0], ['sl', 3, 0],
                 ['sl', 4, 0], ['sl', 7, 0], ['as', 1], ['as', 5], ['ts', 1], ['ts', 4], ['tr', 1], ['tr', -1], ['dc']] + SW0)
    if kind == 'nperf':
        return ([{'start': 3, 'max_shift': 10}],
                [['a', [2, 60, 5, 4]], ['a', [0, 62, 1, 1]], ['ab'], ['sl', 0, 0], ['sl', 3, 0], ['sl', 1, 1], ['tr', 1], ['tr', 0],
                 ['tr', -1], ['dc']] + SW0)
    raise ValueError(kind)


# ----------------------------------------------------------------------------- random histories
def rand_event(kind, rng):
    if kind == 'simple':
        return rng.randrange(1, 9)
    if kind == 'melody':
        return rng.choice([NO_EVENT, NO_EVENT, NOTE_OFF, 0, 60, 62, 127, rng.randrange(0, 128)])
    if kind == 'drum':
        return ['f', sorted(rng.sample([0, 36, 38, 42, 46, 127], rng.randrange(0, 4)))]
    if kind == 'chord':
        return rng.choice(['C', 'Am', 'G7', 'N.C.', 'F#m7b5', 'Bb'])
    raise ValueError(kind)


def bad_event(kind, rng):
    if kind == 'melody':
        return rng.choice([-3, 128, 200, -100])
    if kind == 'drum':
        return rng.choice([['f', [128]], ['f', [-1, 36]], ['x', [36]], ['x', []]])
    return None


def rand_bound(rng, n):
    k = rng.random()
    if k < 0.15:
        return None
    if k < 0.55:
        return rng.randrange(0, n + 1)
    if k < 0.8:
        return -rng.randrange(1, n + 2)
    return rng.choice([n, -n, n + 1, -n - 1, n + 5, -n - 5, 0])


def rand_len(rng, n, cap=40):
    k = rng.random()
    if k < 0.12:
        return 0
    if k < 0.24:
        return n
    if k < 0.5:
        return max(0, n + rng.choice([-2, -1, 1, 2]))
    if n > cap:
        return rng.randrange(0, cap // 2)
    return rng.randrange(0, n + 8)


def rand_seq_init(kind, rng):
    evs = None if rng.random() < 0.2 else [rand_event(kind, rng) for _ in range(rng.randrange(0, 7))]
    spq = rng.choice([1, 4, 4, 12])
    return seq_init(evs, rng.choice([0, 0, 4, 16, 7]), spq * rng.choice([3, 4]), spq, pad=0 if kind == 'simple' else None)


STRIDES = [-1, -1, -2, -3, 2, 2, 3, 1, 5, -7]


def rand_op(kind, rng, n, x1=0, mx=0, heap=1, alias=False):
    """one mostly valid operation given the current length `n` and the number of objects `heap` (rejections
    included, undefined ones not)"""
    if heap > 1 and rng.random() < 0.08:
        return ['sw', rng.randrange(heap)]
    if kind in SIMPLE + ('lead',) and rng.random() < 0.05:
        return ['sk', rand_bound(rng, n), rand_bound(rng, n), 0 if rng.random() < 0.05 else rng.choice(STRIDES)]
    if kind == 'lead' and alias and rng.random() < 0.12:
        r = rng.random()
        if r < 0.3:
            a = rng.randrange(heap)
            return ['sh', a, a if rng.random() < 0.7 else rng.randrange(heap)]
        sub = 'melody' if r < 0.65 else 'chord'
        while True:
            op = rand_op(sub, rng, n)
            if op[0] in ('a', 'sl', 'ir', 'ri', 'rs'):
                return ['mo' if sub == 'melody' else 'co', op]
    k = rng.random()
    if kind == 'nperf':
        if k < 0.5:
            return ['a', [rng.choice([0, 1, mx, rng.randrange(0, mx + 1)]), rng.randrange(0, 128), rng.randrange(1, 33),
                          rng.randrange(1, 20)]]
        if k < 0.54:
            return ['ab']
        if k < 0.66:
            return ['sl', rand_len(rng, x1), 1 if rng.random() < 0.2 else 0]
        if k < 0.88:
            return ['tr', rng.choice([n, 0, n - 1, -1, n + 3, rng.randrange(-n - 1, n + 2)])]
        return ['dc']
    if kind in SIMPLE:
        if k < 0.30:
            return ['a', rand_event(kind, rng)]
        if k < 0.34 and kind in ('melody', 'drum'):
            return ['a', bad_event(kind, rng)]
        if k < 0.56:
            return ['sl', rand_len(rng, n), 1 if rng.random() < 0.5 else 0]
        if k < 0.76:
            return ['sc', rand_bound(rng, n), rand_bound(rng, n)]
        if k < 0.80 and n <= 24:
            f = None
            if kind in ('simple', 'chord') and rng.random() < 0.4:
                f = rand_event(kind, rng)
            return ['ir', rng.choice([1, 2, 2, 3]), f]
        if k < 0.92:
            return ['dc']
        if k < 0.97:
            if kind in ('melody', 'drum', 'chord') and rng.random() < 0.6:
                fq = rand_fq(kind, rng)
                if fq is not None:
                    return fq
            spq = rng.choice([1, 4, 12])
            evs = [rand_event(kind, rng) for _ in range(rng.randrange(0, 6))]
            if kind in ('melody', 'drum') and rng.random() < 0.2:
                evs.insert(rng.randrange(0, len(evs) + 1), bad_event(kind, rng))
            return ['ri', rng.choice([0, 4, 16]), spq * 4, spq, evs]
        if k < 0.985:
            return ['rs']
        return ['dc']
    if kind == 'lead':
        if k < 0.30:
            return ['a', [rand_event('melody', rng), rand_event('chord', rng)]]
        if k < 0.34:
            return ['a', [bad_event('melody', rng), 'C']]
        if k < 0.52:
            return ['sl', rand_len(rng, n)]
        if k < 0.75:
            return ['sc', rand_bound(rng, n), rand_bound(rng, n)]
        if k < 0.79 and n <= 24:
            return ['ir', rng.choice([1, 2, 3])]
        if k < 0.90:
            return ['dc']
        if k < 0.97:
            m = rng.randrange(0, 6)
            init = lead_init([rand_event('melody', rng) for _ in range(m)], [rand_event('chord', rng) for _ in range(m)],
                             rng.choice([0, 4]))
            r = rng.random()
            if r < 0.15:
                init['chords']['events'].append('C')
            elif r < 0.25:
                init['chords']['start'] += 1
            elif r < 0.32:
                init['chords']['spq'] += 1
            elif r < 0.38 and m:
                init['melody']['events'][0] = 300
            return ['in', init]
        return ['rs']
    if kind == 'roll':
        if k < 0.4:
            return ['a', 1 if rng.random() < 0.3 else 0, sorted(rng.sample(range(0, 128), rng.randrange(0, 4)))]
        if k < 0.85:
            return ['sl', rand_len(rng, n), 1 if rng.random() < 0.1 else 0]
        return ['dc']
    if kind == 'perf':
        if k < 0.35:
            ty = rng.choice([1, 2, 3, 3, 3, 4])
            if ty == 3:
                v = rng.choice([1, mx, rng.randrange(1, mx + 1), rng.randrange(1, mx + 1)])
                if rng.random() < 0.03:
                    v = rng.choice([0, mx + 1])      # valid event, but the 1..max bound is then not demanded any more
            elif ty == 4:
                v = rng.randrange(1, 128)
            else:
                v = rng.randrange(0, 128)
            return ['a', ty, v]
        if k < 0.39:
            return rng.choice([['a', 3, -1], ['a', 1, 128], ['a', 4, 0], ['a', 6, 1], ['a', 5, 0], ['ab']])
        if k < 0.62:
            r = rng.random()
            if r < 0.15:
                tgt = 0
            elif r < 0.3:
                tgt = x1
            elif r < 0.6:
                tgt = max(0, x1 + rng.choice([-1, 1, -mx, mx, mx - 1, mx + 1, -mx - 1]))
            else:
                tgt = rng.randrange(0, min(x1, 60) + 3 * mx + 2)
            return ['sl', tgt, 1 if rng.random() < 0.05 else 0]
        if k < 0.72:
            return ['as', rng.choice([0, 1, mx - 1, mx, mx + 1, 2 * mx, rng.randrange(0, 3 * mx + 2)])]
        if k < 0.82:
            return ['ts', rng.choice([0, 1, mx, x1, x1 + 1, max(x1 - 1, 0), rng.randrange(0, x1 + 2)])]
        if k < 0.92:
            return ['tr', rng.choice([n, 0, n - 1, -1, n + 3, rng.randrange(-n - 1, n + 2)])]
        return ['dc']
    raise ValueError(kind)


def rand_init(kind, rng):
    if kind in SIMPLE:
        return rand_seq_init(kind, rng)
    if kind == 'lead':
        if rng.random() < 0.15:
            return None
        m = rng.randrange(0, 6)
        return lead_init([rand_event('melody', rng) for _ in range(m)], [rand_event('chord', rng) for _ in range(m)],
                         rng.choice([0, 4, 16]), 16, 4)
    if kind == 'roll':
        lo = rng.choice([0, 21, 60])
        return {'start': rng.choice([0, 4, 16]), 'spq': 4, 'min_pitch': lo, 'max_pitch': rng.choice([lo, 108, 127]),
                'shift_range': rng.random() < 0.5,
                'events': [sorted(rng.sample(range(0, 128), rng.randrange(0, 4))) for _ in range(rng.randrange(0, 5))]}
    if kind == 'perf':
        if rng.random() < 0.4:
            q, mq = rng.choice([(1, 1), (2, 2), (4, 4), (3, 1), (1, 3), (24, 4)])
            return {'start': rng.choice([0, 7]), 'max_shift': q * mq, 'metric': [q, mq]}
        return {'start': rng.choice([0, 7, 100]), 'max_shift': rng.choice([1, 2, 3, 10, 100])}
    if kind == 'nperf':
        return {'start': rng.choice([0, 3, 100]), 'max_shift': rng.choice([1, 3, 10, 1000])}
    raise ValueError(kind)


UNDEFINED_OPS = {
    'simple': [['sl', -1, 0], ['sl', -2, 1], ['ir', 0, None], ['ir', -1, None], ['ir', 0, 5], ['ir', -2, 5]],
    'melody': [['sl', -1, 0], ['sl', -3, 1], ['ir', 0, None], ['ir', -1, None]],
    'drum': [['sl', -1, 0], ['sl', -1, 1], ['ir', 0, None]],
    'chord': [['sl', -2, 0], ['sl', -1, 1], ['ir', 0, None], ['ir', -1, 'C']],
    'lead': [['sl', -1], ['ir', 0], ['ir', -1]],
    'roll': [['sl', -1, 0], ['sl', -3, 0]],
    'perf': [['sl', -1, 0], ['as', -1], ['as', -5], ['ts', -1]],
    'nperf': [['sl', -1, 0], ['tr', -5], ['sl', -3, 1]],
}


def random_history(kind, rng, length, malformed=False):
    """generate ops adaptively while executing them on real objects (the generator looks at the current length
    and the number of objects only); returns (init, ops)"""
    init = rand_init(kind, rng)
    try:
        w = World(kind, [make(kind, init)])
    except Exception:  # pylint: disable=broad-except
        return init, []
    ops = []
    alias = kind == 'lead' and rng.random() < 0.3
    for _ in range(length):
        try:
            obj = w.objs[w.cur]
            n = len(obj)
            x1 = obj.num_steps if kind in ('perf', 'nperf') else 0
        except Exception:  # pylint: disable=broad-except
            break
        mx = init['max_shift'] if kind in ('perf', 'nperf') else 0
        if malformed and rng.random() < 0.25:
            op = rng.choice(UNDEFINED_OPS[kind])
        else:
            op = rand_op(kind, rng, n, x1, mx, heap=len(w.objs), alias=alias)
        ops.append(op)
        try:
            world_apply(w, op)
        except Exception:  # pylint: disable=broad-except
            pass
    return init, ops


# ----------------------------------------------------------------------------- streams
def note_branches(kind, op, status, before, after):
    """histogram keys: which branch of the code an operation exercised"""
    t = op[0]
    h = ['%s:%s' % (kind, t) + ('' if status == 'ok' else ':' + status)]
    if t == 'sk' and status == 'ok':
        h.append('%s:sk:%s%s' % (kind, 'neg' if op[3] < 0 else 'pos' if op[3] > 1 else 'unit', ':empty' if after.n == 0 else ''))
        return h
    if t in ('sw', 'sh', 'mo', 'co') or kind == 'nperf':
        return h
    if t == 'sl' and status == 'ok':
        n = op[1]
        left = kind not in ('lead',) and len(op) > 2 and op[2]
        size = before.x1 if kind == 'perf' else before.n
        rel = 'neg' if n < 0 else 'zero' if n == 0 else 'same' if n == size else 'grow' if n > size else 'shrink'
        h.append('%s:sl:%s:%s' % (kind, 'left' if left else 'right', rel))
        if kind in ('melody', 'lead') and rel == 'grow' and not left and len(after.it) > before.n:
            h.append('%s:sl:grow:%s' % (kind, 'note-sounding' if after.it[before.n] in (NOTE_OFF, (NOTE_OFF, 'N.C.')) else 'silent'))
    if t == 'sc' and status == 'ok':
        i = op[1]
        h.append('%s:sc:start:%s' % (kind, 'none' if i is None else 'neg-clamped' if i < -before.n else 'neg' if i < 0
                                     else 'past-end' if i > before.n else 'at-end' if i == before.n else 'inside'))
        if after.n == 0:
            h.append('%s:sc:empty' % kind)
    if t == 'dc' and kind == 'melody' and after.it != before.it:
        h.append('melody:dc:cleaned-leading-note-off')
    return h


def exhaustive(chk, kind, depth):
    """every history of length <= depth over the class's alphabet, lock-step + oracle at every node; the
    complete heap (every object created so far) is compared at every node"""
    inits, alphabet = exhaustive_plan(kind)
    stream = chk.stream('exhaustive:' + kind)
    hist = stream['hist']
    wires = [wire_op(kind, op) for op in alphabet]
    total = 0
    for init in inits:
        root, status, fail = real_init(kind, init)
        if fail:
            chk.fail('%s constructor: %s' % (kind, fail), {'class': kind, 'init': init, 'ops': []})
            continue
        pad = pad_of(kind, init.get('pad')) if kind in SIMPLE else None
        head = 'F ' + wire_init(kind, init)
        w0 = World(kind, [root])
        try:
            sn0 = snapshot(w0, 0)
        except Exception as e:  # pylint: disable=broad-except
            if not from_implementation(e):
                raise
            chk.fail('%s: observing the fresh object raised %s: %s' % (kind, type(e).__name__, e),
                     {'class': kind, 'init': init, 'ops': []})
            continue
        f0 = state_failures(kind, sn0)
        if f0:
            chk.fail('%s after construction: %s' % (kind, f0), {'class': kind, 'init': init, 'ops': []})
        lines, expect, paths = [head], ['init ok ' + sn0.text + ' ; ' + world_dump(w0)], [()]

        def flush():
            model = chk.driver(EXE, lines)
            for ln, a, b, p in zip(lines, expect, model, paths):
                if a != b:
                    chk.disagree('exhaustive:' + kind, {'class': kind, 'init': init, 'ops': [alphabet[i] for i in p], 'request': ln},
                                 a[-900:], b[-900:])
            del lines[:], expect[:], paths[:]

        def rec(w, wire_prefix, status_prefix, path, d, tainted):
            nonlocal total
            here = world_dump(w)
            for ai, op in enumerate(alphabet):
                w2 = clone_world(w)
                try:
                    st, after, fail, t2 = real_step(w2, op, pad, tainted)
                except OracleHit as h:
                    chk.fail('%s: %s' % (kind, h.what), {'class': kind, 'init': init, 'ops': [alphabet[i] for i in path + (ai,)]})
                    continue
                except Unobservable:
                    hist['unobservable-after-undefined-op'] = hist.get('unobservable-after-undefined-op', 0) + 1
                    continue
                total += 1
                stream['evaluations'] += 1
                if not tainted:
                    stream['nontrivial'].add(hash((here, ai)))
                for hk in note_branches(kind, op, st, w.snaps[w.cur], after):
                    hist[hk] = hist.get(hk, 0) + 1
                if len(w2.objs) > 1:
                    hk = 'heap-size:%d' % len(w2.objs)
                    hist[hk] = hist.get(hk, 0) + 1
                wl_ = wire_prefix + ' ; ' + wires[ai]
                sp = status_prefix + ' ; ' + st
                p2 = path + (ai,)
                lines.append(wl_)
                expect.append(sp + ' ' + after.text + ' ; ' + world_dump(w2))
                paths.append(p2)
                if fail and len(chk.failures) < 40:
                    chk.fail('%s: op %d %s: %s' % (kind, len(path), json.dumps(op), fail),
                             {'class': kind, 'init': init, 'ops': [alphabet[i] for i in p2]})
                if d + 1 < depth:
                    rec(w2, wl_, sp, p2, d + 1, t2)
                if len(lines) >= 60000 and d == 0:
                    flush()
            if d == 0:
                flush()

        rec(w0, head, 'init ok', (), 0, False)
    return total, len(alphabet)


def lockstep_cases(chk, stream, cases):
    """cases: list of (kind, init, ops, label).  trace-mode lock-step comparison + oracle."""
    lines, expect, keep = [], [], []
    shrunk = [0, 0]
    for (kind, init, ops, label) in cases:
        try:
            exp, fail, done, need, complete = run_history(kind, init, ops)
        except Exception as e:  # pylint: disable=broad-except
            if not from_implementation(e):
                raise
            chk.fail('%s: the implementation raised %s: %s while the history was run' % (kind, type(e).__name__, e),
                     {'class': kind, 'init': init, 'ops': ops})
            continue
        ops_run = ops[:done]
        if fail:
            bad = ops[:need]
            if len(bad) > 6 and shrunk[0] < 3:
                shrunk[0] += 1
                bad = ddmin(bad, lambda o: oracle_fails(kind, init, o))
                fail = run_history(kind, init, bad)[1] or fail
            chk.fail('%s: %s' % (kind, fail), {'class': kind, 'init': init, 'ops': bad, 'label': label})
        lines.append(history_line('T', kind, init, ops_run))
        expect.append(exp)
        keep.append((kind, init, ops_run, label, complete))
    model = chk.driver(EXE, lines)
    for (kind, init, ops, label, complete), a, b in zip(keep, expect, model):
        pa, pb = a.split(' ; '), b.split(' ; ')
        if not complete:
            # the real history stopped at an object that cannot be observed any more: compare what there is
            pb = pb[:len(pa)]
            b = ' ; '.join(pb)
        hist = []
        for op, part in zip(ops, pa[1:]):
            st = part.split(' ', 1)[0]
            hist.append('%s:%s' % (kind, op[0]) + ('' if st == 'ok' else ':' + st))
        if complete and pa[-1].startswith('heap '):
            hist.append('heap-objects:%s' % ('1' if pa[-1].split(' ')[1] == '1' else '2-4' if int(pa[-1].split(' ')[1]) <= 4 else '5+'))
            if any(op[0] == 'sw' for op in ops):
                hist.append('%s:continued-on-an-earlier-object' % kind)
        chk.count(stream, (kind, json.dumps(init), json.dumps(ops)), nontrivial=len(pa) > 1, hist=sorted(set(hist)))
        chk.stream(stream)['evaluations'] += max(len(ops) - 1, 0)
        if a != b:
            k = next((i for i, (x, y) in enumerate(zip(pa, pb)) if x != y), min(len(pa), len(pb)))
            bad = ops[:k]
            if len(bad) > 6 and shrunk[1] < 3:
                shrunk[1] += 1
                bad = ddmin(bad, lambda o: differs(chk, kind, init, o))
            chk.disagree(stream, {'class': kind, 'init': init, 'ops': bad, 'label': label,
                                  'first_difference_after_op_of_unshrunk_history': k - 1},
                         pa[k] if k < len(pa) else '(end)', pb[k] if k < len(pb) else '(end)')


def ddmin(ops, still_bad, budget=400):
    """delta debugging on the operation list: smallest sub-history (found within `budget` trials) on which
    `still_bad(ops)` holds"""
    n = 2
    while len(ops) >= 2 and budget > 0:
        chunk = max(len(ops) // n, 1)
        reduced = False
        for i in range(0, len(ops), chunk):
            cand = ops[:i] + ops[i + chunk:]
            budget -= 1
            if cand and still_bad(cand):
                ops, n, reduced = cand, max(n - 1, 2), True
                break
            if budget <= 0:
                break
        if not reduced:
            if chunk == 1:
                break
            n = min(n * 2, len(ops))
    return ops


def oracle_fails(kind, init, ops):
    try:
        return run_history(kind, init, ops)[1] is not None
    except Exception as e:  # pylint: disable=broad-except
        return from_implementation(e)


def differs(chk, kind, init, ops):
    try:
        exp, _, done, _, complete = run_history(kind, init, ops)
    except Exception:  # pylint: disable=broad-except
        return False
    got = chk.driver(EXE, [history_line('T', kind, init, ops[:done])])[0]
    if not complete:
        got = ' ; '.join(got.split(' ; ')[:len(exp.split(' ; '))])
    return got != exp


KNOWN_HISTORIES = {
    'F-C17-1': ('simple', seq_init([1, 2, 3], 4, pad=0), [['sl', 0, 1], ['a', 5]]),
    'F-C17-2': ('simple', seq_init([1, 2, 3, 4], 4, pad=0), [['sc', -2, None]]),
    'F-C17-3': ('lead', lead_init([60, NO_EVENT], ['C', 'Am'], 0), [['a', [62, 'G']]]),
    'F-C17-4': ('lead', lead_init([60, NO_EVENT], ['C', 'Am'], 0), [['sc', 0, 1]]),
}


def run(chk):
    generate(chk)
    chk.prove(MODULES, THEOREMS, [EXE], extra_trusted=[
        'CPython list semantics (slicing, del, negative indices, list * int) as transcribed in pySlice/pyDelSlice/pyIndex/pyRepeat',
        'copy.deepcopy of PianorollSequence/Performance objects (default deepcopy) copies the attributes',
        'Python object identity: objects created by different constructor calls share no mutable storage unless the '
        'code stores a reference it was given (LeadSheet stores its melody/chords arguments) — as in Heap/LStore',
        'attrs frozen PerformanceEvent validator as transcribed in mkEvent'])
    depth = 5 if chk.thorough else 3
    chk.rule = ('lock-step histories over a HEAP of objects (deepcopy / slices create objects, "sw k" continues on object k, lead '
                'sheets additionally share / mutate their melody and chords objects): after every operation the full observation '
                '(len, start_step, end_step, resolution or num_steps, list(iter), obj[i] for all i in -len-1..len, steps) of the '
                'current object and the exception status, and at the end of every history (exhaustive stream: at every node) the '
                'observation of EVERY object of the heap, are compared exactly between the real objects and the Lean model. '
                'exhaustive: ALL histories of length <= %d over the per-class alphabets of exhaustive_plan() (Performance and '
                'MetricPerformance both); random: histories of length 200 from a structure-aware generator; malformed: histories '
                'with negative lengths / factors < 1 / invalid events; corpus: formerly failing cases. slices: unit stride and '
                'extended s[i:j:k]. non-trivial = distinct (heap state, operation) pair' % depth)
    # ---- corpus + known findings (formerly failing inputs) first
    cases = []
    for name, obj in corpus_cases(PID):
        cases.append((obj['class'], obj['init'], obj['ops'], name))
    for e in chk.known:
        if e['id'] in KNOWN_HISTORIES:
            k, i, o = KNOWN_HISTORIES[e['id']]
            cases.append((k, i, o, e['id']))
    lockstep_cases(chk, 'corpus', cases)
    # ---- exhaustive small scope
    sizes = {}
    for kind in KINDS:
        total, a = exhaustive(chk, kind, depth)
        sizes[kind] = {'alphabet': a, 'depth': depth, 'histories': total}
    chk.notes['exhaustive'] = sizes
    chk.notes['alphabets'] = {k: [wire_op(k, op) for op in exhaustive_plan(k)[1]] for k in KINDS}
    # ---- long random histories
    rng = chk.subrng('random')
    cases = []
    for kind in KINDS:
        for i in range(chk.n(40, 150)):
            init, ops = random_history(kind, rng, 200)
            cases.append((kind, init, ops, 'random'))
    lockstep_cases(chk, 'random-200', cases)
    # ---- malformed stream
    rng = chk.subrng('malformed')
    cases = []
    for kind in KINDS:
        for i in range(chk.n(150, 1500)):
            init, ops = random_history(kind, rng, rng.randrange(1, 12), malformed=True)
            cases.append((kind, init, ops, 'malformed'))
    lockstep_cases(chk, 'malformed', cases)
    for c in cases[:2]:
        chk.sample({'class': c[0], 'init': c[1], 'ops': c[2][:6]})
    exp = run_history(*KNOWN_HISTORIES['F-C17-2'])[0]
    chk.sample({'history': history_line('T', *KNOWN_HISTORIES['F-C17-2']), 'real_and_model': exp})
    chk.exhaustive = chk.thorough      # the property text asks for all histories of length <= 5


def replay(chk, obj):
    kind, init, ops = obj['class'], obj['init'], obj['ops']
    print('replay C17: class=%s init=%s' % (kind, json.dumps(init)))
    try:
        exp, fail, done, _, _ = run_history(kind, init, ops)
    except Exception as e:  # pylint: disable=broad-except
        if not from_implementation(e):
            raise
        print('PROPERTY FAILS: the implementation raised %s: %s' % (type(e).__name__, e))
        return 1
    parts = exp.split(' ; ')
    print('  constructed:', parts[0])
    for op, p in zip(ops, parts[1:]):
        print('  %-28s -> %s' % (json.dumps(op), p))
    if parts[-1].startswith('heap '):
        for k, o in enumerate(parts[-1].split(' # ')[1:]):
            print('  object %d at the end: %s' % (k, o))
    print('PROPERTY FAILS: %s' % fail if fail else 'property holds on this history')
    return 1 if fail else 0
