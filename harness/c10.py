"""C10 — transposition shifts every pitch, key and chord by the same interval (DESIGN 6.10)."""
import ast

from gen.translit import FnTranslator, Untranslatable, PRELUDE
from harness.common import lean_int, lean_list, lean_str

PID = 'C10'
MODULES = ['NoteSeqVerif.Props.C10']
EXE = 'drv_c10'
THEOREMS = []

STEPS = 'ABCDEFG'


# ----------------------------------------------------------------------------- generated file
class _Tr(FnTranslator):
    """gen/translit.py plus `min`/`max`/`abs` of integers and `if/else` followed by more statements
    (the tail is copied into both branches)."""

    def expr(self, e, local):
        if isinstance(e, ast.Call) and isinstance(e.func, ast.Name) and not e.keywords:
            if e.func.id in ('min', 'max') and len(e.args) == 2:
                return '(%s %s %s)' % (e.func.id, self.expr(e.args[0], local), self.expr(e.args[1], local))
            if e.func.id == 'abs' and len(e.args) == 1:
                return '((Int.natAbs %s : Nat) : Int)' % self.expr(e.args[0], local)
        return super().expr(e, local)

    def block(self, stmts, local, indent):
        if stmts and isinstance(stmts[0], ast.If) and stmts[0].orelse and stmts[1:]:
            s, rest, pad = stmts[0], stmts[1:], '  ' * indent
            return pad + 'if %s then\n%s\n%selse\n%s' % (
                self.cond(s.test, local), self.block(s.body + rest, local, indent + 1), pad,
                self.block(s.orelse + rest, local, indent + 1))
        return super().block(stmts, local, indent)


def _pairs(items):
    return lean_list('(%s, %s)' % (lean_int(a), lean_int(b)) for a, b in items)


def generate(chk):
    """Generated/C10.lean from the working tree: the pitch-class tables, the chord-kind table, the
    modification-type table, NOTE_KEYS, constants, and `_clamp_transpose` transliterated."""
    from note_seq import chord_symbols_lib as csl, constants, sequences_lib as sl, melodies_lib as ml, chords_lib as cl
    try:
        tr = _Tr(sl._clamp_transpose, 'clampTranspose', sl, {})
        clamp_txt, _ = tr.translate()
        chk.translit['_clamp_transpose'] = 'regenerated from source'
        fn_names = {csl._add_scale_degree: 'add', csl._subtract_scale_degree: 'sub', csl._alter_scale_degree: 'alt'}
        above = [csl._STEPS_ABOVE[s] for s in STEPS]
        midi = [csl._STEPS_MIDI[s] for s in STEPS]
        kinds = [(abbrev, [csl._parse_degree(d) for d in degrees]) for abbrev, degrees in csl._CHORD_KINDS_BY_ABBREV.items()]
        modtypes = [(k, fn_names[f], a) for k, (f, a) in csl._DEGREE_MODIFICATIONS.items()]
        for v in above + midi + [a for _, ds in kinds for d in ds for a in d]:
            if isinstance(v, bool) or not isinstance(v, int):
                raise Untranslatable('non-integer table entry %r' % (v,))
        if ml.NOTES_PER_OCTAVE != cl.NOTES_PER_OCTAVE or ml.MIN_MIDI_PITCH != constants.MIN_MIDI_PITCH:
            raise Untranslatable('melodies_lib / chords_lib constants differ from constants.py')
    except Untranslatable as e:
        chk.translit['C10 tables'] = 'BROKEN: %s' % e
        chk.broken.append('translator:C10 (%s)' % e)
        return
    except (KeyError, TypeError, AttributeError) as e:
        chk.translit['C10 tables'] = 'BROKEN: %s %s' % (type(e).__name__, e)
        chk.broken.append('translator:C10 (%s %s)' % (type(e).__name__, e))
        return

    def fn(name, vals):
        return 'def %s : Step → Int\n' % name + ''.join('  | .%s => %s\n' % (s, lean_int(v)) for s, v in zip(STEPS, vals))
    txt = ('import NoteSeqVerif.Model.C10Base\n'
           '/-! GENERATED from /repo on every run by harness/c10.py — do not edit. -/\n'
           'namespace NSV.C10.Gen\n'
           '/-- `_STEPS_ABOVE` -/\n' + fn('stepsAbove', above)
           + '/-- `_STEPS_MIDI` -/\n' + fn('stepsMidi', midi)
           + '/-- `_DEGREE_OFFSETS` (dict as association list) -/\n'
           + 'def degreeOffsets : List (Int × Int) := %s\n' % _pairs(csl._DEGREE_OFFSETS.items())
           + '/-- `_CHORD_KINDS_BY_ABBREV`, each degree string through `_parse_degree` -/\n'
           + 'def chordKinds : List (String × List (Int × Int)) := [\n'
           + ',\n'.join('  (%s, %s)' % (lean_str(a), _pairs(ds)) for a, ds in kinds) + ']\n'
           + '/-- `_DEGREE_MODIFICATIONS`: type string -> (function, alteration) -/\n'
           + 'def modTypes : List (String × ModOp × Int) := %s\n'
           % lean_list('(%s, ModOp.%s, %s)' % (lean_str(k), f, lean_int(a)) for k, f, a in modtypes)
           + 'def NOTE_KEYS : List (List Nat) := %s\n' % lean_list(lean_list(str(k) for k in row) for row in constants.NOTE_KEYS)
           + 'def NOTES_PER_OCTAVE : Int := %d\n' % ml.NOTES_PER_OCTAVE
           + 'def MIN_MIDI_PITCH : Int := %d\ndef MAX_MIDI_PITCH : Int := %d\n' % (constants.MIN_MIDI_PITCH, constants.MAX_MIDI_PITCH)
           + 'def NO_CHORD : String := %s\n' % lean_str(constants.NO_CHORD)
           + 'def CHORD_SYMBOL : Int := %d\ndef UNKNOWN_PITCH_NAME : Int := %d\n' % (sl.CHORD_SYMBOL, sl.UNKNOWN_PITCH_NAME)
           + 'def QUALITY_MAJOR : Int := %d\ndef QUALITY_MINOR : Int := %d\ndef QUALITY_AUGMENTED : Int := %d\n'
           % (csl.CHORD_QUALITY_MAJOR, csl.CHORD_QUALITY_MINOR, csl.CHORD_QUALITY_AUGMENTED)
           + 'def QUALITY_DIMINISHED : Int := %d\ndef QUALITY_OTHER : Int := %d\n' % (csl.CHORD_QUALITY_DIMINISHED, csl.CHORD_QUALITY_OTHER)
           + '/-- `sequences_lib._clamp_transpose`, transliterated -/\n' + clamp_txt
           + 'end NSV.C10.Gen\n')
    chk.regenerate('NoteSeqVerif/Generated/C10.lean', txt)
