"""C10 — transposition shifts every pitch, key and chord by the same interval (DESIGN 6.10)."""
import ast
import copy
import re

from gen.translit import FnTranslator, Untranslatable
from harness import nswire
from harness.common import MachineryError, corpus_cases, lean_int, lean_list, lean_str, wl

PID = 'C10'
MODULES = ['NoteSeqVerif.Props.C10', 'NoteSeqVerif.Props.C10Events', 'NoteSeqVerif.Props.C10Heap', 'NoteSeqVerif.Props.C10World',
           'NoteSeqVerif.Props.C10_compose']
EXE = 'drv_c10'
THEOREMS = [
    ('NoteSeqVerif.Props.C10', 'NSV.C10.' + t) for t in [
        'stepsAbove_pos', 'walk_spec',
        'transpose_pitch_class_hom', 'midi_range', 'transpose_pitch_class_octave', 'transpose_pitch_class_mod',
        'transpose_pitch_class_inverse', 'transpose_pitch_class_alter', 'parse_print_pitch_class',
        'transpose_symbol_hom', 'transpose_symbol_inverse', 'transpose_symbol_octave',
        'transpose_ns_spec', 'moveNote_spec', 'keepNote_iff', 'transpose_ns_error', 'transpose_ns_chords_hom',
        'transpose_key_range', 'clamp_transpose_in_bounds', 'augment_deletes_nothing',
        'melody_transpose_fold', 'melody_transpose_special', 'melody_transpose_exact', 'melody_transpose_events',
        'melody_transpose_inverse', 'major_key_range', 'squash_spec',
        'chord_progression_transpose_spec', 'lead_sheet_transpose_spec']] + [
    # event by event: the loop of ChordProgression.transpose is List.map / List.mapM of its one-event body
    ('NoteSeqVerif.Props.C10Events', 'NSV.C10.' + t) for t in [
        'transposeSym_mod', 'cpEvent_mod', 'cpEvent_figure', 'cpLoop_cons', 'cpLoop_mapM',
        'chord_progression_transpose_mapM', 'chord_progression_transpose_map', 'figRel_split',
        'chord_progression_transpose_ok', 'chord_progression_transpose_event', 'chord_progression_transpose_append',
        'lead_sheet_transpose_together', 'lead_sheet_squash_together',
        'render_ne_no_chord', 'chord_progression_round_trip']] + [
    # objects: an operation is a function of the object it is applied to and writes that object only
    ('NoteSeqVerif.Props.C10Heap', 'NSV.C10.' + t) for t in [
        'heap_transpose_frame', 'heap_squash_frame', 'heap_transpose_self', 'heap_squash_self', 'heap_deepcopy', 'heap_no_object',
        'deepcopy_then_transpose_copy', 'deepcopy_then_transpose_original', 'deepcopy_then_transpose_both',
        'deepcopy_then_squash_copy', 'hTrace_last', 'deepcopy_then_transpose_moved']] + [
    # the caller's Python lists: constructors copy, no operation rewrites a list, two objects from one list are independent
    ('NoteSeqVerif.Props.C10World', 'NSV.C10.' + t) for t in [
        'world_step_lists', 'world_lists_invariant', 'world_build', 'built_after_history',
        'build_twice_transpose_one', 'build_twice_transpose_both']]

STEPS = 'ABCDEFG'


# ----------------------------------------------------------------------------- generated file
class _Tr(FnTranslator):
    """gen/translit.py plus `min`/`max`/`abs` of integers and `if/else` followed by more statements
    (the tail is copied into both branches)."""

    def expr(self, e, local):
        if isinstance(e, ast.Call) and isinstance(e.func, ast.Name) and not e.keywords:
            if e.func.id in ('min', 'max') and len(e.args) == 2:
                return '(%s %s %s)' % (e.func.id, self.expr(e.args[0], local), self.expr(e.args[1], local))
            if e.func.id == 'abs' and len(e.args) == 1:
                return '((Int.natAbs %s : Nat) : Int)' % self.expr(e.args[0], local)
        return super().expr(e, local)

    def block(self, stmts, local, indent):
        if stmts and isinstance(stmts[0], ast.If) and stmts[0].orelse and stmts[1:]:
            s, rest, pad = stmts[0], stmts[1:], '  ' * indent
            return pad + 'if %s then\n%s\n%selse\n%s' % (
                self.cond(s.test, local), self.block(s.body + rest, local, indent + 1), pad,
                self.block(s.orelse + rest, local, indent + 1))
        return super().block(stmts, local, indent)


# Props/C10_compose.lean: transposing the RESULT of a transposition (first step deleting nothing) = one step by the sum
THEOREMS = THEOREMS + [('NoteSeqVerif.Props.C10_compose', 'NSV.C10.' + t) for t in (
    'transpose_ns_compose', 'keepNote_moveNote', 'moveNote_moveNote', 'transposeKey_transposeKey')]


def _pairs(items):
    return lean_list('(%s, %s)' % (lean_int(a), lean_int(b)) for a, b in items)


def generate(chk):
    """Generated/C10.lean from the working tree: the pitch-class tables, the chord-kind table, the
    modification-type table, NOTE_KEYS, constants, and `_clamp_transpose` transliterated."""
    from note_seq import chord_symbols_lib as csl, constants, sequences_lib as sl, melodies_lib as ml, chords_lib as cl
    try:
        # symbolic execution (gen/translit2.py): the same term whether the function re-assigns its parameter in an
        # if/else and returns it, or returns from both branches (harmless rewrite C10-1 broke the statement-by-statement
        # transliteration used before: `let`-shaped definition -> the proofs about it no longer applied)
        from gen import translit2
        try:
            clamp_txt = translit2.translate(sl._clamp_transpose, sl, 'clampTranspose',
                                            {k: 'int' for k in ('transpose_amount', 'ns_min_pitch', 'ns_max_pitch',
                                                                'min_allowed_pitch', 'max_allowed_pitch')}, rounding=False)[0][1]
        except translit2.Untranslatable as e2:
            raise Untranslatable(str(e2))
        chk.translit['_clamp_transpose'] = 'regenerated from source (symbolic execution)'
        fn_names = {csl._add_scale_degree: 'add', csl._subtract_scale_degree: 'sub', csl._alter_scale_degree: 'alt'}
        above = [csl._STEPS_ABOVE[s] for s in STEPS]
        midi = [csl._STEPS_MIDI[s] for s in STEPS]
        kinds = [(abbrev, [csl._parse_degree(d) for d in degrees]) for abbrev, degrees in csl._CHORD_KINDS_BY_ABBREV.items()]
        modtypes = [(k, fn_names[f], a) for k, (f, a) in csl._DEGREE_MODIFICATIONS.items()]
        for v in above + midi + [a for _, ds in kinds for d in ds for a in d]:
            if isinstance(v, bool) or not isinstance(v, int):
                raise Untranslatable('non-integer table entry %r' % (v,))
        if ml.NOTES_PER_OCTAVE != cl.NOTES_PER_OCTAVE or ml.MIN_MIDI_PITCH != constants.MIN_MIDI_PITCH:
            raise Untranslatable('melodies_lib / chords_lib constants differ from constants.py')
    except Untranslatable as e:
        chk.translit['C10 tables'] = 'BROKEN: %s' % e
        chk.broken.append('translator:C10 (%s)' % e)
        return
    except (KeyError, TypeError, AttributeError) as e:
        chk.translit['C10 tables'] = 'BROKEN: %s %s' % (type(e).__name__, e)
        chk.broken.append('translator:C10 (%s %s)' % (type(e).__name__, e))
        return

    def fn(name, vals):
        return 'def %s : Step → Int\n' % name + ''.join('  | .%s => %s\n' % (s, lean_int(v)) for s, v in zip(STEPS, vals))
    txt = ('import NoteSeqVerif.Model.C10Base\n'
           '/-! GENERATED from /repo on every run by harness/c10.py — do not edit. -/\n'
           'namespace NSV.C10.Gen\n'
           '/-- `_STEPS_ABOVE` -/\n' + fn('stepsAbove', above)
           + '/-- `_STEPS_MIDI` -/\n' + fn('stepsMidi', midi)
           + '/-- `_DEGREE_OFFSETS` (dict as association list) -/\n'
           + 'def degreeOffsets : List (Int × Int) := %s\n' % _pairs(csl._DEGREE_OFFSETS.items())
           + '/-- `_CHORD_KINDS_BY_ABBREV`, each degree string through `_parse_degree` -/\n'
           + 'def chordKinds : List (String × List (Int × Int)) := [\n'
           + ',\n'.join('  (%s, %s)' % (lean_str(a), _pairs(ds)) for a, ds in kinds) + ']\n'
           + '/-- `_DEGREE_MODIFICATIONS`: type string -> (function, alteration) -/\n'
           + 'def modTypes : List (String × ModOp × Int) := %s\n'
           % lean_list('(%s, ModOp.%s, %s)' % (lean_str(k), f, lean_int(a)) for k, f, a in modtypes)
           + 'def NOTE_KEYS : List (List Nat) := %s\n' % lean_list(lean_list(str(k) for k in row) for row in constants.NOTE_KEYS)
           + 'def NOTES_PER_OCTAVE : Int := %d\n' % ml.NOTES_PER_OCTAVE
           + 'def MIN_MIDI_PITCH : Int := %d\ndef MAX_MIDI_PITCH : Int := %d\n' % (constants.MIN_MIDI_PITCH, constants.MAX_MIDI_PITCH)
           + 'def NO_CHORD : String := %s\n' % lean_str(constants.NO_CHORD)
           + 'def CHORD_SYMBOL : Int := %d\ndef UNKNOWN_PITCH_NAME : Int := %d\n' % (sl.CHORD_SYMBOL, sl.UNKNOWN_PITCH_NAME)
           + 'def QUALITY_MAJOR : Int := %d\ndef QUALITY_MINOR : Int := %d\ndef QUALITY_AUGMENTED : Int := %d\n'
           % (csl.CHORD_QUALITY_MAJOR, csl.CHORD_QUALITY_MINOR, csl.CHORD_QUALITY_AUGMENTED)
           + 'def QUALITY_DIMINISHED : Int := %d\ndef QUALITY_OTHER : Int := %d\n' % (csl.CHORD_QUALITY_DIMINISHED, csl.CHORD_QUALITY_OTHER)
           + '/-- `sequences_lib._clamp_transpose`, transliterated -/\n' + clamp_txt
           + 'end NSV.C10.Gen\n')
    chk.regenerate('NoteSeqVerif/Generated/C10.lean', txt)


# ----------------------------------------------------------------------------- the string layer (real code)
def hx(s):
    return nswire.hx(s)


def split_struct(csl, fig):
    """what the REAL splitter / parsers say about `fig` (None = ChordSymbolError): the structured symbol
    the Lean model works on.  The regex layer is modelled, not verified: it is taken from the code."""
    try:
        parts = csl._split_chord_symbol(fig)
    except csl.ChordSymbolError:
        return None
    root_str, kind_str, mods_str, bass_str = parts
    mods, rest = [], mods_str
    while rest:
        m = csl._MODIFICATION_REGEX.match(rest)
        mods.append((m.group(1), int(m.group(2))))
        rest = rest[m.end():]
    real = csl._parse_modifications(mods_str)
    mine = [(csl._DEGREE_MODIFICATIONS[t][0], d, csl._DEGREE_MODIFICATIONS[t][1]) for t, d in mods]
    if real != mine:
        raise MachineryError('harness copy of the _parse_modifications loop differs from the code on %r' % mods_str)
    return {'root': csl._parse_root(root_str), 'kind': kind_str, 'mods': mods_str, 'modlist': mods,
            'bass': csl._parse_bass(bass_str), 'parts': parts}


def pc_tokens(pc):
    return '%d %d' % (STEPS.index(pc[0]), pc[1])


def sym_tokens(st):
    t = [pc_tokens(st['root']), hx(st['kind']), hx(st['mods']), str(len(st['modlist']))]
    for ty, d in st['modlist']:
        t += [hx(ty), str(d)]
    t.append('1 ' + pc_tokens(st['bass']) if st['bass'] else '0 0 0')
    return ' '.join(t)


def table_tokens(csl, texts):
    ents = []
    for tx in sorted(set(texts)):
        st = split_struct(csl, tx)
        ents.append(hx(tx) + (' U' if st is None else ' S ' + sym_tokens(st)))
    return wl(ents)


def _val(csl, f, fig):
    try:
        return f(fig)
    except csl.ChordSymbolError:
        return 'E:ChordSymbolError'
    except Exception as e:  # pylint: disable=broad-except
        return 'E:' + type(e).__name__


def values(csl, fig):
    """(root, bass, quality, pitches) as the real code computes them; errors as 'E:<name>' strings"""
    return (_val(csl, csl.chord_symbol_root, fig), _val(csl, csl.chord_symbol_bass, fig),
            _val(csl, csl.chord_symbol_quality, fig), _val(csl, csl.chord_symbol_pitches, fig))


def values_tokens(v):
    return '%s %s %s %s' % (v[0], v[1], v[2], v[3] if isinstance(v[3], str) else wl(v[3]))


def struct_tokens(st):
    return pc_tokens(st['root']) + (' 1 ' + pc_tokens(st['bass']) if st['bass'] else ' 0 0 0')


# ----------------------------------------------------------------------------- oracles (from the property text)
def _pcs(v):
    return None if isinstance(v, str) else {x % 12 for x in v}


def oracle_values(fig, k, v0, t, v1, what='transposed'):
    """root, bass, pitch-class set move by k modulo 12, quality unchanged (v = values())"""
    if isinstance(v0[0], str) or isinstance(v0[1], str):
        return None           # the figure is not a chord symbol of the grammar: nothing is stated
    if isinstance(v1[0], str) or isinstance(v1[1], str):
        return '%s figure %r of %r (k=%d) cannot be interpreted' % (what, t, fig, k)
    if v1[0] != (v0[0] + k) % 12:
        return 'root of %r is %d, transposing by %d gives %r with root %d' % (fig, v0[0], k, t, v1[0])
    if v1[1] != (v0[1] + k) % 12:
        return 'bass of %r is %d, transposing by %d gives %r with bass %d' % (fig, v0[1], k, t, v1[1])
    if isinstance(v0[3], str) or isinstance(v0[2], str):
        return None           # modifications that cannot be applied: pitches / quality are undefined
    if isinstance(v1[3], str) or isinstance(v1[2], str):
        return 'pitches of %s figure %r of %r (k=%d) cannot be computed' % (what, t, fig, k)
    if _pcs(v1[3]) != {(x + k) % 12 for x in v0[3]}:
        return 'pitch classes of %r are %s, transposing by %d gives %r with %s' % (fig, sorted(_pcs(v0[3])), k, t, sorted(_pcs(v1[3])))
    if v1[2] != v0[2]:
        return 'quality of %r is %s, of %r (k=%d) %s' % (fig, v0[2], t, k, v1[2])
    return None


def oracle_sym(csl, fig, k):
    """one chord figure, one amount, evaluated on the real string functions only"""
    try:
        v0 = values(csl, fig)
        if isinstance(v0[0], str):
            return None
        t = csl.transpose_chord_symbol(fig, k)
        r = oracle_values(fig, k, v0, t, values(csl, t))
        if r:
            return r
        back = csl.transpose_chord_symbol(t, -k)
        r = oracle_values(fig, 0, v0, back, values(csl, back), 'k then -k')
        if r:
            return r
        octv = csl.transpose_chord_symbol(fig, 12)
        return oracle_values(fig, 0, v0, octv, values(csl, octv), 'octave-transposed')
    except Exception as e:  # pylint: disable=broad-except
        return 'implementation raised %s: %s' % (type(e).__name__, e)


def oracle_pc(csl, step, alter, k):
    try:
        s2, a2 = csl._transpose_pitch_class(step, alter, k)
        m0, m1 = csl._pitch_class_to_midi(step, alter), csl._pitch_class_to_midi(s2, a2)
        txt = csl._pitch_class_to_string(s2, a2)
    except Exception as e:  # pylint: disable=broad-except
        return 'implementation raised %s: %s' % (type(e).__name__, e)
    if m1 != (m0 + k) % 12:
        return 'pitch class %s%+d is %d; transposed by %d it is spelled %s = %d' % (step, alter, m0, k, txt, m1)
    if '#' in txt and 'b' in txt:
        return 'spelling %s mixes sharps and flats' % txt
    return None


def _ser(m):
    return m.SerializeToString(deterministic=True)


def call_tns(sl, ns, k, mn, mx, tc, dflt=False, in_place=False):
    """the real call.  `dflt`: the allowed range is left to the default arguments (the caller passes the
    MIDI range 0..127 as mn/mx, which is what the statement's "allowed range" is when none is given);
    `in_place`: the sequence handed in is a private copy, which must be the object that comes back"""
    from note_seq.protobuf import music_pb2
    arg = ns
    if in_place:
        arg = music_pb2.NoteSequence()
        arg.CopyFrom(ns)
    kw = {'transpose_chords': tc}
    if in_place:
        kw['in_place'] = True
    if dflt:
        out, deleted = sl.transpose_note_sequence(arg, k, **kw)
    else:
        out, deleted = sl.transpose_note_sequence(arg, k, mn, mx, **kw)
    return out, deleted, (out is arg)


def oracle_tns(sl, csl, ns, k, mn, mx, tc, dflt=False, in_place=False):
    """transpose_note_sequence against the property statement (also with the default range and in place)"""
    from note_seq import constants
    from note_seq.protobuf import music_pb2
    CH, NC = sl.CHORD_SYMBOL, constants.NO_CHORD
    if dflt and (mn, mx) != (constants.MIN_MIDI_PITCH, constants.MAX_MIDI_PITCH):
        raise MachineryError('default-range call with a range other than the MIDI range')
    chords = [ta.text for ta in ns.text_annotations if ta.annotation_type == CH and ta.text != NC]
    v0 = {tx: values(csl, tx) for tx in set(chords)}
    bad = [tx for tx in chords if isinstance(v0[tx][0], str)]
    try:
        out, deleted, same = call_tns(sl, ns, k, mn, mx, tc, dflt, in_place)
        if in_place and not same:
            return 'in_place=True returned another object than the sequence it was given'
    except csl.ChordSymbolError:
        if tc and bad:
            return None
        return 'ChordSymbolError although %s' % ('chord symbols are removed, not transposed' if not tc else 'every chord symbol can be interpreted')
    except Exception as e:  # pylint: disable=broad-except
        return 'implementation raised %s: %s' % (type(e).__name__, e)
    # notes
    exp, ndel = [], 0
    for n in ns.notes:
        if n.is_drum:
            exp.append((n, True))
        elif mn <= n.pitch + k <= mx:
            c = music_pb2.NoteSequence.Note()
            c.CopyFrom(n)
            c.pitch = n.pitch + k
            exp.append((c, False))
        else:
            ndel += 1
    if deleted != ndel:
        return 'reported %d deleted notes, %d pitched notes leave [%d, %d]' % (deleted, ndel, mn, mx)
    if len(out.notes) != len(exp):
        return '%d notes returned, %d expected' % (len(out.notes), len(exp))
    for i, ((a, drum), b) in enumerate(zip(exp, out.notes)):
        if not drum:
            c = music_pb2.NoteSequence.Note()
            c.CopyFrom(b)
            c.pitch_name = a.pitch_name     # the statement says nothing about the pitch name
            b = c
        if _ser(a) != _ser(b):
            return 'output note %d is (pitch %d, vel %d, %r-%r, drum %s); expected (pitch %d, vel %d, %r-%r, drum %s)' % (
                i, b.pitch, b.velocity, b.start_time, b.end_time, b.is_drum, a.pitch, a.velocity, a.start_time, a.end_time, a.is_drum)
    kept_end = max([0.0] + [n.end_time for n in out.notes])
    if out.total_time not in (ns.total_time, kept_end):
        return 'total_time %r is neither the input total_time %r nor the last kept note end %r' % (out.total_time, ns.total_time, kept_end)
    # key signatures
    if len(out.key_signatures) != len(ns.key_signatures):
        return 'number of key signatures changed'
    for a, b in zip(ns.key_signatures, out.key_signatures):
        if b.key != (a.key + k) % 12 or b.time != a.time or b.mode != a.mode:
            return 'key signature (key %d, mode %d, time %r) became (key %d, mode %d, time %r) for k=%d' % (a.key, a.mode, a.time, b.key, b.mode, b.time, k)
    # annotations
    if tc:
        if len(out.text_annotations) != len(ns.text_annotations):
            return 'number of text annotations changed'
        for a, b in zip(ns.text_annotations, out.text_annotations):
            if a.annotation_type == CH and a.text != NC:
                c = music_pb2.NoteSequence.TextAnnotation()
                c.CopyFrom(b)
                c.text = a.text
                if _ser(c) != _ser(a):
                    return 'a chord annotation changed in more than its text'
                r = oracle_values(a.text, k, v0[a.text], b.text, values(csl, b.text))
                if r:
                    return r
            elif _ser(a) != _ser(b):
                return 'annotation %r (type %d) changed to %r' % (a.text, a.annotation_type, b.text)
    else:
        keep = [a for a in ns.text_annotations if a.annotation_type != CH]
        if [_ser(a) for a in keep] != [_ser(b) for b in out.text_annotations]:
            return 'transpose_chords=False: the remaining annotations are not exactly the non-chord annotations'
    # everything else
    x, y = music_pb2.NoteSequence(), music_pb2.NoteSequence()
    x.CopyFrom(ns)
    y.CopyFrom(out)
    for m in (x, y):
        for f in ('notes', 'total_time', 'key_signatures', 'text_annotations'):
            m.ClearField(f)
    if _ser(x) != _ser(y):
        return 'a field other than notes / total_time / key signatures / chord annotations changed'
    return None


def mel_args(k, mn, mx, dflt):
    """positional arguments of Melody.transpose / LeadSheet.transpose; `dflt`: the range [0, 128) is left to
    the default arguments"""
    if dflt and (mn, mx) != (0, 128):
        raise MachineryError('default-range call with a range other than [0, 128)')
    return (k,) if dflt else (k, mn, mx)


class CallerLists:
    """the Python lists handed to the constructors by run_melody / run_squash / run_cp / run_ls: the caller's lists.
    They must hold afterwards what they held when they were handed over (checked by the oracles via `rewritten()`)."""
    last = []

    @classmethod
    def give(cls, *values):
        cls.last = [(list(v), list(v)) for v in values]
        return [mine for _, mine in cls.last]

    @classmethod
    def rewritten(cls):
        for orig, mine in cls.last:
            if orig != mine:
                return 'the caller\'s Python list the object was constructed from was rewritten: %r -> %r' % (orig, mine)
        return None


def run_melody(ml, events, k, mn, mx, dflt=False):
    src, = CallerLists.give(events)
    m = ml.Melody(src)
    m.transpose(*mel_args(k, mn, mx, dflt))
    return [int(e) for e in m]


def oracle_mel(ml, events, k, mn, mx, dflt=False):
    if mx - mn < 12:
        return None
    try:
        out = run_melody(ml, events, k, mn, mx, dflt)
        if CallerLists.rewritten():
            return CallerLists.rewritten()
        if len(out) != len(events):
            return 'melody length changed'
        for a, b in zip(events, out):
            if a < 0:
                if b != a:
                    return 'special event %d became %d' % (a, b)
            elif not (mn <= b < mx and (b - a - k) % 12 == 0):
                return 'event %d transposed by %d into [%d, %d) became %d' % (a, k, mn, mx, b)
            elif mn <= a + k < mx and b != a + k:
                return 'event %d moved by %d lies in [%d, %d) and needs no folding, but became %d' % (a, k, mn, mx, b)
        if mn >= 0:
            m = ml.Melody(list(events))
            m.transpose(k, mn, mx)
            m.transpose(-k, mn, mx)
            for a, b in zip(events, m):
                if (a < 0 and b != a) or (a >= 0 and (b - a) % 12):
                    return 'k then -k: event %d became %d' % (a, b)
            m = ml.Melody(list(events))
            m.transpose(12, mn, mx)
            for a, b in zip(events, m):
                if (a < 0 and b != a) or (a >= 0 and (b - a) % 12):
                    return 'transposing by 12: event %d became %d' % (a, b)
    except Exception as e:  # pylint: disable=broad-except
        return 'implementation raised %s: %s' % (type(e).__name__, e)
    return None


def run_squash(ml, events, mn, mx, key):
    src, = CallerLists.give(events)
    m = ml.Melody(src)
    a = m.squash(mn, mx, key)
    return int(a), [int(e) for e in m]


def oracle_squash(ml, events, mn, mx, key):
    if mx - mn < 12:
        return None
    try:
        mk = int(ml.Melody(list(events)).get_major_key())
        a, out = run_squash(ml, events, mn, mx, key)
        if CallerLists.rewritten():
            return CallerLists.rewritten()
        pitched = [e for e in events if e >= 0]
        if key is None:
            if a != 0:
                return 'squash without a key returned %d' % a
        elif pitched and (a - (key - mk)) % 12:
            return 'squash to key %d of a melody in key %d returned %d' % (key, mk, a)
        for x, y in zip(events, out):
            if x < 0:
                if y != x:
                    return 'special event %d became %d' % (x, y)
            elif not (mn <= y < mx and (y - x - a) % 12 == 0):
                return 'event %d squashed (amount %d) into [%d, %d) became %d' % (x, a, mn, mx, y)
            elif mn <= x + a < mx and y != x + a:
                return 'event %d squashed by %d lies in [%d, %d) and needs no folding, but became %d' % (x, a, mn, mx, y)
    except Exception as e:  # pylint: disable=broad-except
        return 'implementation raised %s: %s' % (type(e).__name__, e)
    return None


def run_cp(cl, csl, figs, k):
    src, = CallerLists.give(figs)
    cp = cl.ChordProgression(src)
    try:
        cp.transpose(k)
        st = 'ok'
    except csl.ChordSymbolError:
        st = 'err:ChordSymbolError'
    except Exception as e:  # pylint: disable=broad-except
        st = 'err:' + type(e).__name__
    return st, list(cp)


def oracle_figs(csl, figs, out, k, st, what='transposed'):
    """chord events of a progression before/after transposition by k"""
    from note_seq import constants
    NC = constants.NO_CHORD
    v0 = {f: values(csl, f) for f in set(figs) if f != NC}
    bad = [f for f in figs if f != NC and isinstance(v0[f][0], str)]
    if st != 'ok':
        if st == 'err:ChordSymbolError' and bad:
            return None
        return 'transposition raised %s although every chord can be interpreted' % st[4:]
    if len(out) != len(figs):
        return 'number of chord events changed'
    for a, b in zip(figs, out):
        if a == NC:
            if b != NC:
                return 'N.C. became %r' % b
        else:
            r = oracle_values(a, k, v0[a], b, values(csl, b), what)
            if r:
                return r if what == 'transposed' else '%s: %s' % (what, r)
    return None


def oracle_cp(cl, csl, figs, k):
    try:
        st, out = run_cp(cl, csl, figs, k)
        r = oracle_figs(csl, figs, out, k, st) or CallerLists.rewritten()
        if r or st != 'ok':
            return r
        cp = cl.ChordProgression(list(out))
        cp.transpose(-k)
        return oracle_figs(csl, figs, list(cp), 0, 'ok', 'by %d then by %d' % (k, -k))
    except Exception as e:  # pylint: disable=broad-except
        return 'implementation raised %s: %s' % (type(e).__name__, e)


def run_ls(ml, cl, lsl, csl, events, figs, op, args, dflt=False, then=None):
    """LeadSheet.transpose (op 'ls', args (k, min, max)) or LeadSheet.squash (op 'lsq', args (min, max, key));
    `then`: a second LeadSheet.transpose amount applied to the same object (round trips)"""
    src_e, src_f = CallerLists.give(events, figs)
    ls = lsl.LeadSheet(ml.Melody(src_e), cl.ChordProgression(src_f))
    amount = None
    try:
        if op == 'ls':
            ls.transpose(*mel_args(args[0], args[1], args[2], dflt))
            if then is not None:
                ls.transpose(*mel_args(then, args[1], args[2], dflt))
        else:
            amount = int(ls.squash(*args))
        st = 'ok'
    except csl.ChordSymbolError:
        st = 'err:ChordSymbolError'
    except Exception as e:  # pylint: disable=broad-except
        st = 'err:' + type(e).__name__
    return st, amount, [int(e) for e in ls.melody], list(ls.chords)


def oracle_ls(ml, cl, lsl, csl, events, figs, op, args, dflt=False):
    try:
        st, amount, ev, ch = run_ls(ml, cl, lsl, csl, events, figs, op, args, dflt)
        r = CallerLists.rewritten()
        if r:
            return r
        if op == 'ls':
            k, mn, mx = args
        else:
            mn, mx, key = args
            k = amount
            if st == 'ok' and mx - mn >= 12:
                mk = int(ml.Melody(list(events)).get_major_key())
                if [e for e in events if e >= 0] and (amount - (key - mk)) % 12:
                    return 'LeadSheet.squash to key %d of a melody in key %d returned %d' % (key, mk, amount)
        if st == 'ok':
            r = oracle_figs(csl, figs, ch, k, st)
            if r:
                return r
        else:
            r = oracle_figs(csl, figs, ch, 0, st)
            if r:
                return r
            return None
        if mx - mn >= 12:
            for a, b in zip(events, ev):
                if a < 0:
                    if b != a:
                        return 'special event %d became %d' % (a, b)
                elif not (mn <= b < mx and (b - a - k) % 12 == 0):
                    return 'lead sheet melody event %d (amount %d, range [%d, %d)) became %d' % (a, k, mn, mx, b)
                elif mn <= a + k < mx and b != a + k:
                    return 'lead sheet melody event %d moved by %d lies in [%d, %d) and needs no folding, but became %d' % (a, k, mn, mx, b)
        if op == 'ls':
            # k then -k on the same lead sheet: every chord back on its root / bass / pitch classes / quality,
            # every pitch back on its pitch class (ranges with min >= 0, so that a folded pitch is still a pitch)
            st2, _, ev2, ch2 = run_ls(ml, cl, lsl, csl, events, figs, op, args, dflt, then=-k)
            r = oracle_figs(csl, figs, ch2, 0, st2, 'lead sheet by %d then by %d' % (k, -k))
            if r:
                return r
            if mx - mn >= 12 and mn >= 0:
                for a, b in zip(events, ev2):
                    if (a < 0 and b != a) or (a >= 0 and (b < 0 or (b - a) % 12)):
                        return 'lead sheet by %d then by %d: melody event %d became %d' % (k, -k, a, b)
    except Exception as e:  # pylint: disable=broad-except
        return 'implementation raised %s: %s' % (type(e).__name__, e)
    return None


# ----------------------------------------------------------------------------- histories over objects
def hist_make(ml, cl, lsl, o, ev_list=None, fig_list=None):
    """build one object FROM THE GIVEN Python lists (the caller's lists: they are handed to the constructors as they
    are, exactly like `ChordProgression(my_figures)` in a caller's code)"""
    ev_list = list(o['events']) if ev_list is None and o['type'] != 'cp' else ev_list
    fig_list = list(o['figures']) if fig_list is None and o['type'] != 'mel' else fig_list
    if o['type'] == 'mel':
        return ml.Melody(ev_list)
    if o['type'] == 'cp':
        return cl.ChordProgression(fig_list)
    return lsl.LeadSheet(ml.Melody(ev_list), cl.ChordProgression(fig_list))


def hist_state(typ, x):
    """(melody events, chord figures) an object holds right now"""
    if typ == 'mel':
        return [int(e) for e in x], []
    if typ == 'cp':
        return [], list(x)
    return [int(e) for e in x.melody], list(x.chords)


def hist_sources(objects):
    """the caller's Python lists the objects are built from: object i with `"src": j` (j < i) is built from the very
    list objects object j was built from (its events list and / or its figures list, whichever both have); every
    other object from lists of its own.  -> (events list or None, figures list or None) per object"""
    evs, figs = [], []
    for i, o in enumerate(objects):
        j = o.get('src')
        e = f = None
        if j is not None and 0 <= j < i:
            if o['type'] != 'cp' and evs[j] is not None:
                e = evs[j]
            if o['type'] != 'mel' and figs[j] is not None:
                f = figs[j]
        if e is None and o['type'] != 'cp':
            e = list(o['events'])
        if f is None and o['type'] != 'mel':
            f = list(o['figures'])
        evs.append(e)
        figs.append(f)
    return evs, figs


def hist_effective(objects):
    """the objects with the contents they really get (a shared list carries the contents of the object it came from)"""
    evs, figs = hist_sources(objects)
    out = []
    for o, e, f in zip(objects, evs, figs):
        q = {'type': o['type']}
        if e is not None:
            q['events'] = list(e)
        if f is not None:
            q['figures'] = list(f)
        out.append(q)
    return out


def run_hist_full(ml, cl, lsl, csl, objects, ops):
    """the history on the real classes: objects are built (from the caller's lists, see hist_sources), then every
    operation is applied to the object it names (`deepcopy i` appends copy.deepcopy(objs[i])).
    Returns (types, initial states, [(result, states of ALL objects)], caller-list snapshots: after construction and
    after every operation, as [(events list or None, figures list or None) per constructed object])"""
    types = [o['type'] for o in objects]
    evs, figs = hist_sources(objects)
    given = [(None if e is None else list(e), None if f is None else list(f)) for e, f in zip(evs, figs)]

    def lists_now():
        return [(None if e is None else list(e), None if f is None else list(f)) for e, f in zip(evs, figs)]
    objs, build_trace = [], []
    for o, e, f in zip(objects, evs, figs):
        objs.append(hist_make(ml, cl, lsl, o, e, f))
        build_trace.append(([hist_state(t, x) for t, x in zip(types, objs)], lists_now()))
    run_hist_full.build_trace = build_trace
    first = [hist_state(t, x) for t, x in zip(types, objs)]
    snaps = [given, lists_now()]
    trace = []
    for op in ops:
        i = op[1]
        if not 0 <= i < len(objs):
            res = 'no-object'
        elif op[0] == 'deepcopy':
            objs.append(copy.deepcopy(objs[i]))
            types.append(types[i])
            res = 'ok'
        else:
            try:
                if op[0] == 'transpose':
                    if types[i] == 'cp':
                        objs[i].transpose(op[2])
                    else:
                        objs[i].transpose(op[2], op[3], op[4])
                    res = 'ok'
                else:
                    res = 'ok:%d' % int(objs[i].squash(op[2], op[3], op[4]))
            except csl.ChordSymbolError:
                res = 'err:ChordSymbolError'
            except Exception as e:  # pylint: disable=broad-except
                res = 'err:' + type(e).__name__
        trace.append((res, [hist_state(t, x) for t, x in zip(types, objs)]))
        snaps.append(lists_now())
    return types, first, trace, snaps


def run_hist(ml, cl, lsl, csl, objects, ops):
    return run_hist_full(ml, cl, lsl, csl, objects, ops)[:3]


def world_request(csl, objects, ops, first, trace):
    """the same history for the model's WORLD (Model/C10World.lean): the caller's lists as pools (one entry per
    distinct Python list), a `b` operation per object naming the lists it is built from, then the operations"""
    evs, figs = hist_sources(objects)
    epool, fpool, builds = [], [], []
    for e, f in zip(evs, figs):
        ie = jf = '-'
        if e is not None:
            ie = next((i for i, x in enumerate(epool) if x is e), None)
            if ie is None:
                epool.append(e)
                ie = len(epool) - 1
        if f is not None:
            jf = next((i for i, x in enumerate(fpool) if x is f), None)
            if jf is None:
                fpool.append(f)
                jf = len(fpool) - 1
        builds.append('b %s %s' % (ie, jf))
    texts = {f for _, states in [('', first)] + list(trace) for _, fs in states for f in fs if f != 'N.C.'}
    w = {'deepcopy': 'd', 'transpose': 't', 'squash': 's'}
    req = 'world %s %s %s %s' % (table_tokens(csl, texts), wl(wl(x) for x in epool), wl(wl(hx(t) for t in x) for x in fpool),
                                 wl(builds + [' '.join([w[op[0]]] + [str(x) for x in op[1:]]) for op in ops]))
    return req, [id(x) for x in epool], [id(x) for x in fpool]


def world_show(objects, trace, snaps, build_trace):
    """what the real classes and the caller's real lists hold after every construction and every operation"""
    evs, figs = hist_sources(objects)          # (only for the pooling: which objects share a list)
    eidx, fidx = [], []
    for i, (e, f) in enumerate(zip(evs, figs)):
        if e is not None and not any(evs[j] is e for j in eidx):
            eidx.append(i)
        if f is not None and not any(figs[j] is f for j in fidx):
            fidx.append(i)

    def lists(snap, given):
        # a list not handed over yet still holds what the caller put into it
        ev = [(snap[i] if i < len(snap) else given[i])[0] for i in eidx]
        fg = [(snap[i] if i < len(snap) else given[i])[1] for i in fidx]
        return ' | '.join(wl(x) for x in ev) + ' # ' + ' | '.join(wl(hx(t) for t in x) for x in fg)

    def objs(states):
        return ' | '.join('%s %s' % (wl(ev), wl(hx(f) for f in fs)) for ev, fs in states)
    given = snaps[0]
    out = ['ok ; %s ## %s' % (objs(states), lists(snap, given)) for states, snap in build_trace]
    out += ['%s ; %s ## %s' % (res, objs(states), lists(snap, given)) for (res, states), snap in zip(trace, snaps[2:])]
    return ' || '.join(out)


def hist_show(trace):
    return ' || '.join(res + ' ; ' + ' | '.join('%s %s' % (wl(ev), wl(hx(f) for f in figs)) for ev, figs in states) for res, states in trace)


def hist_request(csl, objects, ops, first, trace):
    figs = {f for _, states in [('', first)] + list(trace) for _, fs in states for f in fs if f != 'N.C.'}
    w = {'deepcopy': 'd', 'transpose': 't', 'squash': 's'}
    return 'hist %s %s %s' % (table_tokens(csl, figs), wl('%s %s' % (wl(ev), wl(hx(f) for f in fs)) for ev, fs in first),
                              wl(' '.join([w[op[0]]] + [str(x) for x in op[1:]]) for op in ops))


def judge_events(before, after, k, mn, mx, what):
    """melody events of ONE object before / after it was moved by k into [mn, mx)"""
    if len(before) != len(after):
        return '%s: melody length changed' % what
    if mx - mn < 12:
        return None
    for a, b in zip(before, after):
        if a < 0:
            if b != a:
                return '%s: special event %d became %d' % (what, a, b)
        elif not (mn <= b < mx and (b - a - k) % 12 == 0):
            return '%s: melody event %d (amount %d, range [%d, %d)) became %d' % (what, a, k, mn, mx, b)
        elif mn <= a + k < mx and b != a + k:
            return '%s: melody event %d moved by %d lies in [%d, %d) and needs no folding, but became %d' % (what, a, k, mn, mx, b)
    return None


def oracle_hist(ml, cl, lsl, csl, objects, ops):
    """every operation of the history judged on EVERY object: the object it was applied to moved by exactly the
    amount (melody into the range, every chord's root / bass / pitch classes by k modulo 12, quality kept), a deep
    copy equals its source, and every object the operation was NOT applied to is exactly what it was before"""
    try:
        types, prev, trace, snaps = run_hist_full(ml, cl, lsl, csl, objects, ops)
    except Exception as e:  # pylint: disable=broad-except
        return 'implementation raised %s: %s' % (type(e).__name__, e)
    try:
        # construction: every object holds what the list it was built from held, and the caller's lists - which the
        # caller goes on using, here: to build further objects from - are never rewritten, neither by a constructor
        # nor by any later operation on an object built from them
        eff = hist_effective(objects)
        for i, (o, st) in enumerate(zip(eff, prev)):
            ev = o.get('events', [])
            lead = [e for e in ev if e != -1][:1]
            if lead == [-2] or any(not -2 <= e <= 127 for e in ev):
                ev = st[0]          # (the Melody constructor itself rewrites a leading note-off / rejects other values)
            if st != (ev, o.get('figures', [])):
                return 'construction: object %d built from events %r / figures %r holds %r / %r' % (
                    i, o.get('events', []), o.get('figures', []), st[0], st[1])
        given = snaps[0]
        for n, now in enumerate(snaps[1:]):
            for i, (g, c) in enumerate(zip(given, now)):
                if g != c:
                    what = 'construction' if n == 0 else 'step %d (%s of object %d)' % (n, ops[n - 1][0], ops[n - 1][1])
                    return ('%s: the caller\'s Python list object %d was constructed from was rewritten: events %r -> %r, '
                            'figures %r -> %r' % (what, i, g[0], c[0], g[1], c[1]))
        for n, (op, (res, states)) in enumerate(zip(ops, trace)):
            i = op[1]
            what = 'step %d (%s of object %d%s)' % (n + 1, op[0], i, '' if op[0] == 'deepcopy' else ' ' + ' '.join(map(str, op[2:])))
            if res == 'no-object':
                return None
            for j in range(len(prev)):
                if (op[0] == 'deepcopy' or j != i) and states[j] != prev[j]:
                    return ('%s: object %d, which the operation was not applied to, changed: melody %r -> %r, chords %r -> %r'
                            % (what, j, prev[j][0], states[j][0], prev[j][1], states[j][1]))
            if op[0] == 'deepcopy':
                if len(states) != len(prev) + 1 or states[-1] != prev[i]:
                    return '%s: the copy does not hold what object %d holds' % (what, i)
            else:
                before, after = prev[i], states[i]
                if op[0] == 'transpose':
                    k, mn, mx = op[2], op[3], op[4]
                    st = res
                else:
                    mn, mx, key = op[2], op[3], op[4]
                    st = 'ok' if res.startswith('ok:') else res
                    if st == 'ok':
                        k = int(res[3:])
                        mk = int(ml.Melody(list(before[0])).get_major_key())
                        if mx - mn >= 12 and [e for e in before[0] if e >= 0] and (k - (key - mk)) % 12:
                            return '%s: squash to key %d of a melody in key %d returned %d' % (what, key, mk, k)
                    else:
                        k = 0
                r = oracle_figs(csl, before[1], after[1], k if st == 'ok' else 0, st)
                if r:
                    return '%s: %s' % (what, r)
                if st == 'ok' and types[i] != 'cp':
                    r = judge_events(before[0], after[0], k, mn, mx, what)
                    if r:
                        return r
            prev = states
    except Exception as e:  # pylint: disable=broad-except
        return 'implementation raised %s: %s' % (type(e).__name__, e)
    return None


HIST_PATTERNS = ['copy-transposed', 'original-transposed', 'both-transposed', 'copy-there-and-back', 'copy-squashed',
                 'copy-of-copy', 'random']


SHARED_PATTERNS = ['shared-list:one-transposed', 'shared-list:one-then-the-other', 'shared-list:there-and-back',
                   'shared-list:with-copies', 'shared-list:squash']


def gen_hist(rng, csl, ml, kinds):
    """objects + a history: deepcopy (of a LeadSheet, a Melody, a ChordProgression), then transpose / squash one of
    the two objects (or both, or the copy there and back, or a copy of the copy), mostly by an everyday interval"""
    typ = rng.choice(['ls', 'ls', 'ls', 'mel', 'cp'])
    n = rng.choice([1, 2, 3, 4, 6, 8])
    k = gen_k(rng) if rng.random() < 0.5 else rng.choice([2, 7, 5, -2, 1, -1, 3, 4, 9, 11, -5, 12])
    mn, mx = gen_range(rng)
    if (mx - mn < 12 and (rng.random() < 0.7 or mx < 12 or mn > 116)) or mn < 0:
        # (a negative lower bound - or a range narrower than an octave whose upper fold `max_note - 12 + …` goes below zero, i.e.
        # max_note < 12 - can leave events below -2 in a melody, which no constructor - hence no deepcopy - accepts; found by a
        # thorough run: the later deepcopy raised ValueError inside the library and the history was reported.  Such ranges are
        # outside the statement's quantifier (max_note - min_note >= 12); narrow ranges stay in the histories only where every
        # folded value is a legal pitch)
        mn, mx = 0, 128

    def obj(t):
        raw = (gen_events(rng, k) + [rng.choice([-2, -1, rng.randrange(128)]) for _ in range(n)])[:n]
        o = {'type': t}
        if t != 'cp':
            o['events'] = [int(e) for e in ml.Melody(raw)]
        if t != 'mel':
            o['figures'] = gen_progression(rng, csl, kinds, n, k)[0] if rng.random() < 0.8 else gen_figs(rng, kinds, n)
        return o
    objects = [obj(typ)]
    if rng.random() < 0.25:
        objects.insert(rng.randrange(2), obj(rng.choice(['ls', 'mel', 'cp'])))
    a = objects.index(next(o for o in objects if o['type'] == typ))
    # a second object built from the SAME Python list(s) as object a (the caller reuses its list of figures / events)
    c = None
    if rng.random() < 0.4:
        t2 = rng.choice({'cp': ['cp', 'cp', 'ls'], 'mel': ['mel', 'mel', 'ls'], 'ls': ['ls', 'ls', 'cp', 'cp', 'mel']}[typ])
        o2 = obj(t2)
        for fld in ('events', 'figures'):
            if fld in o2 and fld in objects[a]:
                o2[fld] = list(objects[a][fld])
        o2['src'] = a
        objects.append(o2)
        c = len(objects) - 1
    b = len(objects)
    pat = rng.choice(HIST_PATTERNS)
    if c is not None and rng.random() < 0.7:
        pat = rng.choice(SHARED_PATTERNS)
    if pat == 'copy-squashed' and typ == 'cp':
        pat = 'copy-transposed'
    key = rng.randrange(12)
    T = lambda i, kk: ['transpose', i, kk, mn, mx]  # noqa: E731
    if pat == 'copy-transposed':
        ops = [['deepcopy', a], T(b, k)]
    elif pat == 'original-transposed':
        ops = [['deepcopy', a], T(a, k)]
    elif pat == 'both-transposed':
        ops = [['deepcopy', a], T(b, k), T(a, k)] if rng.random() < 0.5 else [['deepcopy', a], T(a, k), T(b, k)]
    elif pat == 'copy-there-and-back':
        ops = [['deepcopy', a], T(b, k), T(b, -k)]
    elif pat == 'copy-squashed':
        ops = [['deepcopy', a], ['squash', b, mn, mx, key]] + ([T(a, k)] if rng.random() < 0.5 else [])
    elif pat == 'shared-list:one-transposed':
        ops = [T(rng.choice([a, c]), k)]
    elif pat == 'shared-list:one-then-the-other':
        x, y = rng.choice([(a, c), (c, a)])
        ops = [T(x, k), T(y, k)] + ([T(y, -k)] if rng.random() < 0.4 else [])
    elif pat == 'shared-list:there-and-back':
        x = rng.choice([a, c])
        ops = [T(x, k), T(x, -k), T(a + c - x, rng.choice([k, 12, -k]))]
    elif pat == 'shared-list:with-copies':
        x, y = rng.choice([(a, c), (c, a)])
        ops = [['deepcopy', x], T(x, k), ['deepcopy', y], T(b + 1, k), T(y, k)]
    elif pat == 'shared-list:squash':
        x, y = rng.choice([(a, c), (c, a)])
        tys = [o['type'] for o in objects]
        ops = [['squash', x, mn, mx, key] if tys[x] != 'cp' else T(x, k), T(y, k)]
    elif pat == 'copy-of-copy':
        ops = [['deepcopy', a], ['deepcopy', b], T(rng.choice([a, b, b + 1]), k), T(rng.choice([a, b, b + 1]), rng.choice([k, -k, 12]))]
    else:
        ops, m, tys = [], len(objects), [o['type'] for o in objects]
        for _ in range(rng.choice([2, 3, 4, 5])):
            r = rng.random()
            i = rng.randrange(m)
            if r < 0.35 or not ops:
                ops.append(['deepcopy', i])
                tys.append(tys[i])
                m += 1
            elif r < 0.85 or tys[i] == 'cp':
                ops.append(T(i, rng.choice([k, k, -k, 12, gen_k(rng)])))
            else:
                ops.append(['squash', i, mn, mx, key])
    return objects, ops, [pat, 'object:' + typ] + (['two-unrelated-objects'] if len([o for o in objects if 'src' not in o]) > 1 else []) + (
        ['two-objects-from-one-list:%s+%s' % (typ, objects[c]['type'])] if c is not None else [])


class _FakeRandom:
    """stands in for the `random` module inside sequences_lib during one augment call"""

    def __init__(self, mode):
        self.mode, self.range = mode, None

    def uniform(self, a, b):
        if a != b:
            raise MachineryError('the augment stream fixes the stretch factor')
        return a

    def randint(self, a, b):
        self.range = (a, b)
        if a > b:
            raise ValueError('empty range for randrange() (%d, %d, %d)' % (a, b + 1, b - a + 1))
        return a if self.mode == 0 else b if self.mode == 1 else (a + b) // 2


def run_aug(sl, ns, min_t, max_t, mn, mx, delete, mode):
    from note_seq.protobuf import music_pb2
    c = music_pb2.NoteSequence()
    c.CopyFrom(ns)
    fake, real = _FakeRandom(mode), sl.random
    sl.random = fake
    try:
        out = sl.augment_note_sequence(c, 1.0, 1.0, min_t, max_t, mn, mx, delete)
        return 'ok', fake.range, out
    except Exception as e:  # pylint: disable=broad-except
        return 'err ' + type(e).__name__, fake.range, None
    finally:
        sl.random = real


def oracle_aug(sl, csl, ns, min_t, max_t, mn, mx, delete, mode):
    """in-range sequences lose no note under clamped augmentation and move by one amount inside the request"""
    if delete or not ns.notes or mn > mx or min_t > max_t:
        return None
    if any(not (mn <= n.pitch <= mx) for n in ns.notes):
        return None
    if any(ta.annotation_type == sl.CHORD_SYMBOL for ta in ns.text_annotations) or ns.quantization_info.ByteSize():
        return None
    st, rg, out = run_aug(sl, ns, min_t, max_t, mn, mx, delete, mode)
    if st != 'ok':
        return 'augment_note_sequence raised %s on an in-range sequence' % st[4:]
    if len(out.notes) != len(ns.notes):
        return 'augmentation without deletion lost %d notes' % (len(ns.notes) - len(out.notes))
    ks = {b.pitch - a.pitch for a, b in zip(ns.notes, out.notes) if not a.is_drum}
    if len(ks) > 1 or any(not (min(min_t, 0) <= k <= max(max_t, 0)) for k in ks):
        return 'pitched notes moved by %s, requested [%d, %d] (clamped toward 0)' % (sorted(ks), min_t, max_t)
    if any(not (mn <= b.pitch <= mx) for a, b in zip(ns.notes, out.notes) if not a.is_drum):
        return 'a pitched note left the allowed range'
    return None


def oracle_clamp(sl, a, lo, hi, mn, mx):
    if not (mn <= lo <= hi <= mx):
        return None
    try:
        r = sl._clamp_transpose(a, lo, hi, mn, mx)
    except Exception as e:  # pylint: disable=broad-except
        return 'implementation raised %s: %s' % (type(e).__name__, e)
    if not (mn <= lo + r and hi + r <= mx):
        return 'clamped amount %d takes [%d, %d] outside [%d, %d]' % (r, lo, hi, mn, mx)
    if (a >= 0 and not 0 <= r <= a) or (a < 0 and not a <= r <= 0):
        return 'clamped amount %d is not between 0 and the request %d' % (r, a)
    if mn <= lo + a and hi + a <= mx and r != a:
        return 'request %d fits but was clamped to %d' % (a, r)
    return None


# ----------------------------------------------------------------------------- generators
ROOTS = [l + a for l in STEPS for a in ('', '#', 'b', '##', 'bb')]          # the 35 root spellings
MODS = ['', '(b5)', '(add9)', '(no3)', 'b9', '(add2)(b5)', '(no5)(b9)', '(addb6)',
        'add#11no5', '(add7)', '(b13)(#5)', '(no9)']
BASSES = ['', '/C', '/F#', '/Bb', '/Ebb', '/G##', '/E#']
WILD_MODS = MODS + ['(#9)', '#11', '(b9)(#9)', 'no3add4', '(add#9)', '(b5)(b5)', '(no5)(no5)', '(add13)']
WILD_BASSES = BASSES + ['/B', '/Fb', '/A###', '/Dbbb']
MALFORMED = ['H7', 'hello', '', 'Cfoo', 'C#b', 'c', 'C/H', 'Cm7/', 'C7/Bb/C', 'N.C', ' C', 'Cm 7', 'C(b5', '7', '#C', 'Do']
ODD_VALID = ['C\n', 'C####', 'Dbbbbb/F###', 'E#m7b5', 'Fbmaj7/Cb', 'B#/o7', 'Cb6/9', 'G/o', 'A-(M7)(add2)', 'Bmin(maj7)/A#',
             'C(add3)', 'Dm(no7)', 'E7(add7)', 'F5(b9)(#9)', 'Gsus(no4)(add3)', 'A13(b5)(#9)(b13)', 'Cadd9', 'C(b15)', 'Cno1']


def gen_figure(rng, kinds):
    k = rng.random()
    if k < 0.06:
        return rng.choice(ODD_VALID)
    root = rng.choice(ROOTS) if k < 0.9 else rng.choice(STEPS) + rng.choice('#b') * rng.randrange(0, 7)
    return root + rng.choice(kinds) + rng.choice(WILD_MODS) + rng.choice(WILD_BASSES)


def gen_k(rng):
    r = rng.random()
    return rng.randint(-12, 12) if r < 0.55 else rng.choice([0, 12, -12, 24, -24, 1, -1, 11, -11, 127, -127]) if r < 0.7 else rng.randint(-127, 127)


def gen_tns(rng, kinds, csl=None):
    """NoteSequence + (k, min, max, transpose_chords): pitched and drum notes at the range edges, key
    signatures, chord / N.C. / other annotations, sometimes an uninterpretable chord; consecutive notes,
    key signatures and chord annotations that are exactly `k` apart (each equals what its predecessor becomes)"""
    hist = set()
    ns = nswire.NSGen(rng, max_notes=rng.choice([0, 2, 6, 12, 25])).make(texts=False)
    r = rng.random()
    if r < 0.5:
        mn, mx = sorted((rng.randrange(128), rng.randrange(128)))
        hist.add('range:random')
    elif r < 0.65:
        mn, mx = 0, 127
        hist.add('range:default')
    elif r < 0.75:
        mn = mx = rng.randrange(128)
        hist.add('range:single-pitch')
    elif r < 0.83:
        mx, mn = sorted((rng.randrange(128), rng.randrange(128)))
        mn += 1
        hist.add('range:empty')
    else:
        mn, mx = rng.randint(-20, 30), rng.randint(100, 150)
        hist.add('range:beyond-midi')
    k = gen_k(rng)
    edges = [p for p in (mn - k - 1, mn - k, mn - k + 1, mx - k - 1, mx - k, mx - k + 1) if 0 <= p <= 127]
    prev_pitch = None
    for n in ns.notes:
        if edges and rng.random() < 0.55:
            n.pitch = rng.choice(edges)
            hist.add('drum-at-edge' if n.is_drum else 'pitched-at-edge')
        elif prev_pitch is not None and 0 <= prev_pitch + k <= 127 and rng.random() < 0.25:
            n.pitch = prev_pitch + k
            hist.add('note=transposed-predecessor')
        prev_pitch = n.pitch
        if not n.is_drum:
            hist.add('kept' if mn <= n.pitch + k <= mx else 'deleted')
        else:
            hist.add('drum')
    for _ in range(rng.choice([0, 0, 1, 2])):
        x = ns.key_signatures.add()
        x.time, x.key, x.mode = rng.choice([0.0, 1.5, 4.0]), rng.randrange(12), rng.choice([0, 1])
        if len(ns.key_signatures) > 1 and rng.random() < 0.5:
            x.key = (ns.key_signatures[len(ns.key_signatures) - 2].key + k) % 12
            hist.add('keysig=transposed-predecessor')
    if ns.key_signatures:
        hist.add('keysig')
    malformed = rng.random() < 0.1
    prev_chord = None
    for _ in range(rng.choice([0, 1, 2, 3, 5, 8])):
        x = ns.text_annotations.add()
        x.time = rng.choice([0.0, 0.5, 2.0, rng.uniform(0, 8)])
        x.quantized_step = rng.choice([0, 0, 3])
        if rng.random() < 0.7:
            x.annotation_type = 1
            r = rng.random()
            x.text = 'N.C.' if r < 0.15 else rng.choice(MALFORMED) if (malformed and r < 0.5) else gen_figure(rng, kinds)
            r = rng.random()
            if csl is not None and prev_chord is not None and x.text != 'N.C.' and r < 0.45:
                rel = prev_chord if r < 0.1 else related_figure(rng, csl, prev_chord, k if r < 0.38 else -k)
                if rel is not None:
                    x.text = rel
                    hist.add('ann=predecessor' if r < 0.1 else 'ann=transposed-predecessor' if r < 0.38 else 'ann:k-below-predecessor')
            if x.text != 'N.C.':
                prev_chord = x.text
            hist.add('ann:N.C.' if x.text == 'N.C.' else 'ann:chord')
        else:
            x.annotation_type = rng.choice([0, 2])
            x.text = rng.choice(['N.C.', 'C', 'Am7', 'hello wörld', '', 'verse 1'])
            hist.add('ann:other')
    tc = rng.random() < 0.75
    hist.add('transpose_chords' if tc else 'remove_chords')
    return ns, k, mn, mx, tc, hist


def tns_request(csl, ns, k, mn, mx, tc):
    texts = [ta.text for ta in ns.text_annotations if ta.annotation_type == 1]
    return 'tns %d %d %d %d %s %s' % (k, mn, mx, 1 if tc else 0, table_tokens(csl, texts), nswire.encode(ns))


def tns_impl(sl, ns, k, mn, mx, tc, dflt=False, in_place=False):
    try:
        out, d, _ = call_tns(sl, ns, k, mn, mx, tc, dflt, in_place)
    except Exception as e:  # pylint: disable=broad-except
        return 'err ' + type(e).__name__
    return 'ok %d %s' % (d, nswire.encode(out))


def gen_events(rng, k=None):
    """melody events; with `k`: some pitches exactly `k` above their predecessor (each equals what the
    predecessor becomes when nothing is folded)"""
    n = rng.choice([0, 1, 3, 8, 16])
    lo = rng.randrange(0, 110)
    hi = rng.randrange(lo, 128)
    ev = [rng.choice([-2, -2, -1, rng.randint(lo, hi), rng.randint(lo, hi), rng.randrange(128)]) for _ in range(n)]
    if k is not None and rng.random() < 0.4:
        last = None
        for i, e in enumerate(ev):
            if e >= 0 and last is not None and 0 <= last + k <= 127 and rng.random() < 0.5:
                ev[i] = last + k
            if ev[i] >= 0:
                last = ev[i]
    return ev


def gen_range(rng):
    r = rng.random()
    if r < 0.1:
        return 0, 128                                 # the default range of Melody / LeadSheet.transpose
    if r < 0.75:
        mn = rng.randrange(0, 117)
        return mn, rng.randint(mn + 12, 128)
    if r < 0.85:
        mn = rng.randrange(0, 117)
        return mn, mn + 12
    if r < 0.93:
        mn = rng.randrange(0, 120)
        return mn, mn + rng.randrange(0, 12)        # too narrow: correspondence only
    return rng.randint(-30, -1), rng.randint(0, 128)  # negative lower bound


def gen_figs(rng, kinds, n):
    bad = rng.random() < 0.2
    out = []
    cur = 'N.C.'
    for _ in range(n):
        if rng.random() < 0.5:
            r = rng.random()
            cur = 'N.C.' if r < 0.2 else rng.choice(MALFORMED) if (bad and r < 0.35) else gen_figure(rng, kinds)
        out.append(cur)
    return out


_SHARP = ['C', 'C#', 'D', 'D#', 'E', 'F', 'F#', 'G', 'G#', 'A', 'A#', 'B']
_FLAT = ['C', 'Db', 'D', 'Eb', 'E', 'F', 'Gb', 'G', 'Ab', 'A', 'Bb', 'B']
_NATURAL = {'C': 0, 'D': 2, 'E': 4, 'F': 5, 'G': 7, 'A': 9, 'B': 11}
_PC_RE = re.compile(r'([A-G])(#*|b*)')


def own_transpose(rng, fig, k):
    """the harness' own guess at the figure `k` semitones above `fig`: root and slash bass respelled from a
    sharp or a flat table, the rest copied (None if `fig` does not start with a pitch class).  Only used to
    PLACE figures next to each other that are `k` apart; nothing is checked against it."""
    m = _PC_RE.match(fig)
    if not m:
        return None
    names = rng.choice([_SHARP, _FLAT])

    def up(mm):
        return names[(_NATURAL[mm.group(1)] + len(mm.group(2)) * (1 if mm.group(2).startswith('#') else -1) + k) % 12]
    rest = fig[m.end():]
    body, slash, bass = rest.rpartition('/')
    mb = _PC_RE.fullmatch(bass) if slash else None
    if mb:
        rest = body + '/' + up(mb)
    return up(m) + rest


def related_figure(rng, csl, fig, k):
    """a figure that stands `k` semitones above `fig`: the string the real transpose_chord_symbol returns
    (so that an event can EQUAL the transposed figure of another event), or the harness' own respelling"""
    if rng.random() < 0.75:
        try:
            return csl.transpose_chord_symbol(fig, k % 12)
        except Exception:  # pylint: disable=broad-except
            pass
    return own_transpose(rng, fig, k)


def gen_progression(rng, csl, kinds, n, k):
    """chord events for ChordProgression / LeadSheet, built as a walk in which an event is, relative to the
    events before it: held, N.C., `k` above the previous chord (so that it equals that chord's transposed
    figure: ladders by tones for k=2, the cycle of fifths for k=7, ...), `k` below it, `k` above ANY earlier
    chord, an enharmonic respelling, an earlier figure again, or a fresh figure of the grammar.
    Returns (figures, tags)."""
    tags = set()
    mode = rng.random()
    ladder_only = mode < 0.2          # nothing but steps of k, holds and N.C.
    bad = mode > 0.88
    simple = rng.random() < 0.5       # short everyday figures (C, Am7, G7/B) rather than the wild grammar

    def fresh():
        if simple:
            return rng.choice(_SHARP + _FLAT) + rng.choice(['', 'm', '7', 'm7', 'maj7', 'dim', 'sus4', '6']) + rng.choice(['', '', '', '/' + rng.choice(_SHARP + _FLAT)])
        return gen_figure(rng, kinds)
    out, chords = [], []
    for i in range(n):
        r = rng.random()
        fig, tag = None, None
        prev = chords[-1] if chords else None
        if prev is None or (not ladder_only and r < 0.2):
            fig, tag = fresh(), 'fresh'
        elif r < 0.4 if not ladder_only else r < 0.2:
            fig, tag = out[-1], 'held'
        elif r < 0.5 if not ladder_only else r < 0.3:
            fig, tag = 'N.C.', 'N.C.'
        elif r < 0.75 if not ladder_only else True:
            fig, tag = related_figure(rng, csl, prev, k), 'k-above-previous-chord'
        elif r < 0.82:
            fig, tag = related_figure(rng, csl, prev, -k), 'k-below-previous-chord'
        elif r < 0.9:
            fig, tag = related_figure(rng, csl, rng.choice(chords), k), 'k-above-earlier-chord'
        elif r < 0.94:
            fig, tag = own_transpose(rng, prev, 0), 'respelled-previous-chord'
        elif bad and r >= 0.96:
            fig, tag = rng.choice(MALFORMED), 'malformed'
        else:
            fig, tag = rng.choice(chords), 'earlier-figure-again'
        if fig is None:
            fig, tag = fresh(), 'fresh'
        out.append(fig)
        tags.add(tag)
        if fig != 'N.C.':
            chords.append(fig)
    return out, tags


def coincidence_tags(figs, out):
    """the coincidences the event-by-event statement is about, read off the input events and the events
    the real code produced: an event equal to the TRANSPOSED figure of its predecessor / of an earlier event"""
    tags = set()
    for i in range(1, min(len(figs), len(out))):
        if figs[i] == 'N.C.':
            continue
        if figs[i] == out[i - 1] and figs[i] != figs[i - 1]:
            tags.add('event=transposed-predecessor')
        elif any(figs[i] == out[j] and figs[i] != figs[j] for j in range(i - 1)):
            tags.add('event=transposed-earlier-event')
        if figs[i] == figs[i - 1]:
            tags.add('event=predecessor')
    return tags


def cp_request(csl, figs, k):
    return 'cp %d %s %s' % (k, table_tokens(csl, [f for f in figs if f != 'N.C.']), wl(hx(f) for f in figs))


def ls_request(csl, events, figs, k, mn, mx):
    return 'ls %d %d %d %s %s %s' % (k, mn, mx, table_tokens(csl, [f for f in figs if f != 'N.C.']), wl(events), wl(hx(f) for f in figs))


def sym_request(st, ks):
    return 'sym %s %s' % (sym_tokens(st), wl(ks))


class SymCache:
    """split structure and (root, bass, quality, pitches) of figure strings, from the real functions (pure)"""

    def __init__(self, csl):
        self.csl, self.d, self.o = csl, {}, {}

    def octave(self, fig):
        r = self.o.get(fig)
        if r is None:
            r = self.o[fig] = self.csl.transpose_chord_symbol(fig, 12)
        return r

    def get(self, fig):
        r = self.d.get(fig)
        if r is None:
            r = self.d[fig] = (split_struct(self.csl, fig), values(self.csl, fig))
        return r

    def clear(self):
        self.d.clear()
        self.o.clear()


def sym_impl(csl, cache, fig, ks):
    """the line the model must print, computed from the real string functions only; plus the oracle's verdict"""
    st, v0 = cache.get(fig)
    parts = ['ok ' + hx(''.join(st['parts'])) + ' ' + values_tokens(v0)]
    fails = []
    for k in ks:
        t = csl.transpose_chord_symbol(fig, k)
        st2, v1 = cache.get(t)
        back, octv = csl.transpose_chord_symbol(t, -k), cache.octave(t)
        if st2 is None:
            parts.append('%s UNSPLITTABLE' % hx(t))
        else:
            parts.append('%s %s %s %s %s' % (hx(t), struct_tokens(st2), values_tokens(v1), hx(back), hx(octv)))
            if st2['kind'] != st['kind'] or st2['mods'] != st['mods'] or st2['modlist'] != st['modlist']:
                parts[-1] += ' RESPLIT-KIND-MODS-DIFFER'
        # oracle: the statement on the implementation's own outputs
        r = (oracle_values(fig, k, v0, t, v1) or oracle_values(fig, 0, v0, back, cache.get(back)[1], 'k then -k')
             or oracle_values(fig, k, v0, octv, cache.get(octv)[1], 'k then 12'))
        if r:
            fails.append((k, r))
    return ' | '.join(parts), fails


# ----------------------------------------------------------------------------- run
class Batch:
    """requests with the implementation's answer; flushed through the driver in chunks"""

    def __init__(self, chk):
        self.chk, self.items = chk, []

    def add(self, stream, req, impl, key, hist, replay=None):
        self.items.append((stream, req, impl, key, hist, replay))
        if len(self.items) >= 20000:
            self.flush()

    def flush(self):
        chk = self.chk
        if not self.items:
            return
        model = chk.driver(EXE, [it[1] for it in self.items])
        for (stream, req, impl, key, hist, replay), b in zip(self.items, model):
            chk.count(stream, key, nontrivial=(b != 'bad-op'), hist=hist)
            if impl != b:
                chk.disagree(stream, replay if replay is not None else {'request': req[:3000]}, impl[:1500], b[:1500])
        it = self.items[len(self.items) // 2]
        if len(chk.samples) < 7 and not any(s.get('stream') == it[0] for s in chk.samples):
            chk.sample({'stream': it[0], 'request': it[1][:240], 'impl': it[2][:240], 'model_equal': it[2] == model[len(self.items) // 2]}, limit=8)
        self.items = []


def _fail(chk, what, replay):
    if len(chk.failures) < 40:
        chk.fail(what, replay)


def run(chk):
    import logging as pylogging
    from absl import logging as absl_logging
    from note_seq import chord_symbols_lib as csl, sequences_lib as sl, melodies_lib as ml, chords_lib as cl, lead_sheets_lib as lsl
    absl_logging.set_verbosity(absl_logging.ERROR)
    pylogging.getLogger().setLevel(pylogging.ERROR)
    generate(chk)
    chk.prove(MODULES, THEOREMS, [EXE], extra_trusted=[
        'regex layer of chord_symbols_lib (_split_chord_symbol, _parse_pitch_class, the _MODIFICATION_REGEX loop): modelled, not verified; '
        'the model takes the real splitter\'s answer as input and re-splitting of every transposed figure is compared on every run',
        'harness/c10.py transliteration of _clamp_transpose (gen/translit.py + min/abs/if-else-tail) and table extraction',
        'protobuf CopyFrom / repeated-field semantics; numpy bincount/argmax (get_major_key); CPython dict insertion order',
        'rne53 as a model of IEEE-754 binary64 (Melody.squash centre arithmetic; all values are half-integers)'])
    chk.rule = ('(1) NoteSequences (NSGen + pitched/drum notes forced onto min-k-1..min-k+1 / max-k-1..max-k+1, key signatures, chord / N.C. / '
                'other annotations, one in ten with an uninterpretable chord) x k in -127..127 x random allowed ranges (also empty, single pitch, beyond '
                'MIDI) x transpose_chords; (2) chord grammar: 35 root spellings x every kind abbreviation of the table x %d modification strings x '
                '%d basses x k in -12..12 (thorough: whole product; quick: seeded sample) plus wild spellings / k up to +-127; '
                '_transpose_pitch_class on 7 steps x alter -6..6 x k; (3) melodies x (min,max) x k, squash, get_major_key; '
                '(4) ChordProgression / LeadSheet transpose and squash on progressions built as walks whose steps are: held, N.C., '
                'k above / below the previous chord (the event EQUALS the transposed figure of its predecessor: tone ladders, cycle of '
                'fifths), k above any earlier chord, respelled, an earlier figure again, fresh, unknown symbol; the call back by -k goes '
                'through the model too; (5) _clamp_transpose and augment_note_sequence with the random module replaced; every public entry '
                'point also as the caller can reach it: transpose_note_sequence in_place=True and with the default range, '
                'Melody/LeadSheet.transpose with the default range, note_seq.transpose_chord_symbol; (6) histories over objects: '
                'copy.deepcopy of a LeadSheet / Melody / ChordProgression, then transpose or squash of the copy, of the original, of both, '
                'there and back, copies of copies, random mixes - all objects compared with the model heap after every operation; '
                '40%% with a second object built from the SAME Python list(s) (ChordProgression + LeadSheet chords, two progressions, '
                'Melody + LeadSheet melody ...): one transposed / squashed, then the other, there and back, with copies - the '
                'caller\'s lists and all objects compared with the model world (Model/C10World.lean) after every construction and '
                'operation; every constructor call of the other streams is handed a caller\'s list that must survive unchanged. '
                'non-trivial = distinct request answered by the model (not bad-op)'
                % (len(MODS), len(BASSES)))
    kinds = list(csl._CHORD_KINDS_BY_ABBREV)
    B = Batch(chk)
    cache = SymCache(csl)

    # ---- committed corpus first (replay objects; oracle on the real code, and the model where a request exists)
    for name, obj in corpus_cases(PID):
        obj = obj.get('input', obj)
        rs = oracle_obj(obj)
        chk.count('corpus', name, rs is not None, obj.get('kind', '?'))
        for r in rs or []:
            _fail(chk, r, obj)
        if obj.get('kind') == 'tns':
            ns = nswire.decode(obj['sequence'])
            a = (obj['k'], obj['min'], obj['max'], obj['transpose_chords'])
            B.add('corpus', tns_request(csl, ns, *a), tns_impl(sl, ns, *a, obj.get('defaults', False), obj.get('in_place', False)),
                  'm:' + name, 'tns-model', replay=obj)
        elif obj.get('kind') == 'cp':
            st, out = run_cp(cl, csl, obj['figures'], obj['k'])
            B.add('corpus', cp_request(csl, obj['figures'], obj['k']), '%s %s' % (st, wl(hx(f) for f in out)), 'm:' + name, 'cp-model', replay=obj)
        elif obj.get('kind') == 'ls':
            st, _, ev2, ch2 = run_ls(ml, cl, lsl, csl, obj['events'], obj['figures'], 'ls', tuple(obj['args']), obj.get('defaults', False))
            B.add('corpus', ls_request(csl, obj['events'], obj['figures'], *obj['args']), '%s %s %s' % (st, wl(ev2), wl(hx(f) for f in ch2)),
                  'm:' + name, 'ls-model', replay=obj)
        elif obj.get('kind') == 'sym' and cache.get(obj['figure'])[0] is not None:
            ks = [obj['k']] if 'k' in obj else obj['ks']
            B.add('corpus', sym_request(cache.get(obj['figure'])[0], ks), sym_impl(csl, cache, obj['figure'], ks)[0], 'm:' + name, 'sym-model', replay=obj)
        elif obj.get('kind') == 'hist':
            _, first, trace = run_hist(ml, cl, lsl, csl, obj['objects'], obj['ops'])
            B.add('corpus', hist_request(csl, obj['objects'], obj['ops'], first, trace), hist_show(trace), 'm:' + name, 'hist-model', replay=obj)
            if all(r != 'no-object' for r, _ in trace) and any('src' in o for o in obj['objects']):
                _, _, _, snaps = run_hist_full(ml, cl, lsl, csl, obj['objects'], obj['ops'])
                B.add('corpus', world_request(csl, obj['objects'], obj['ops'], first, trace)[0],
                      world_show(obj['objects'], trace, snaps, run_hist_full.build_trace), 'w:' + name, 'world-model', replay=obj)
        elif obj.get('kind') == 'mel':
            B.add('corpus', 'mel %d %d %d %s' % (obj['k'], obj['min'], obj['max'], wl(obj['events'])),
                  'ok ' + wl(run_melody(ml, obj['events'], obj['k'], obj['min'], obj['max'], obj.get('defaults', False))), 'm:' + name, 'mel-model', replay=obj)
    B.flush()

    # ---- (2a) _transpose_pitch_class directly
    krange = range(-150, 151) if chk.thorough else range(-26, 27)
    for step in STEPS:
        for alter in range(-6, 7):
            for k in krange:
                s2, a2 = csl._transpose_pitch_class(step, alter, k)
                txt = csl._pitch_class_to_string(s2, a2)
                back = csl._parse_pitch_class(txt)
                impl = 'ok %s %d %d %s %s' % (pc_tokens((s2, a2)), csl._pitch_class_to_midi(step, alter),
                                              csl._pitch_class_to_midi(s2, a2), hx(txt), pc_tokens(back))
                B.add('pitch_class', 'pc %s %d' % (pc_tokens((step, alter)), k), impl, (step, alter, k),
                      ['alter:' + ('sharp' if alter > 0 else 'flat' if alter < 0 else 'natural'), 'result:' + ('sharp' if a2 > 0 else 'flat' if a2 < 0 else 'natural')])
                r = oracle_pc(csl, step, alter, k)
                if r:
                    _fail(chk, r, {'kind': 'pc', 'step': step, 'alter': alter, 'k': k})
    B.flush()

    # ---- (2b) the chord grammar through the real string functions and the structured model
    rng = chk.subrng('grammar')

    def do_figure(fig, ks, tag):
        st, v0 = cache.get(fig)
        if st is None:
            chk.count('chord_grammar', fig, False, 'unsplittable-figure')
            return
        impl, fails = sym_impl(csl, cache, fig, ks)
        hist = [tag, 'pitches:' + ('error' if isinstance(v0[3], str) else 'ok'), 'bass:' + ('slash' if st['bass'] else 'none')]
        if ''.join(st['parts']) != fig:
            hist.append('split-drops-trailing-newline')
        B.add('chord_grammar', sym_request(st, ks), impl, fig, hist, replay={'kind': 'sym', 'figure': fig, 'ks': list(ks)})
        chk.stream('chord_grammar')['evaluations'] += len(ks) - 1
        for k, r in fails:
            _fail(chk, r, {'kind': 'sym', 'figure': fig, 'k': k})

    full_ks = list(range(-12, 13))
    if chk.thorough:
        for kind in kinds:
            for mod in MODS:
                cache.clear()
                for root in ROOTS:
                    for bass in BASSES:
                        do_figure(root + kind + mod + bass, full_ks, 'grammar')
        chk.exhaustive = True
    else:
        for kind in kinds:            # every kind abbreviation at least a few times
            for _ in range(6):
                do_figure(rng.choice(ROOTS) + kind + rng.choice(MODS) + rng.choice(BASSES), sorted(set(rng.sample(full_ks, 5)) | {12}), 'grammar')
        for root in ROOTS:            # every root spelling with every amount
            do_figure(root + rng.choice(kinds) + rng.choice(MODS) + rng.choice(BASSES), full_ks, 'grammar')
        for _ in range(1500):
            do_figure(rng.choice(ROOTS) + rng.choice(kinds) + rng.choice(MODS) + rng.choice(BASSES), sorted(set(rng.sample(full_ks, 5))), 'grammar')
    cache.clear()
    for _ in range(chk.n(800, 20000)):
        do_figure(gen_figure(rng, kinds), sorted({gen_k(rng) for _ in range(4)}), 'wild')
    for fig in ODD_VALID:
        do_figure(fig, full_ks, 'wild')
    B.flush()
    cache.clear()

    # ---- (1) transpose_note_sequence: in_place=False with an explicit range; every third input also through
    #      in_place=True (on a private copy) and, when the range is the MIDI range, through the default arguments
    from note_seq import constants as K
    rng = chk.subrng('tns')
    for i in range(chk.n(1200, 30000)):
        ns, k, mn, mx, tc, hist = gen_tns(rng, kinds, csl)
        req = tns_request(csl, ns, k, mn, mx, tc)
        before = _ser(ns)
        variants = [(False, False)]
        if i % 3 == 0:
            variants.append((False, True))
        if (mn, mx) == (K.MIN_MIDI_PITCH, K.MAX_MIDI_PITCH):
            variants.append((True, i % 2 == 0))
        for dflt, inpl in variants:
            impl = tns_impl(sl, ns, k, mn, mx, tc, dflt, inpl)
            h = set(hist)
            h.add('result:' + ' '.join(impl.split()[:2]) if impl.startswith('err') else 'result:ok')
            if impl.startswith('ok') and int(impl.split()[1]) > 0:
                h.add('deleted>0')
            replay = {'kind': 'tns', 'k': k, 'min': mn, 'max': mx, 'transpose_chords': tc, 'sequence': nswire.encode(ns)}
            if dflt:
                replay['defaults'] = True
            if inpl:
                replay['in_place'] = True
            stream = 'transpose_note_sequence' + ('_default_range' if dflt else '') + ('_in_place' if inpl else '')
            B.add(stream, req, impl, req[:3000], sorted(h), replay=replay)
            r = oracle_tns(sl, csl, ns, k, mn, mx, tc, dflt, inpl)
            if not r and _ser(ns) != before:
                r = 'transpose_note_sequence modified a sequence it was not given (in_place=%s)' % inpl
            chk.count('oracle', None)
            if r:
                _fail(chk, r, replay)
        # operation sequences (transpose_ns_compose): when the first step deletes nothing, transposing its RESULT by k2 is
        # one transposition by k + k2 - sequence (byte for byte, transpose_chords=False) and deleted count; each real step
        # is also compared with the model, and the intermediate result must not change while it is transposed again
        if i % 2 == 0:
            try:
                mid, d1, _ = call_tns(sl, ns, k, mn, mx, False)
            except Exception:  # pylint: disable=broad-except
                mid, d1 = None, None
            if mid is not None and d1 == 0:
                k2 = gen_k(rng)
                mid_before = _ser(mid)
                B.add('transpose_twice', tns_request(csl, mid, k2, mn, mx, False), tns_impl(sl, mid, k2, mn, mx, False),
                      'second step', sorted(set(hist) | {'compose:second-step'}),
                      replay={'kind': 'tns', 'k': k2, 'min': mn, 'max': mx, 'transpose_chords': False, 'sequence': nswire.encode(mid)})
                r = None
                try:
                    two, d2, _ = call_tns(sl, mid, k2, mn, mx, False)
                    one, d, _ = call_tns(sl, ns, k + k2, mn, mx, False)
                    if _ser(mid) != mid_before:
                        r = 'the result of the first transposition was modified when it was transposed again'
                    elif _ser(ns) != before:
                        r = 'the original sequence changed during the second transposition'
                    elif (d2, _ser(two)) != (d, _ser(one)):
                        r = ('transposing by %d and then by %d (nothing deleted by the first step) differs from transposing by %d: '
                             'deleted %d vs %d, notes %s vs %s' % (k, k2, k + k2, d2, d, [(n.pitch, n.is_drum) for n in two.notes][:8],
                                                                  [(n.pitch, n.is_drum) for n in one.notes][:8]))
                except Exception as e:  # pylint: disable=broad-except
                    r = 'transposing the result of a transposition raised %s: %s' % (type(e).__name__, e)
                chk.count('oracle', None)
                if r:
                    _fail(chk, r, {'kind': 'tns2', 'k': k, 'k2': k2, 'min': mn, 'max': mx, 'sequence': nswire.encode(ns)})
    B.flush()

    # ---- (3) melodies
    rng = chk.subrng('melody')
    for i in range(chk.n(2500, 60000)):
        k = gen_k(rng)
        raw = gen_events(rng, k)
        mn, mx = gen_range(rng)
        dflt = (mn, mx) == (0, 128)                    # then the range is left to the default arguments
        hist = ['range:' + ('default-arguments' if dflt else 'valid' if mx - mn >= 12 else 'narrow'), 'min:' + ('negative' if mn < 0 else 'nonneg')]
        edges = [t - k for t in (mn - 1, mn, mn + 1, mx - 1, mx, mx + 1) if 0 <= t - k <= 127]
        if raw and edges and rng.random() < 0.5:       # pitches that land exactly on / next to the range limits
            for _ in range(rng.choice([1, 2])):
                raw[rng.randrange(len(raw))] = rng.choice(edges)
            hist.append('event-at-range-edge')
        ev = [int(e) for e in ml.Melody(raw)]          # the constructor turns leading note-offs into no-events
        out = run_melody(ml, ev, k, mn, mx, dflt)
        if any(a >= 0 and b != a + k for a, b in zip(ev, out)):
            hist.append('folded')
        if any(b >= 0 and b == o and a != b for a, b, o in zip(ev, ev[1:], out)):
            hist.append('event=transposed-predecessor')
        rp = {'kind': 'mel', 'events': ev, 'k': k, 'min': mn, 'max': mx}
        if dflt:
            rp['defaults'] = True
        B.add('melody_transpose', 'mel %d %d %d %s' % (k, mn, mx, wl(ev)), 'ok ' + wl(out), (k, mn, mx, tuple(ev)), hist, replay=rp)
        r = oracle_mel(ml, ev, k, mn, mx, dflt)
        chk.count('oracle', None)
        if r:
            _fail(chk, r, rp)
        if i % 2 == 0:
            key = rng.choice([None, None] + list(range(12)))
            a, out = run_squash(ml, ev, mn, mx, key)
            B.add('melody_squash', 'squash %d %d %s %s' % (mn, mx, 'N' if key is None else key, wl(ev)), 'ok %d %s' % (a, wl(out)),
                  (mn, mx, key, tuple(ev)), ['key:' + ('none' if key is None else 'given'), 'amount:' + ('zero' if a == 0 else 'nonzero')])
            B.add('major_key', 'key ' + wl(ev), 'ok %d' % int(ml.Melody(list(ev)).get_major_key()), tuple(ev), 'key')
            r = oracle_squash(ml, ev, mn, mx, key)
            if r:
                _fail(chk, r, {'kind': 'squash', 'events': ev, 'min': mn, 'max': mx, 'key': key})
    B.flush()

    # ---- (4) ChordProgression / LeadSheet: every event on its own — progressions in which an event equals the
    #      transposed figure of its predecessor / of an earlier event, held chords, N.C., unknown symbols; the
    #      forward call and the call back by -k both go through the model
    rng = chk.subrng('chords')
    for i in range(chk.n(2500, 40000)):
        n = rng.choice([0, 1, 2, 3, 4, 6, 8, 12])
        k = gen_k(rng)
        if rng.random() < 0.3:
            k = rng.choice([2, 7, 5, -2, 1, -1, 3, 4, 9, 14, -5, 19])      # everyday intervals (tones, fifths, fourths)
        if i % 10 < 7:
            figs, tags = gen_progression(rng, csl, kinds, n, k)
        else:
            figs, tags = gen_figs(rng, kinds, n), {'unrelated-figures'}
        st, out = run_cp(cl, csl, figs, k)
        hist = ['status:' + st] + (['has-N.C.'] if 'N.C.' in figs else []) + sorted('step:' + t for t in tags)
        hist += sorted(coincidence_tags(figs, out))
        rp = {'kind': 'cp', 'figures': figs, 'k': k}
        B.add('chord_progression', cp_request(csl, figs, k), '%s %s' % (st, wl(hx(f) for f in out)), (k, tuple(figs)), hist, replay=rp)
        if st == 'ok' and figs:
            st2, back = run_cp(cl, csl, out, -k)
            B.add('chord_progression_back', cp_request(csl, out, -k), '%s %s' % (st2, wl(hx(f) for f in back)), (-k, tuple(out)),
                  ['status:' + st2] + sorted(coincidence_tags(out, back)), replay={'kind': 'cp', 'figures': out, 'k': -k})
        r = oracle_cp(cl, csl, figs, k)
        chk.count('oracle', None)
        if r:
            _fail(chk, r, rp)
        if i % 2 == 0:
            mn, mx = gen_range(rng)
            dflt = (mn, mx) == (0, 128)
            raw = (gen_events(rng, k) + [rng.choice([-2, -1, rng.randrange(128)]) for _ in range(n)])[:n]
            ev = [int(e) for e in ml.Melody(raw)]          # as long as the progression (LeadSheet demands it)
            if i % 4 == 0:
                op, args = 'ls', (k, mn, mx)
                req = ls_request(csl, ev, figs, k, mn, mx)
            else:
                key = rng.randrange(12)
                op, args, dflt = 'lsq', (mn, mx, key), False
                if i % 10 < 7:        # a progression whose steps are the amount this squash is going to choose
                    try:
                        a = int(ml.Melody(list(ev)).squash(mn, mx, key))
                    except Exception:  # pylint: disable=broad-except
                        a = k
                    figs = gen_progression(rng, csl, kinds, n, a)[0]
                req = 'lsq %d %d %d %s %s %s' % (mn, mx, key, table_tokens(csl, [f for f in figs if f != 'N.C.']), wl(ev), wl(hx(f) for f in figs))
            st, amount, ev2, ch2 = run_ls(ml, cl, lsl, csl, ev, figs, op, args, dflt)
            impl = '%s %s%s %s' % (st, ('%s ' % ('-' if amount is None else amount)) if op == 'lsq' else '', wl(ev2), wl(hx(f) for f in ch2))
            rp = {'kind': op, 'events': ev, 'figures': figs, 'args': list(args)}
            if dflt:
                rp['defaults'] = True
            B.add('lead_sheet', req, impl, (op, args, dflt, tuple(ev), tuple(figs)),
                  [op + ':' + st] + (['default-arguments'] if dflt else []) + sorted(op + ':' + t for t in (coincidence_tags(figs, ch2) if st == 'ok' else [])), replay=rp)
            r = oracle_ls(ml, cl, lsl, csl, ev, figs, op, args, dflt)
            if r:
                _fail(chk, r, rp)
    B.flush()

    # ---- (4b) histories over OBJECTS: deepcopy, then transpose / squash one of the two objects (or both); every
    #      object is compared with the model's heap after every operation and judged by the oracle
    rng = chk.subrng('histories')
    for i in range(chk.n(700, 15000)):
        objects, ops, tags = gen_hist(rng, csl, ml, kinds)
        rp = {'kind': 'hist', 'objects': objects, 'ops': ops}
        types, first, trace = run_hist(ml, cl, lsl, csl, objects, ops)
        res = sorted({'result:' + r.split(':')[0] + (':' + r.split(':')[1] if r.startswith('err') else '') for r, _ in trace})
        B.add('object_histories', hist_request(csl, objects, ops, first, trace), hist_show(trace), repr(rp), tags + res, replay=rp)
        if all(r != 'no-object' for r, _ in trace):
            _, _, _, snaps = run_hist_full(ml, cl, lsl, csl, objects, ops)
            B.add('object_histories_with_caller_lists', world_request(csl, objects, ops, first, trace)[0],
                  world_show(objects, trace, snaps, run_hist_full.build_trace), 'w' + repr(rp), tags + res, replay=rp)
        r = oracle_hist(ml, cl, lsl, csl, objects, ops)
        chk.count('oracle', None)
        if r:
            _fail(chk, r, rp)
    B.flush()

    # ---- the package-level export is the function all of the above went through
    import note_seq
    same = getattr(note_seq, 'transpose_chord_symbol', None) is csl.transpose_chord_symbol
    chk.count('exported_names', 'note_seq.transpose_chord_symbol', same, 'same-object' if same else 'other-object')
    if not same:
        for fig in ODD_VALID + [r + kd for r in ROOTS for kd in ('', 'm7', 'maj7/E')]:
            for k in (1, 2, 7, -3, 12):
                try:
                    t = note_seq.transpose_chord_symbol(fig, k)
                    r = oracle_values(fig, k, values(csl, fig), t, values(csl, t))
                except Exception as e:  # pylint: disable=broad-except
                    r = 'note_seq.transpose_chord_symbol raised %s: %s' % (type(e).__name__, e)
                if r:
                    _fail(chk, 'note_seq.transpose_chord_symbol (not chord_symbols_lib\'s): ' + r, {'kind': 'sym', 'figure': fig, 'k': k, 'exported': True})

    # ---- (5) _clamp_transpose, augment_note_sequence
    rng = chk.subrng('augment')
    for i in range(chk.n(3000, 40000)):
        mn, mx = sorted((rng.randrange(128), rng.randrange(128)))
        if rng.random() < 0.8:
            lo, hi = sorted((rng.randint(mn, mx), rng.randint(mn, mx)))
        else:
            lo, hi = sorted((rng.randrange(128), rng.randrange(128)))
        a = rng.choice([0, 1, -1, mx - hi, mx - hi + 1, -(lo - mn), -(lo - mn) - 1, rng.randint(-140, 140)])
        B.add('clamp_transpose', 'clamp %d %d %d %d %d' % (a, lo, hi, mn, mx), 'ok %d' % sl._clamp_transpose(a, lo, hi, mn, mx),
              (a, lo, hi, mn, mx), ['in-bounds' if mn <= lo and hi <= mx else 'out-of-bounds', 'sign:' + ('neg' if a < 0 else 'nonneg')])
        r = oracle_clamp(sl, a, lo, hi, mn, mx)
        if r:
            _fail(chk, r, {'kind': 'clamp', 'args': [a, lo, hi, mn, mx]})
    for i in range(chk.n(500, 10000)):
        ns = nswire.NSGen(rng, max_notes=rng.choice([0, 1, 4, 10])).make(texts=False)
        r = rng.random()
        if r < 0.6:
            mn, mx = sorted((rng.randrange(0, 60), rng.randrange(60, 128)))
            for n in ns.notes:
                n.pitch = rng.choice([mn, mx, rng.randint(mn, mx), rng.randint(mn, mx)])
        elif r < 0.9:
            mn, mx = sorted((rng.randrange(128), rng.randrange(128)))
        else:
            mx, mn = sorted((rng.randrange(128), rng.randrange(128)))
            mn += 1
        if rng.random() < 0.3:
            x = ns.text_annotations.add()
            x.annotation_type, x.text = 1, rng.choice(['C', 'N.C.', 'F#m7/E', 'H'])
        if rng.random() < 0.05:
            ns.quantization_info.steps_per_quarter = 4
        t1, t2 = rng.randint(-30, 30), rng.randint(-30, 30)
        if rng.random() < 0.9:
            t1, t2 = min(t1, t2), max(t1, t2)
        delete, mode = rng.random() < 0.3, rng.randrange(3)
        st, rg, out = run_aug(sl, ns, t1, t2, mn, mx, delete, mode)
        impl = st if out is None else 'ok %s %s' % ('%d %d' % rg if rg else '- -', nswire.encode(out))
        texts = [ta.text for ta in ns.text_annotations if ta.annotation_type == 1]
        req = 'aug %d %d %d %d %d %d %s %s' % (t1, t2, mn, mx, 1 if delete else 0, mode, table_tokens(csl, texts), nswire.encode(ns))
        rp = {'kind': 'aug', 'args': [t1, t2, mn, mx, delete, mode], 'sequence': nswire.encode(ns)}
        B.add('augment', req, impl, req[:3000], ['delete' if delete else 'clamp', 'result:' + ' '.join(impl.split()[:2]) if impl.startswith('err') else 'result:ok'], replay=rp)
        r = oracle_aug(sl, csl, ns, t1, t2, mn, mx, delete, mode)
        if r:
            _fail(chk, r, rp)
    B.flush()


# ----------------------------------------------------------------------------- replay
def oracle_obj(obj, verbose=False):
    """run the oracle for one replay / corpus object against the real code; list of failures (None = unknown kind)"""
    from note_seq import chord_symbols_lib as csl, sequences_lib as sl, melodies_lib as ml, chords_lib as cl, lead_sheets_lib as lsl
    kind = obj.get('kind')
    say = print if verbose else (lambda *a: None)
    if kind == 'pc':
        say('  _transpose_pitch_class ->', _val(csl, lambda f: csl._transpose_pitch_class(obj['step'], obj['alter'], obj['k']), None))
        rs = [oracle_pc(csl, obj['step'], obj['alter'], obj['k'])]
    elif kind == 'sym' and obj.get('exported'):
        import note_seq
        fig, k = obj['figure'], obj['k']
        try:
            t = note_seq.transpose_chord_symbol(fig, k)
            say('  note_seq.transpose_chord_symbol(%r, %d) -> %r' % (fig, k, t))
            rs = [oracle_values(fig, k, values(csl, fig), t, values(csl, t))]
        except Exception as e:  # pylint: disable=broad-except
            rs = ['note_seq.transpose_chord_symbol raised %s: %s' % (type(e).__name__, e)]
    elif kind == 'sym':
        rs = []
        for k in ([obj['k']] if 'k' in obj else obj['ks']):
            say('  transpose_chord_symbol(%r, %d) -> %r' % (obj['figure'], k, _val(csl, lambda f: csl.transpose_chord_symbol(f, k), obj['figure'])))
            rs.append(oracle_sym(csl, obj['figure'], k))
    elif kind == 'tns':
        ns = nswire.decode(obj['sequence'])
        v = (obj.get('defaults', False), obj.get('in_place', False))
        say('  (default range: %s, in_place: %s) ->' % v, tns_impl(sl, ns, obj['k'], obj['min'], obj['max'], obj['transpose_chords'], *v)[:400])
        rs = [oracle_tns(sl, csl, ns, obj['k'], obj['min'], obj['max'], obj['transpose_chords'], *v)]
    elif kind == 'tns2':
        ns = nswire.decode(obj['sequence'])
        mid, d1, _ = call_tns(sl, ns, obj['k'], obj['min'], obj['max'], False)
        two, d2, _ = call_tns(sl, mid, obj['k2'], obj['min'], obj['max'], False)
        one, d, _ = call_tns(sl, ns, obj['k'] + obj['k2'], obj['min'], obj['max'], False)
        say('  two steps: deleted %d then %d, pitches %s; one step: deleted %d, pitches %s' % (
            d1, d2, [n.pitch for n in two.notes][:12], d, [n.pitch for n in one.notes][:12]))
        rs = ['transposing by %d then %d differs from transposing by %d' % (obj['k'], obj['k2'], obj['k'] + obj['k2'])
              if d1 == 0 and (d2, _ser(two)) != (d, _ser(one)) else None]
    elif kind == 'mel':
        d = obj.get('defaults', False)
        rs = [oracle_mel(ml, obj['events'], obj['k'], obj['min'], obj['max'], d)]
        say('  ->', _val(csl, lambda f: run_melody(ml, obj['events'], obj['k'], obj['min'], obj['max'], d), None))
    elif kind == 'squash':
        rs = [oracle_squash(ml, obj['events'], obj['min'], obj['max'], obj['key'])]
        say('  ->', _val(csl, lambda f: run_squash(ml, obj['events'], obj['min'], obj['max'], obj['key']), None))
    elif kind == 'cp':
        rs = [oracle_cp(cl, csl, obj['figures'], obj['k'])]
        say('  ->', _val(csl, lambda f: run_cp(cl, csl, obj['figures'], obj['k']), None))
    elif kind in ('ls', 'lsq'):
        d = obj.get('defaults', False)
        rs = [oracle_ls(ml, cl, lsl, csl, obj['events'], obj['figures'], kind, tuple(obj['args']), d)]
        say('  ->', _val(csl, lambda f: run_ls(ml, cl, lsl, csl, obj['events'], obj['figures'], kind, tuple(obj['args']), d), None))
    elif kind == 'hist':
        rs = [oracle_hist(ml, cl, lsl, csl, obj['objects'], obj['ops'])]
        try:
            _, first, trace = run_hist(ml, cl, lsl, csl, obj['objects'], obj['ops'])
            say('  objects (melody events, chord figures):', first)
            for op, (res, states) in zip(obj['ops'], trace):
                say('  %s -> %s:' % (' '.join(map(str, op)), res), states)
        except Exception as e:  # pylint: disable=broad-except
            say('  the history raised %s: %s' % (type(e).__name__, e))
    elif kind == 'clamp':
        rs = [oracle_clamp(sl, *obj['args'])]
        say('  ->', _val(csl, lambda f: sl._clamp_transpose(*obj['args']), None))
    elif kind == 'aug':
        rs = [oracle_aug(sl, csl, nswire.decode(obj['sequence']), *obj['args'])]
    else:
        return None
    return [r for r in rs if r]


def replay(chk, obj):
    print('replay C10:', {k: (v if k != 'sequence' else v[:200] + ' …') for k, v in obj.items()})
    rs = oracle_obj(obj, verbose=True)
    if rs is None:
        print('not a failing-input replay (kind=%r): nothing to run against the real code' % obj.get('kind'))
        return 0
    for r in rs:
        print('PROPERTY FAILS: %s' % r)
    if not rs:
        print('property holds on this input')
    return 1 if rs else 0
