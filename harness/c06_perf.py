"""C06, performance half — Performance / MetricPerformance / NotePerformance:
render (to_sequence) -> quantize at the same resolution -> extract again = identity (DESIGN 6.6).

Imported by harness/c06.py (the other half: Melody, DrumTrack, ChordProgression, LeadSheet, Pianoroll).

Correspondence: the same (event list, configuration) through the REAL `to_sequence` ->
`quantize_note_sequence(_absolute)` -> extractor and through the compiled Lean composition (`drv_c06p`):
the rendered NoteSequence (times as exact rationals of the doubles, note order, total_time, tempo, program /
drum flag), the re-extracted events / start step / resolution / bins / max shift, the raised exception class and
the two canonicity flags are compared exactly.
Oracle: the round trip on the implementation itself, for every input that an independent reading of
"canonical = what extraction itself produces" accepts; never uses the model."""
import inspect
import math
import warnings
from fractions import Fraction

from harness import nswire
from harness.common import corpus_cases, rat

PID = 'C06'
MODULES = ['NoteSeqVerif.Props.C06P']
EXE = 'drv_c06p'
THEOREMS = [
    ('NoteSeqVerif.Props.C06P', n) for n in [
        # the property, at full strength, for the three performance types
        'NSV.C06P.roundtrip_Performance', 'NSV.C06P.roundtrip_MetricPerformance', 'NSV.C06P.roundtrip_NotePerformance',
        # canonical = what extraction itself produces
        'NSV.C06P.extract_canonical_Perf', 'NSV.C06P.extract_canonical_NotePerf',
        # strict canonical lists are normal forms (any storage order of the rendered notes); corollaries
        'NSV.C06P.roundtrip_Performance_normal', 'NSV.C06P.roundtrip_MetricPerformance_normal',
        'NSV.C06P.roundtrip_Performance_partial', 'NSV.C06P.roundtrip_MetricPerformance_partial',
        'NSV.C06P.canonicalFull_of_canonical',
    ]
]
TRUSTED = [
    'gen/translit.py (Python->Lean transliteration of the velocity-bin functions, shared with C07/C09)',
    'rne53 as a model of IEEE-754 binary64 arithmetic in to_sequence / quantize_to_step (validated bit-exactly by the '
    'render correspondence; Rounding rne53 is a theorem)',
    'CPython dict insertion order, sorted() stability and tuple ordering; protobuf field access, modelled',
]


# ----------------------------------------------------------------------------- generated constants
def generate(chk):
    """Generated/C06P.lean from the working tree; also refreshes the generated files of the imported models
    (C01 quantizer constants, C07 velocity-bin functions and event-type numbers)."""
    from harness import c01, c07
    c01.generate(chk)
    c07.generate(chk)
    from note_seq import performance_lib as pl, constants

    def dflt(fn, name):
        return inspect.signature(fn).parameters[name].default
    qpm = Fraction(float(dflt(pl.MetricPerformance.to_sequence, 'qpm')))
    txt = ('/-! GENERATED from /repo on every run by harness/c06_perf.py — do not edit. -/\n'
           'namespace NSV.C06P.Gen\n'
           'def STANDARD_PPQ : Int := %d\n' % pl.STANDARD_PPQ
           + 'def DEFAULT_PROGRAM : Int := %d\n' % pl.DEFAULT_PROGRAM
           + 'def DEFAULT_VELOCITY : Int := %d\n' % dflt(pl.Performance.to_sequence, 'velocity')
           + 'def DEFAULT_INSTRUMENT : Int := %d\n' % dflt(pl.Performance.to_sequence, 'instrument')
           + 'def DEFAULT_MAX_SHIFT_STEPS : Int := %d\n' % pl.DEFAULT_MAX_SHIFT_STEPS
           + 'def DEFAULT_MAX_SHIFT_QUARTERS : Int := %d\n' % pl.DEFAULT_MAX_SHIFT_QUARTERS
           + 'def NOTEPERF_MAX_SHIFT_STEPS : Int := %d\n' % dflt(pl.NotePerformance.__init__, 'max_shift_steps')
           + 'def NOTEPERF_MAX_DURATION_STEPS : Int := %d\n' % dflt(pl.NotePerformance.__init__, 'max_duration_steps')
           + 'def METRIC_DEFAULT_QPM : Rat := (%s : Rat)\n' % (
               ('%d' % qpm.numerator) if qpm.denominator == 1 else '%d / %d' % (qpm.numerator, qpm.denominator))
           + 'end NSV.C06P.Gen\n')
    chk.regenerate('NoteSeqVerif/Generated/C06P.lean', txt)
    assert constants.STANDARD_PPQ == pl.STANDARD_PPQ


def _libs():
    warnings.filterwarnings('ignore')
    from note_seq import performance_lib as pl, sequences_lib as sl
    from note_seq.protobuf import music_pb2
    return pl, sl, music_pb2


ON, OFF, SHIFT, VEL, DUR = 1, 2, 3, 4, 5


def tok(x):
    if x is None:
        return '-'
    if isinstance(x, bool):
        return '1' if x else '0'
    return str(int(x))


def wlist(items):
    items = list(items)
    return ' '.join([str(len(items))] + items)


# ----------------------------------------------------------------------------- cases
# a case is a dict:
#  kind 'perf' : S nb ms res(=sps) selfprog selfdrum vel inst prog maxdur filt events=[[type,value]…]
#  kind 'mperf': the same with ms = max_shift_QUARTERS, res = spq, qpm
#  kind 'nperf': S nb ms md res(=sps) selfprog selfdrum inst prog filt events=[[shift,pitch,bin,dur]…]
#               (selfprog/selfdrum are what the constructor derives from the construction sequence: `seed` rows)
def req_line(c):
    k = c['kind']
    if k == 'perf':
        head = [c['S'], c['nb'], c['ms'], c['res'], c['selfprog'], c['selfdrum'], c['vel'], c['inst'], c['prog']]
        return ' '.join(['perf'] + [tok(x) for x in head] + ['-' if c['maxdur'] is None else rat(c['maxdur']), tok(c['filt']),
                                                            wlist('%d %d' % (t, v) for t, v in c['events'])])
    if k == 'mperf':
        head1 = [c['S'], c['nb'], c['ms'], c['res']]
        head2 = [c['selfprog'], c['selfdrum'], c['vel'], c['inst'], c['prog']]
        return ' '.join(['mperf'] + [tok(x) for x in head1] + [rat(c['qpm'])] + [tok(x) for x in head2]
                        + ['-' if c['maxdur'] is None else rat(c['maxdur']), tok(c['filt']),
                           wlist('%d %d' % (t, v) for t, v in c['events'])])
    head = [c['S'], c['nb'], c['ms'], c['md'], c['res'], c['selfprog'], c['selfdrum'], c['inst'], c['prog'], c['filt']]
    return ' '.join(['nperf'] + [tok(x) for x in head] + [wlist('%d %d %d %d' % tuple(t) for t in c['events'])])


def build(c):
    """the Python object holding the case's event list"""
    pl, sl, music_pb2 = _libs()
    PE = pl.PerformanceEvent
    k = c['kind']
    if k == 'perf':
        p = pl.Performance(steps_per_second=c['res'], start_step=c['S'], num_velocity_bins=c['nb'],
                           max_shift_steps=c['ms'], program=c['selfprog'], is_drum=c['selfdrum'])
        for t, v in c['events']:
            p.append(PE(t, v))
        return p
    if k == 'mperf':
        p = pl.MetricPerformance(steps_per_quarter=c['res'], start_step=c['S'], num_velocity_bins=c['nb'],
                                 max_shift_quarters=c['ms'], program=c['selfprog'], is_drum=c['selfdrum'])
        for t, v in c['events']:
            p.append(PE(t, v))
        return p
    # NotePerformance can only be constructed from a quantized sequence: program / is_drum come from it
    seed = music_pb2.NoteSequence()
    seed.quantization_info.steps_per_second = c['res']
    if c['selfdrum'] is not True or c['selfprog'] is not None:
        rows = [(c['selfprog'], False)] if c['selfdrum'] is False and c['selfprog'] is not None else (
            [(1, False), (2, False)] if c['selfdrum'] is False else [(0, True), (0, False)])
        for prog, drum in rows:
            n = seed.notes.add()
            n.pitch, n.velocity, n.quantized_start_step, n.quantized_end_step = 60, 100, c['S'], c['S'] + 1
            n.instrument, n.program, n.is_drum = 77, prog, drum
    p = pl.NotePerformance(seed, num_velocity_bins=c['nb'], instrument=77, start_step=c['S'],
                           max_shift_steps=c['ms'], max_duration_steps=c['md'])
    p.truncate(0)
    for (a, b, cc, d) in c['events']:
        p.append((PE(SHIFT, a), PE(ON, b), PE(VEL, cc), PE(DUR, d)))
    assert (p.program, p.is_drum) == (c['selfprog'], c['selfdrum']), (p.program, p.is_drum, c['selfprog'], c['selfdrum'])
    return p


def render(c, obj):
    k = c['kind']
    if k == 'perf':
        return obj.to_sequence(velocity=c['vel'], instrument=c['inst'], program=c['prog'], max_note_duration=c['maxdur'])
    if k == 'mperf':
        return obj.to_sequence(velocity=c['vel'], instrument=c['inst'], program=c['prog'], max_note_duration=c['maxdur'],
                               qpm=c['qpm'])
    return obj.to_sequence(instrument=c['inst'], program=c['prog'])


def requantize_extract(c, ns):
    pl, sl, _ = _libs()
    k = c['kind']
    if k == 'perf':
        q = sl.quantize_note_sequence_absolute(ns, c['res'])
        return pl.Performance(quantized_sequence=q, start_step=c['S'], num_velocity_bins=c['nb'],
                              max_shift_steps=c['ms'], instrument=c['filt'])
    if k == 'mperf':
        q = sl.quantize_note_sequence(ns, c['res'])
        return pl.MetricPerformance(quantized_sequence=q, start_step=c['S'], num_velocity_bins=c['nb'],
                                    max_shift_quarters=c['ms'], instrument=c['filt'])
    q = sl.quantize_note_sequence_absolute(ns, c['res'])
    return pl.NotePerformance(q, num_velocity_bins=c['nb'], instrument=c['filt'], start_step=c['S'],
                              max_shift_steps=c['ms'], max_duration_steps=c['md'])


def show_result(c, r):
    if c['kind'] == 'nperf':
        return 'ok %d %d %d %s' % (r.steps_per_second, r.start_step, r._num_velocity_bins,
                                   wlist(' '.join(str(int(e.event_value)) for e in t) for t in r))
    res = r.steps_per_second if c['kind'] == 'perf' else r.steps_per_quarter
    return 'ok %d %d %d %d %s' % (res, r.start_step, r._num_velocity_bins, r.max_shift_steps,
                                  wlist('%d %d' % (e.event_type, e.event_value) for e in r))


def run_impl(c):
    """(render line, round-trip line, re-extracted object or None) from the real code"""
    try:
        obj = build(c)
        ns = render(c, obj)
    except Exception as e:  # pylint: disable=broad-except
        return 'err ' + type(e).__name__, 'err ' + type(e).__name__, None
    line1 = 'ok ' + nswire.encode(ns)
    try:
        r = requantize_extract(c, ns)
    except Exception as e:  # pylint: disable=broad-except
        return line1, 'err ' + type(e).__name__, None
    return line1, show_result(c, r), r


# ----------------------------------------------------------------------------- canonical (independent reading)
def max_shift_steps(c):
    return c['ms'] * c['res'] if c['kind'] == 'mperf' else c['ms']


def is_canonical_perf(events, nb, ms, strict):
    """'what extraction itself produces', read off `_from_quantized_sequence`:
    notes sorted by (start, pitch); on/off events sorted by (step, note, on-before-off); between two note events
    the distance in shifts of `ms` followed by the remainder; a VELOCITY directly before a NOTE_ON whose bin differs
    from the current one; nothing after the last note event.  Notes are recovered by FIFO matching per pitch (the
    reading of `_to_sequence`).  strict: no two notes of one pitch start on one step."""
    if ms < 1:
        return False
    n = len(events)
    if any(t == DUR for t, _ in events):
        return False
    if any(t in (ON, OFF) and not 0 <= v <= 127 for t, v in events):
        return False
    if n and events[-1][0] != OFF:
        return False
    # layout between note events
    i, cur_bin, step = 0, 0, 0
    notes_on = []        # (step, pitch, bin) per NOTE_ON
    stream = []          # (step, is_off, pitch, on-index or None)
    while i < n:
        shifts = []
        while i < n and events[i][0] == SHIFT:
            shifts.append(events[i][1])
            i += 1
        if shifts:
            if any(not 1 <= s <= ms for s in shifts) or any(s != ms for s in shifts[:-1]):
                return False
            step += sum(shifts)
        if i >= n:
            return False                       # trailing shifts
        t, v = events[i]
        if t == VEL:
            if nb == 0 or not 1 <= v <= 127 or v == cur_bin:
                return False
            if i + 1 >= n or events[i + 1][0] != ON:
                return False
            cur_bin = v
            i += 1
            t, v = events[i]
        if t == ON:
            if nb and cur_bin == 0:
                return False
            stream.append((step, False, v, len(notes_on)))
            notes_on.append((step, v, cur_bin))
        else:
            stream.append((step, True, v, None))
        i += 1
    # FIFO matching
    open_by_pitch = {}
    ann = []
    for (st, is_off, pitch, idx) in stream:
        if not is_off:
            open_by_pitch.setdefault(pitch, []).append(idx)
            ann.append((st, idx, False))
        else:
            q = open_by_pitch.get(pitch)
            if not q:
                return False
            j = q.pop(0)
            if notes_on[j][0] >= st:
                return False                   # zero-length note
            ann.append((st, j, True))
    if any(open_by_pitch.values()):
        return False
    # sorted_notes order = NOTE_ON order
    keys = [(s, p) for (s, p, _) in notes_on]
    for a, b in zip(keys, keys[1:]):
        if a > b or (strict and a == b):
            return False
    # note_events order
    for a, b in zip(ann, ann[1:]):
        if not a < b:
            return False
    return True


def is_canonical_nperf(tuples, ms, md):
    prev = None
    for (sh, p, b, d) in tuples:
        if not (0 <= sh <= ms and 0 <= p <= 127 and 1 <= b <= 127 and 1 <= d <= md):
            return False
        if prev is not None and sh == 0 and prev > p:
            return False
        prev = p
    return True


def canon_flags(c):
    if c['kind'] == 'nperf':
        f = is_canonical_nperf(c['events'], c['ms'], c['md'])
        return f, f
    ms = max_shift_steps(c)
    return (is_canonical_perf(c['events'], c['nb'], ms, True), is_canonical_perf(c['events'], c['nb'], ms, False))


def in_quantifier(c):
    """configuration inside the property's quantifier (the oracle demands the identity only there)"""
    if c['S'] < 0 or c['res'] < 1 or not 0 <= c['nb'] <= 127 or c.get('maxdur') is not None:
        return False
    if c['kind'] == 'nperf' and c['nb'] < 1:
        return False
    if c['kind'] == 'mperf' and not 0 < c['qpm'] < 1e6:
        return False
    if c['filt'] is not None and c['filt'] != c['inst']:
        return False
    return max_shift_steps(c) >= 1


def oracle(c, r=None):
    """None = holds / outside the quantifier; else what fails.  The statement: to_sequence, quantize at the same
    resolution, extract again gives exactly the same events, start step and resolution."""
    full = canon_flags(c)[1]
    if not full or not in_quantifier(c):
        return None
    try:
        if r is None:
            r = requantize_extract(c, render(c, build(c)))
    except Exception as e:  # pylint: disable=broad-except
        return 'unexpected %s on a canonical input: %s' % (type(e).__name__, str(e)[:80])
    if c['kind'] == 'nperf':
        got = [tuple(int(e.event_value) for e in t) for t in r]
        want = [tuple(t) for t in c['events']]
        res = r.steps_per_second
    else:
        got = [(e.event_type, e.event_value) for e in r]
        want = [tuple(e) for e in c['events']]
        res = r.steps_per_second if c['kind'] == 'perf' else r.steps_per_quarter
    if got != want:
        k = next((i for i, (a, b) in enumerate(zip(got, want)) if a != b), min(len(got), len(want)))
        return 'events differ after the round trip (%d vs %d events, first difference at %d: got %s want %s)' % (
            len(got), len(want), k, got[k:k + 3], want[k:k + 3])
    if r.start_step != c['S']:
        return 'start_step %d after the round trip, was %d' % (r.start_step, c['S'])
    if res != c['res']:
        return 'resolution %d after the round trip, was %d' % (res, c['res'])
    return None


# ----------------------------------------------------------------------------- generators
SPS = [10, 31, 100, 100, 250]
SPQ = [1, 2, 3, 4, 4, 6, 8, 12, 24]


def awkward_qpm(rng):
    k = rng.random()
    if k < 0.25:
        return float(rng.choice([20, 60, 90, 117, 120, 120, 200, 300]))
    if k < 0.5:
        return rng.uniform(20.0, 300.0)
    if k < 0.65:
        return rng.randrange(60, 900) / 3.0
    if k < 0.8:
        return nswire.nextafter_n(float(rng.choice([20, 60, 120, 240, 300])), rng.choice([-2, -1, 1, 2]))
    if k < 0.9:
        return rng.choice([20.000000000000004, 299.99999999999994, 123.456789, 59.94, 119.88, 100.0 / 3, 77.7, 1e2 / 7 + 20])
    return rng.randrange(200, 3000) / 10.0


def chunks(d, ms):
    out = []
    while d > ms:
        out.append([SHIFT, ms])
        d -= ms
    out.append([SHIFT, d])
    return out


def gen_events(rng, nb, ms, hist, allow_dup=False, busy=None):
    """a canonical event list built directly (not by the extractor): walk forward in time, close some open notes
    (NOTE_OFFs in note order), start some notes (pitch order, VELOCITY on change), shifts chunked maximal-first."""
    evs, open_, step, cur_bin, non, last = [], [], 0, 0, 0, 0
    pool = rng.sample(range(0, 128), rng.choice([1, 2, 3, 5, 8]))
    nsteps = rng.choice([1, 2, 3, 5, 8, 13, 20] if busy is None else [busy])
    big = [ms, ms + 1, 2 * ms, 2 * ms + 1, max(ms - 1, 1), 3 * ms]
    visits = []
    for i in range(nsteps):
        if i > 0 or rng.random() < 0.5:
            d = rng.choice([1, 1, 1, 2, 3, 4, rng.choice(big), rng.randrange(1, 3 * ms + 2)])
            step += min(d, 20000)
        visits.append(step)
    for i, st in enumerate(visits):
        lastvisit = i == len(visits) - 1
        closable = [o for o in open_ if o[2] < st]
        by_pitch = {}
        for o in closable:
            by_pitch.setdefault(o[0], []).append(o)
        closing = []
        for p, lst in by_pitch.items():
            k = len(lst) if lastvisit else rng.choice([0, 1, 1, len(lst)])
            closing += lst[:k]                       # FIFO: the earliest open notes of the pitch
        closing.sort(key=lambda o: o[1])
        ons = []
        if not lastvisit:
            for _ in range(rng.choice([0, 1, 1, 2, 3, 5])):
                ons.append(rng.choice(pool) if rng.random() < 0.8 else rng.randrange(0, 128))
            ons = sorted(ons) if allow_dup else sorted(set(ons))
            if len(ons) != len(set(ons)):
                hist.add('force:two-ons-one-pitch-one-step')
        if not closing and not ons:
            continue
        if st > last:
            ch = chunks(st - last, ms)
            if len(ch) > 1:
                hist.add('gen:split-shift')
            evs += ch
            last = st
        for o in closing:
            evs.append([OFF, o[0]])
            open_.remove(o)
        if len(closing) > 1:
            hist.add('force:several-offs-one-step')
        if closing and ons:
            hist.add('force:offs-and-ons-one-step')
        if closing and any(o[0] in ons for o in closing):
            hist.add('force:abutting-same-pitch')
        for p in ons:
            if any(o[0] == p for o in open_):
                hist.add('force:same-pitch-overlap')
            if nb:
                b = rng.choice([cur_bin or 1, cur_bin or 1, rng.randrange(1, nb + 1), rng.randrange(1, nb + 1), 1, nb])
                if b != cur_bin:
                    evs.append([VEL, b])
                    cur_bin = b
            evs.append([ON, p])
            open_.append((p, non, st))
            non += 1
    # close what is still open (the last visit closed everything closable; notes started there remain)
    while open_:
        d = rng.choice([1, 1, 2, ms, ms + 1])
        evs += chunks(d, ms)
        last += d
        by_pitch = {}
        for o in open_:
            by_pitch.setdefault(o[0], []).append(o)
        closing = []
        for p, lst in by_pitch.items():
            closing += lst[:rng.choice([1, len(lst)])]
        closing.sort(key=lambda o: o[1])
        for o in closing:
            evs.append([OFF, o[0]])
            open_.remove(o)
    return evs


def extractor_events(rng, kind, nb, ms_steps, res, hist):
    """a canonical event list from the REAL extractor run on a random quantized sequence whose start times are
    consistent with its steps"""
    pl, sl, music_pb2 = _libs()
    ns = music_pb2.NoteSequence()
    if kind == 'mperf':
        ns.quantization_info.steps_per_quarter = res
    else:
        ns.quantization_info.steps_per_second = res
    secs = 1.0 / 16
    pool = rng.sample(range(0, 128), rng.choice([1, 2, 4, 8]))
    overlap = rng.random() < 0.3
    occ = {}
    rows = []
    for _ in range(rng.choice([0, 1, 2, 4, 8, 16, 30])):
        p = rng.choice(pool)
        a = rng.choice([0, rng.randrange(0, 40), rng.randrange(0, 400)])
        b = a + rng.choice([1, 1, 2, 4, 16, rng.randrange(1, 120)])
        if not overlap and any(not (b <= c or d <= a) for (c, d) in occ.get(p, [])):
            continue
        occ.setdefault(p, []).append((a, b))
        rows.append((p, a, b, rng.choice([1, 30, 64, 100, 127, rng.randrange(1, 128)])))
    rng.shuffle(rows)
    for (p, a, b, v) in rows:
        n = ns.notes.add()
        n.pitch, n.velocity, n.quantized_start_step, n.quantized_end_step = p, v, a, b
        n.start_time, n.end_time = a * secs, b * secs
    if kind == 'mperf':
        msq = max(1, ms_steps // res)
        r = pl.MetricPerformance(quantized_sequence=ns, num_velocity_bins=nb, max_shift_quarters=msq)
    else:
        r = pl.Performance(quantized_sequence=ns, num_velocity_bins=nb, max_shift_steps=ms_steps)
    hist.add('events:from-real-extractor' + ('(same-pitch overlaps)' if overlap else ''))
    return [[e.event_type, e.event_value] for e in r]


def perturb(rng, evs, nb, ms, hist):
    """one local change that usually leaves the canonical form"""
    evs = [list(e) for e in evs]
    k = rng.randrange(14)
    hist.add('perturb:%d' % k)
    n = len(evs)
    if k == 0 and n >= 2:
        i = rng.randrange(n - 1)
        evs[i], evs[i + 1] = evs[i + 1], evs[i]
    elif k == 1:
        evs.append([SHIFT, rng.choice([1, ms])])
    elif k == 2 and n:
        evs.insert(rng.randrange(n + 1), [SHIFT, 0])
    elif k == 3:
        idx = [i for i, e in enumerate(evs) if e[0] == SHIFT and e[1] >= 2]
        if idx:
            i = rng.choice(idx)
            a = rng.randrange(1, evs[i][1])
            evs[i:i + 1] = [[SHIFT, a], [SHIFT, evs[i][1] - a]]
    elif k == 4:
        idx = [i for i, e in enumerate(evs) if e[0] == VEL]
        if idx:
            del evs[rng.choice(idx)]
        else:
            evs.insert(rng.randrange(n + 1), [VEL, rng.randrange(1, 128)])
    elif k == 5 and n:
        evs.insert(rng.randrange(n + 1), [VEL, rng.randrange(1, max(nb, 1) + 1)])
    elif k == 6:
        idx = [i for i, e in enumerate(evs) if e[0] == OFF]
        if idx:
            del evs[rng.choice(idx)]
    elif k == 7:
        evs.insert(rng.randrange(n + 1), [OFF, rng.choice([e[1] for e in evs if e[0] in (ON, OFF)] or [60])])
    elif k == 8:
        idx = [i for i, e in enumerate(evs) if e[0] == ON]
        if idx:
            i = rng.choice(idx)
            evs.insert(i + 1, [OFF, evs[i][1]])            # zero-length note
    elif k == 9 and n:
        evs.insert(rng.randrange(n + 1), [DUR, rng.randrange(1, 5)])
    elif k == 10:
        idx = [i for i, e in enumerate(evs) if e[0] == SHIFT and e[1] < ms]
        if idx:
            i = rng.choice(idx)
            evs[i][1] += 1                                   # moves everything after by one step: still canonical
    elif k == 11:
        idx = [i for i in range(n - 1) if evs[i][0] == SHIFT and evs[i + 1][0] == SHIFT]
        if idx:
            i = rng.choice(idx)
            evs[i], evs[i + 1] = evs[i + 1], evs[i]         # remainder before the maximal chunk
    elif k == 12:
        idx = [i for i, e in enumerate(evs) if e[0] == ON]
        if idx:
            i = rng.choice(idx)
            evs.insert(i, [ON, evs[i][1]])                   # a second note of the pitch on the same step (left open)
    else:
        idx = [i for i, e in enumerate(evs) if e[0] in (ON, OFF)]
        if idx:
            i = rng.choice(idx)
            evs[i][1] = rng.randrange(0, 128)
    return evs


def gen_perf_case(rng, kind, hist, malformed=False):
    nb = rng.choice([0, 0, 1, 2, 8, 32, 127, rng.randrange(0, 128)])
    if kind == 'perf':
        res = rng.choice(SPS)
        ms = rng.choice([1, 2, 3, 10, 100, 100, 1000, rng.randrange(1, 1001)])
        ms_steps = ms
    else:
        res = rng.choice(SPQ)
        ms = rng.choice([1, 1, 2, 4, 4, 8, rng.randrange(1, 1000 // res + 1)])
        ms_steps = ms * res
    k = rng.random()
    if k < 0.3:
        evs = extractor_events(rng, kind, nb, ms_steps, res, hist)
    else:
        evs = gen_events(rng, nb, ms_steps, hist, allow_dup=rng.random() < 0.25)
        hist.add('events:generated')
    if malformed or rng.random() < 0.2:
        evs = perturb(rng, evs, nb, ms_steps, hist)
        if malformed and rng.random() < 0.4:
            evs = perturb(rng, evs, nb, ms_steps, hist)
    S = rng.choice([0, 0, 0, 1, 16, rng.randrange(0, 200), rng.randrange(0, 100000), 10 ** 6, 12345678])
    if S >= 100000:
        hist.add('force:start-step>=1e5')
    inst = rng.choice([0, 0, 1, 9, rng.randrange(0, 16)])
    c = {'kind': kind, 'S': S, 'nb': nb, 'ms': ms, 'res': res,
         'selfprog': rng.choice([None, None, 0, 5, 40]), 'selfdrum': rng.choice([None, None, False, True]),
         'vel': rng.choice([100, 100, 1, 64, 127]), 'inst': inst, 'prog': rng.choice([None, None, 0, 7]),
         'maxdur': None, 'filt': rng.choice([None, None, inst]), 'events': evs}
    if kind == 'mperf':
        c['qpm'] = awkward_qpm(rng)
    if malformed:
        m = rng.randrange(8)
        hist.add('malformed:%d' % m)
        if m == 0:
            c['maxdur'] = rng.choice([0.0, 0.01, 0.05, 0.1, 0.5, 1.0, 3.0])
        elif m == 1:
            c['filt'] = inst + 1
        elif m == 2:
            c['S'] = -rng.choice([1, 2, 50])
        elif m == 3:
            c['nb'] = 0 if nb else rng.randrange(1, 128)      # VELOCITY events with 0 bins / none with bins
        elif m == 4 and kind == 'perf':
            c['ms'] = max(1, ms - 1)
        elif m == 5:
            c['maxdur'] = rng.choice([1e-9, 1.0 / res, 2.5 / res])
    return c


def gen_nperf_case(rng, hist, malformed=False):
    res = rng.choice(SPS)
    nb = rng.choice([1, 2, 8, 32, 127, rng.randrange(1, 128)])
    ms = rng.choice([1, 5, 100, 1000, 1000])
    md = rng.choice([1, 4, 100, 1000, 1000])
    n = rng.choice([0, 1, 2, 3, 5, 10, 30, 60])
    pool = rng.sample(range(0, 128), rng.choice([1, 2, 4, 8]))
    tuples, prev = [], None
    for i in range(n):
        sh = rng.choice([0, 0, 0, 1, 2, ms, rng.randrange(0, ms + 1)])
        p = rng.choice(pool) if rng.random() < 0.8 else rng.randrange(0, 128)
        if sh == 0 and prev is not None and p < prev:
            if rng.random() < 0.9:
                p = rng.choice([prev, min(127, prev + rng.randrange(0, 5))])
                hist.add('force:same-step-pitch-order')
        if sh == 0 and prev == p:
            hist.add('force:same-step-same-pitch')
        d = rng.choice([1, 1, 2, md, rng.randrange(1, md + 1)])
        tuples.append([sh, p, rng.choice([1, nb, rng.randrange(1, nb + 1)]), d])
        prev = p
    S = rng.choice([0, 0, 1, 16, rng.randrange(0, 200), rng.randrange(0, 100000), 10 ** 6])
    inst = rng.choice([0, 0, 1, 9])
    sp, sd = rng.choice([(None, True), (None, True), (5, False), (None, False), (None, None)])
    c = {'kind': 'nperf', 'S': S, 'nb': nb, 'ms': ms, 'md': md, 'res': res, 'selfprog': sp, 'selfdrum': sd,
         'inst': inst, 'prog': rng.choice([None, None, 3]), 'filt': rng.choice([None, inst, inst]), 'events': tuples}
    if malformed:
        m = rng.randrange(5)
        hist.add('malformed:n%d' % m)
        if m == 0 and tuples:
            rng.choice(tuples)[0] = ms + rng.choice([1, 5])
        elif m == 1 and tuples:
            rng.choice(tuples)[3] = md + rng.choice([1, 5])
        elif m == 2 and len(tuples) > 1:
            i = rng.randrange(1, len(tuples))
            tuples[i][0] = 0
            tuples[i][1] = max(0, tuples[i - 1][1] - rng.randrange(1, 10))
        elif m == 3:
            c['filt'] = inst + 1
        else:
            c['S'] = -rng.choice([1, 7])
    return c


def branches(c, lines, flags):
    h = ['kind:' + c['kind'], 'canonical:%d%d' % (int(flags[0]), int(flags[1]))]
    for name, ln in (('render', lines[0]), ('roundtrip', lines[1])):
        h.append('%s:%s' % (name, ln.split()[1] if ln.startswith('err') else 'ok'))
    if c['kind'] != 'nperf':
        ev = c['events']
        ms = max_shift_steps(c)
        if any(t == SHIFT and v == ms for t, v in ev):
            h.append('perf:max-shift-chunk')
        if any(t == VEL for t, v in ev):
            h.append('perf:velocity-events')
        h.append('bins:%s' % ('0' if c['nb'] == 0 else '1..127'))
        if lines[1].startswith('ok') and flags[1]:
            h.append('identity-demanded')
    return h


# ----------------------------------------------------------------------------- streams
def run_cases(chk, stream, cases):
    reqs = [req_line(c) for c, _ in cases]
    models = chk.driver(EXE, reqs)
    for (c, hist), req, model in zip(cases, reqs, models):
        l1, l2, r = run_impl(c)
        flags = canon_flags(c)
        impl = '%d %d | %s | %s' % (int(flags[0]), int(flags[1]), l1, l2)
        nontrivial = len(c['events']) > 0 and model != 'bad-op'
        chk.count(stream, req, nontrivial, sorted(hist) + branches(c, (l1, l2), flags))
        if impl != model:
            a, b = impl.split(' | '), model.split(' | ')
            which = [n for n, x, y in zip(('canonical-flags', 'rendered-sequence', 'round-trip'), a, b) if x != y] or ['shape']
            chk.disagree(stream, {'case': c, 'differs_in': which}, impl[:1200], model[:1200])
        bad = oracle(c, r)
        chk.count('oracle', None, False, 'oracle:%s:%s' % (c['kind'], 'identity-checked' if (flags[1] and in_quantifier(c)) else 'not-canonical-or-outside'))
        if bad and len(chk.failures) < 25:
            chk.fail('%s: %s' % (c['kind'], bad), dict(c, kind='perf:' + c['kind']))
    return reqs, models


RULE = ('performance half: event lists from the real extractor on random grid sequences (with and without same-pitch overlaps) and '
        'directly generated canonical lists (forced: several NOTE_OFFs / offs+ons on one step, abutting and overlapping notes of one '
        'pitch, shifts at, one above and multiples of max_shift), 20% with one local perturbation; steps_per_second {10,31,100,250}, '
        'steps_per_quarter {1,2,3,4,6,8,12,24}, qpm 20..300 incl. non-representable and ulp-neighbours, bins 0..127, max_shift 1..1000, '
        'start steps 0..1.2e7; separate malformed stream (max_note_duration, wrong filter, negative start, VELOCITY with 0 bins, '
        'DURATION events, unmatched/zero-length notes). non-trivial = distinct non-empty request answered by the model')


def run_streams(chk):
    """correspondence + oracle streams of the performance half (the caller has already built the driver)."""
    _libs()
    # ---- corpus first
    cases = []
    for name, obj in corpus_cases('C06P'):
        c = dict(obj)
        c['kind'] = c['kind'].split(':')[-1]
        cases.append((c, {'corpus:' + name}))
    if cases:
        run_cases(chk, 'perf-corpus', cases)
    rng = chk.subrng('perf-corr')
    n = chk.n(5000, 40000)
    cases = []
    sampled = 0
    for i in range(n):
        hist = set()
        k = rng.random()
        if k < 0.4:
            c = gen_perf_case(rng, 'perf', hist)
        elif k < 0.8:
            c = gen_perf_case(rng, 'mperf', hist)
        else:
            c = gen_nperf_case(rng, hist)
        cases.append((c, hist))
        if len(cases) >= 3000:
            run_cases(chk, 'perf-roundtrip', cases)
            cases = []
    if cases:
        reqs, models = run_cases(chk, 'perf-roundtrip', cases)
        for k in range(0, min(len(reqs), 30), 11):
            if sampled < 3:
                chk.sample({'request': reqs[k][:140] + ' …', 'model_answer': models[k][:160] + ' …'})
                sampled += 1
    rng = chk.subrng('perf-malformed')
    cases = []
    for i in range(chk.n(1500, 10000)):
        hist = set()
        k = rng.random()
        if k < 0.4:
            c = gen_perf_case(rng, 'perf', hist, malformed=True)
        elif k < 0.8:
            c = gen_perf_case(rng, 'mperf', hist, malformed=True)
        else:
            c = gen_nperf_case(rng, hist, malformed=True)
        cases.append((c, hist))
    run_cases(chk, 'perf-malformed', cases)


def run(chk):
    """stand-alone run of this half (harness/c06.py calls generate / run_streams itself)"""
    _libs()
    generate(chk)
    chk.prove(MODULES, THEOREMS, [EXE], extra_trusted=TRUSTED)
    chk.rule = RULE
    run_streams(chk)


def replay(chk, obj):
    _libs()
    if 'correspondence_disagreements' in obj or str(obj.get('kind', '')).startswith('no-failing'):
        # a record of model/implementation disagreements (no failing input): re-run those cases through both sides
        n = 0
        for d in obj.get('correspondence_disagreements', []):
            c = (d.get('input') or {}).get('case')
            if not c or not str(c.get('kind', '')).split(':')[-1] in ('perf', 'mperf', 'nperf'):
                continue
            c = dict(c, kind=c['kind'].split(':')[-1])
            l1, l2, _ = run_impl(c)
            flags = canon_flags(c)
            impl = '%d %d | %s | %s' % (int(flags[0]), int(flags[1]), l1, l2)
            model = chk.driver(EXE, [req_line(c)])[0]
            print('case %s: model and implementation %s' % (c['kind'], 'AGREE now' if impl == model else 'still DISAGREE'))
            n += 1
        print('%d recorded disagreement(s) re-run; no failing input of the property is recorded in this file' % n)
        return 0
    c = dict(obj)
    c['kind'] = c['kind'].split(':')[-1]
    print('replay C06 (performance half):', c['kind'], {k: v for k, v in c.items() if k not in ('events', 'kind')})
    print('events:', c['events'][:40], '…' if len(c['events']) > 40 else '')
    l1, l2, r = run_impl(c)
    flags = canon_flags(c)
    print('canonical (strict, full):', flags)
    print('rendered:', l1[:300])
    print('round trip:', l2[:400])
    bad = oracle(c, r)
    print('PROPERTY FAILS: %s' % bad if bad else 'property holds on this input')
    return 1 if bad else 0
