"""C09 — every one-hot event encoding is a bijection onto its class range (DESIGN 6.9)."""
import itertools

from gen.translit import translate_functions, Untranslatable
from harness.common import lean_list, lean_str, lean_int, rat, wl, corpus_cases

PID = 'C09'
MODULES = ['NoteSeqVerif.Props.C09']
EXE = 'drv_c09'
THEOREMS = [
    'NSV.C09.melody_decode_encode', 'NSV.C09.melody_encode_decode', 'NSV.C09.melody_encode_rejects',
    'NSV.C09.velocity_bin_range', 'NSV.C09.velocity_bin_mono', 'NSV.C09.velocity_bin_right_inverse',
    'NSV.C09.ranges_decode_encode', 'NSV.C09.ranges_encode_decode',
    'NSV.C09.perf_decode_encode', 'NSV.C09.perf_encode_decode', 'NSV.C09.perf_default_in_range',
    # multi-drum: generic (any pairwise-disjoint non-empty table), then the generated default table
    'NSV.C09.drum_decode_encode', 'NSV.C09.drum_encode_decode', 'NSV.C09.drum_canonical_same_classes',
    'NSV.C09.drum_unknown_raises', 'NSV.C09.drum_default_table_ok', 'NSV.C09.drum_default_decode_encode',
    'NSV.C09.drum_default_encode_decode', 'NSV.C09.drum_decode_encode_default',
    # chord one-hot encodings (structured symbols)
    'NSV.C09.chord_name_table', 'NSV.C09.mm_decode_encode', 'NSV.C09.mm_decode_root_quality',
    'NSV.C09.mm_encode_decode', 'NSV.C09.mm_encode_rejects',
    'NSV.C09.triad_decode_encode', 'NSV.C09.triad_decode_root_quality', 'NSV.C09.triad_encode_decode',
    'NSV.C09.triad_encode_rejects',
    # note density
    'NSV.C09.density_decode_encode', 'NSV.C09.density_encode_decode',
]


def generate(chk):
    """Generated/C09.lean from the working tree: transliterated functions + tables."""
    from note_seq import melody_encoder_decoder as med, performance_lib as pl, drums_encoder_decoder as ded
    from note_seq import constants
    M = med.MelodyOneHotEncoding
    try:
        t1, _ = translate_functions([
            (M.encode_event, 'melEncode', ['self_min_note', 'self_max_note']),
            (M.decode_event, 'melDecode', ['self_min_note']),
            (M.num_classes.fget, 'melNumClasses', ['self_min_note', 'self_max_note']),
        ], med)
        t2, _ = translate_functions([
            (pl._velocity_bin_size, 'velocityBinSize', None),
            (pl.velocity_to_bin, 'velocityToBin', None),
            (pl.velocity_bin_to_velocity, 'velocityBinToVelocity', None),
        ], pl)
        t2 = t2.split('\n\n', 1)[1]  # drop the second copy of the prelude
        chk.translit['melody_onehot+velocity_bins'] = 'regenerated from source'
    except Untranslatable as e:
        chk.translit['melody_onehot+velocity_bins'] = 'BROKEN: %s' % e
        chk.broken.append('translator:C09 (%s)' % e)
        return
    PE = pl.PerformanceEvent
    table = ded.DEFAULT_DRUM_TYPE_PITCHES
    try:
        chord_txt = _chord_tables()
        chk.translit['chord tables'] = 'regenerated from source'
    except Exception as e:  # pylint: disable=broad-except
        chk.translit['chord tables'] = 'BROKEN: %s' % e
        chk.broken.append('translator:C09 chord tables (%s: %s)' % (type(e).__name__, e))
        return
    txt = ('/-! GENERATED from /repo on every run by harness/c09.py — do not edit. -/\n'
           'namespace NSV.C09.Gen\n' + t1 + '\n' + t2 + '\n'
           'def MIN_MIDI_PITCH : Int := %d\ndef MAX_MIDI_PITCH : Int := %d\n' % (constants.MIN_MIDI_PITCH, constants.MAX_MIDI_PITCH)
           + 'def NOTE_ON : Nat := %d\ndef NOTE_OFF : Nat := %d\ndef TIME_SHIFT : Nat := %d\ndef VELOCITY : Nat := %d\n'
           % (PE.NOTE_ON, PE.NOTE_OFF, PE.TIME_SHIFT, PE.VELOCITY)
           + 'def drumTable : List (List Nat) := %s\n' % lean_list(lean_list(str(p) for p in row) for row in table)
           + chord_txt
           + 'end NSV.C09.Gen\n')
    chk.regenerate('NoteSeqVerif/Generated/C09.lean', txt)


def _chars(st):
    """Lean `List Char` literal of a short ASCII string (letters, digits, # - + / ( ) only)."""
    for c in st:
        if not (c.isalnum() or c in '#-+/()') or ord(c) > 126:
            raise ValueError('unexpected character %r in %r' % (c, st))
    return lean_list("'%s'" % c for c in st)


MOD_OPS = ['_add_scale_degree', '_subtract_scale_degree', '_alter_scale_degree']


def _chord_tables():
    """constants and tables of chords_encoder_decoder / chord_symbols_lib the chord model uses"""
    from note_seq import chords_encoder_decoder as ced, chord_symbols_lib as csl
    names = list(ced._PITCH_CLASS_MAPPING)
    steps = list(csl._STEPS_MIDI.items())
    kinds = [(ab, [csl._parse_degree(d) for d in degs]) for ab, degs in csl._CHORD_KINDS_BY_ABBREV.items()]
    mods = []
    for ab, (fn, alter) in csl._DEGREE_MODIFICATIONS.items():
        mods.append((ab, MOD_OPS.index(fn.__name__), alter))
        if getattr(csl, fn.__name__) is not fn:
            raise ValueError('modification function %s is not the module-level one' % fn.__name__)
    for (st, m) in steps:
        if len(st) != 1:
            raise ValueError('step name %r' % st)
    if not isinstance(ced.NO_CHORD, str) or ' ' in ced.NO_CHORD:
        raise ValueError('NO_CHORD %r' % (ced.NO_CHORD,))
    q = [csl.CHORD_QUALITY_MAJOR, csl.CHORD_QUALITY_MINOR, csl.CHORD_QUALITY_AUGMENTED,
         csl.CHORD_QUALITY_DIMINISHED, csl.CHORD_QUALITY_OTHER]
    return (
        'def NOTES_PER_OCTAVE : Int := %d\n' % ced.NOTES_PER_OCTAVE
        + 'def NO_CHORD : String := %s\n' % lean_str(ced.NO_CHORD)
        + ''.join('def CHORD_QUALITY_%s : Nat := %d\n' % (n, v) for n, v in
                  zip(['MAJOR', 'MINOR', 'AUGMENTED', 'DIMINISHED', 'OTHER'], q))
        + 'def pitchClassMapping : List (List Char) := %s\n' % lean_list(_chars(n) for n in names)
        + 'def stepsMidi : List (Char × Int) := %s\n' % lean_list("('%s', %s)" % (st, lean_int(m)) for st, m in steps)
        + 'def chordKindsByAbbrev : List (List Char × List (Nat × Int)) := %s\n' % lean_list(
            '(%s, %s)' % (_chars(ab), lean_list('(%d, %s)' % (d, lean_int(a)) for d, a in degs)) for ab, degs in kinds)
        + 'def degreeMods : List (List Char × Nat × Int) := %s\n' % lean_list(
            '(%s, %d, %s)' % (_chars(ab), op, lean_int(a)) for ab, op, a in mods))


def exc_name(f, *a):
    try:
        return ('ok', f(*a))
    except Exception as e:  # pylint: disable=broad-except
        return ('err', type(e).__name__)


def run(chk):
    from note_seq import melody_encoder_decoder as med, performance_lib as pl, drums_encoder_decoder as ded
    from note_seq import performance_encoder_decoder as ped
    generate(chk)
    chk.prove(MODULES, THEOREMS, [EXE],
              extra_trusted=['gen/translit.py (Python->Lean transliteration of melody one-hot and velocity-bin functions)',
                             'math.ceil(a/b) on floats read as exact ceiling (validated by correspondence for all 127 bin counts)',
                             'chord string layer (regular expressions of chord_symbols_lib._split_chord_symbol / _parse_pitch_class): '
                             'modelled as "the symbol splits into the parts it was built from", run against the real parser on '
                             'every decoded name and on the chord grammar',
                             'table extraction in harness/c09.py generate() (drum table, _PITCH_CLASS_MAPPING, _STEPS_MIDI, '
                             '_CHORD_KINDS_BY_ABBREV via _parse_degree, _DEGREE_MODIFICATIONS, quality constants)',
                             'Python float comparison = comparison of the exact rational values (note density; NaN/inf excluded)'])
    chk.rule = ('melody: (min,max) ranges x indices/events incl. out-of-range; velocity: v x bins; performance: '
                '(bins,max_shift,pitch range) x all indices and events; drums: default table (all class indices, pitch sets, both '
                'ignore_unknown settings) and random tables (disjoint / overlapping / with empty classes) x all indices and pitch sets; '
                'chords: both encoders x all indices (and out-of-range ones), chord grammar root x kind x bass, symbols with degree '
                'modifications; density: boundary lists x all indices and values incl. values equal/adjacent to a boundary. '
                'non-trivial = distinct (configuration, argument) whose result is a value (not bad-op)')
    rng = chk.subrng('corr')
    reqs, impl = [], []

    def add(stream, req, res, key, hist=None):
        reqs.append((stream, req, key, hist))
        impl.append(res)

    ranges, ns, grid, drum_sets, dens_cfgs = [], [], [], [], []

    def impl_raised(stream, e):
        # the real code raised where the correspondence expects a value: not a machinery error; the oracle below
        # (which guards every call) looks for the concrete failing input
        chk.disagree(stream, 'evaluating the correspondence inputs on the implementation',
                     'raised %s: %s' % (type(e).__name__, e), 'n/a')

    # ---- melody
    try:
        if chk.thorough:
            ranges = [(a, b) for a in range(0, 128) for b in range(a + 1, 129)]
        else:
            ranges = [(rng.randrange(0, 128), 0) for _ in range(150)]
            ranges = [(a, rng.randrange(a + 1, 129)) for a, _ in ranges] + [(0, 128), (0, 1), (127, 128), (48, 84)]
        for (a, b) in ranges:
            enc = med.MelodyOneHotEncoding(a, b)
            n = enc.num_classes
            idxs = set([0, 1, 2, n - 1, n // 2]) if chk.thorough else set(range(n)) if n < 20 else set(rng.sample(range(n), 12)) | {0, 1, 2, n - 1}
            for i in sorted(x for x in idxs if 0 <= x < n):
                add('melody', 'mel_dec %d %d' % (a, i), 'ok %d' % enc.decode_event(i), ('md', a, b, i))
            evs = set([-3, -2, -1, 0, a - 1, a, b - 1, b, 127, 128]) | set(rng.sample(range(-4, 131), 4))
            for e in sorted(evs):
                r = exc_name(enc.encode_event, e)
                add('melody', 'mel_enc %d %d %d' % (a, b, e), '%s %s' % r, ('me', a, b, e))
        # illegal configurations must be rejected by the constructor (legal = theorem hypothesis)
        for (a, b) in [(-1, 5), (0, 129), (5, 5), (6, 5)]:
            r = exc_name(med.MelodyOneHotEncoding, a, b)
            chk.count('melody-config', ('cfg', a, b), True, 'rejected' if r[0] == 'err' else 'accepted')
            if r[0] != 'err':
                chk.disagree('melody-config', [a, b], 'accepted', 'rejected (MelCfg)')
    except Exception as e:  # pylint: disable=broad-except
        impl_raised('melody', e)
    # ---- velocity
    try:
        vs = range(1, 128)
        ns = range(1, 128) if chk.thorough else sorted(set(rng.sample(range(1, 128), 30)) | {1, 2, 127, 126, 64, 32})
        for nbin in ns:
            for v in vs:
                add('velocity', 'vel %d %d' % (v, nbin),
                    'ok %d %d' % (pl.velocity_to_bin(v, nbin), pl.velocity_bin_to_velocity(v, nbin)), ('v', v, nbin))
    except Exception as e:  # pylint: disable=broad-except
        impl_raised('velocity', e)
    # ---- performance
    try:
        grid = []
        if chk.thorough:
            for bins in range(0, 128):    # every velocity-bin count
                for ms in [1, 2, 3, 100, 128, 1000]:
                    for (lo, hi) in [(0, 127), (21, 108), (60, 60), (0, 0), (127, 127), (36, 84)]:
                        grid.append((bins, ms, lo, hi))
        else:
            for _ in range(25):
                lo = rng.randrange(0, 128)
                grid.append((rng.choice([0, 0, 1, 2, 32, 127, rng.randrange(0, 128)]), rng.choice([1, 2, 100, rng.randrange(1, 129)]),
                             lo, rng.randrange(lo, 128)))
            grid += [(0, 100, 0, 127), (32, 100, 21, 108), (1, 1, 5, 5)]
        PE = pl.PerformanceEvent
        for (bins, ms, lo, hi) in grid:
            enc = ped.PerformanceOneHotEncoding(bins, ms, lo, hi)
            n = enc.num_classes
            cfg = '%d %d %d %d' % (bins, ms, lo, hi)
            add('performance', 'perf_n ' + cfg, 'ok %d' % n, ('pn', cfg))
            # thorough: all indices for every 9th bin count (and 1, 127), the range edges + a sample for the others
            # (the oracle below still visits every index of every configuration)
            every = (chk.thorough and (bins % 9 == 0 or bins in (1, 127))) or n < 400
            edges = {-1, 0, n - 1, n, n + 1, hi - lo, hi - lo + 1, 2 * (hi - lo) + 1, 2 * (hi - lo) + 2,
                     2 * (hi - lo) + 1 + ms, 2 * (hi - lo) + 2 + ms}
            idxs = range(-1, n + 2) if every else sorted(
                set(rng.sample(range(n), 200 if not chk.thorough else 40)) | set(i for i in edges if -1 <= i <= n + 1))
            for i in idxs:
                r = exc_name(enc.decode_event, i)
                add('performance', 'perf_dec %s %d' % (cfg, i),
                    'ok %d %d' % (r[1].event_type, r[1].event_value) if r[0] == 'ok' else 'err %s' % r[1], ('pd', cfg, i))
            for ty in (1, 2, 3, 4):
                for v in sorted({lo, hi, 1, ms, max(bins, 1), (lo + hi) // 2}):
                    try:
                        ev = PE(ty, v)
                    except ValueError:
                        continue
                    r = exc_name(enc.encode_event, ev)
                    add('performance', 'perf_enc %s %d %d' % (cfg, ty, v), '%s %s' % r, ('pe', cfg, ty, v))
            d = enc.default_event
            if not (0 <= enc.encode_event(d) < n):
                chk.fail('default_event encodes outside [0,num_classes)', {'config': cfg})
    except Exception as e:  # pylint: disable=broad-except
        impl_raised('performance', e)
    # ---- drums, default table
    try:
        denc = ded.MultiDrumOneHotEncoding()
        dstrict = ded.MultiDrumOneHotEncoding(ignore_unknown_drums=False)
        nd = denc.num_classes
        for i in list(range(nd)) + [nd, nd + 1, 2 * nd - 1, 2 * nd, 5 * nd + 3]:
            add('drums', 'drum_dec %d' % i, show_set(exc_name(denc.decode_event, i)), ('dd', i))
        default_table = [list(c) for c in ded.DEFAULT_DRUM_TYPE_PITCHES]
        known = sorted(p for c in default_table for p in c)
        drum_sets = []
        for _ in range(chk.n(300, 5000)):
            drum_sets.append(sorted(set(rng.randrange(20, 90) for _ in range(rng.randrange(0, 7)))))
        for _ in range(chk.n(200, 3000)):   # only known pitches, so the strict encoder returns a value
            drum_sets.append(sorted(set(rng.choice(known) for _ in range(rng.randrange(0, 8)))))
        drum_sets += [[p] for p in range(0, 128)] + [[], known]
        for ps in drum_sets:
            add('drums', 'drum_enc ' + ' '.join(map(str, ps)), '%s %s' % exc_name(denc.encode_event, frozenset(ps)), ('de', tuple(ps)))
            add('drums', 'drumg_enc 0 %s %s' % (wl(wl(c) for c in default_table), wl(ps)),
                '%s %s' % exc_name(dstrict.encode_event, frozenset(ps)), ('des', tuple(ps)), hist='strict')
    except Exception as e:  # pylint: disable=broad-except
        impl_raised('drums', e)
    # ---- drums, arbitrary tables (legal = pairwise disjoint non-empty classes; malformed = overlapping / empty classes)
    try:
        for t in range(chk.n(60, 1500)):
            kind = 'disjoint' if t % 3 != 2 else rng.choice(['overlap', 'empty-class', 'overlap'])
            table = gen_drum_table(rng, kind, chk.n(6, 9))
            tw = wl(wl(c) for c in table)
            for ign in (True, False):
                e = ded.MultiDrumOneHotEncoding(drum_type_pitches=table, ignore_unknown_drums=ign)
                if ign:
                    n = e.num_classes
                    idxs = range(n + 3) if n <= 64 else sorted(set(rng.sample(range(n), 60)) | {0, n - 1, n, n + 1})
                    for i in idxs:
                        add('drums-tables', 'drumg_dec %s %d' % (tw, i), show_set(exc_name(e.decode_event, i)),
                            ('gd', tw, i), hist='dec:' + kind)
                pool = sorted(set(p for c in table for p in c)) + [1, 2, 3]
                for _ in range(12):
                    ps = sorted(set(rng.choice(pool) for _ in range(rng.randrange(0, 6))))
                    add('drums-tables', 'drumg_enc %d %s %s' % (ign, tw, wl(ps)), '%s %s' % exc_name(e.encode_event, frozenset(ps)),
                        ('ge', ign, tw, tuple(ps)), hist='enc:' + kind)
    except Exception as e:  # pylint: disable=broad-except
        impl_raised('drums', e)
    # ---- chords
    try:
        chord_requests(chk, rng, add)
    except Exception as e:  # pylint: disable=broad-except
        impl_raised('chords', e)
    # ---- note density
    try:
        dens_cfgs = density_configs(chk, rng)
        density_requests(chk, dens_cfgs, add)
    except Exception as e:  # pylint: disable=broad-except
        impl_raised('density', e)
    # ---- run the model on the same requests and diff
    model = chk.driver(EXE, [r for (_, r, _, _) in reqs])
    for (stream, req, key, hist), a, b in zip(reqs, impl, model):
        op = req.split(' ', 1)[0]
        if op in ('drum_dec', 'drumg_dec') and b.startswith('ok'):
            # decode_event returns a frozenset: the model's list is compared as a set
            ps = sorted(set(int(x) for x in b.split()[2:]))
            b = 'ok ' + ' '.join(map(str, [len(ps)] + ps))
        h = [hist or (a.split()[0] if stream != 'performance' else op + ':' + a.split()[0])]
        if hist and not a.startswith('ok'):
            h.append(hist + ':' + a)
        chk.count(stream, key, nontrivial=(b != 'bad-op'), hist=h)
        if a != b:
            chk.disagree(stream, req, a, b)
    allreq = [r for (_, r, _, _) in reqs]
    for s in ('mel_dec 48 5', 'vel 100 32', 'drum_dec 37', 'mm_dec 14', 'tri_dec 48'):
        i = allreq.index(s) if s in allreq else None
        if i is not None:
            chk.sample({'request': s, 'impl': impl[i], 'model': model[i]}, limit=12)
    for op in ('tri_enc ', 'dens_enc', 'drumg_enc 0'):
        i = next((k for k, r in enumerate(allreq) if r.startswith(op)), None)
        if i is not None:
            chk.sample({'request': allreq[i], 'impl': impl[i], 'model': model[i]}, limit=12)

    # ---- property oracle on the real code (independent of the model)
    oracle(chk, ranges, ns, grid, drum_sets, dens_cfgs)
    chk.exhaustive = chk.thorough
    chk.notes['not_one_hot'] = NOT_ONE_HOT


NOT_ONE_HOT = ('PitchHistogramPerformanceControlSignal.PitchHistogramEncoder and PitchChordsEncoderDecoder are '
               'EventSequenceEncoderDecoders with an input vector only (num_classes / events_to_label / class_index_to_event raise '
               'NotImplementedError): no encode/decode pair, not a OneHotEncoding, outside this property. '
               'KeyMelodyEncoderDecoder, NotePerformanceEventSequenceEncoderDecoder and ModuloPerformanceEventSequenceEncoderDecoder '
               'are label encoders over event sequences (property C08); the last one delegates labels to PerformanceOneHotEncoding, '
               'which is covered here. PerformanceModuloEncoding has no decode direction.')


def show_set(r):
    if r[0] == 'ok':
        return 'ok ' + ' '.join(map(str, [len(r[1])] + sorted(r[1])))
    return 'err %s' % r[1]


def gen_drum_table(rng, kind, max_classes):
    """legal tables: pairwise-disjoint non-empty classes over a small pitch pool (so events hit and miss);
    malformed: a pitch shared by two classes (first or later position), or an empty class."""
    n = rng.choice([0, 1, 2, 3, 3, 4, 5, max_classes])
    pool = rng.sample(range(20, 60), min(40, 4 * n + 2))
    table, k = [], 0
    for _ in range(n):
        m = rng.randrange(1, 5)
        table.append(pool[k:k + m])
        k += m
    if kind == 'overlap' and n >= 2:
        i, j = rng.sample(range(n), 2)
        src = table[i][0] if rng.random() < 0.5 else rng.choice(table[i])
        table[j].insert(rng.randrange(0, len(table[j]) + 1), src)
    elif kind == 'empty-class' and n >= 1:
        table[rng.randrange(n)] = []
    return table


# ------------------------------------------------------------------------------------ chords
STEPS = 'CDEFGAB'


def acc(alter):
    return '#' * alter if alter >= 0 else 'b' * (-alter)


def chord_grammar(chk, rng):
    """(step, alter, kind index, mods [(mod index, degree, parenthesised)], bass or None).
    thorough: the whole grammar root (7 letters x alterations -3..3) x 68 kind abbreviations x (no bass | 21 basses);
    quick: a sample of it containing every kind abbreviation and every root at least once."""
    from note_seq import chord_symbols_lib as csl
    nk = len(csl._CHORD_KINDS_BY_ABBREV)
    basses = [None] + [(st, al) for st in STEPS for al in (-1, 0, 1)]
    out = []
    if chk.thorough:
        for st in STEPS:
            for al in range(-3, 4):
                for k in range(nk):
                    for b in basses:
                        out.append((st, al, k, [], b))
    else:
        for k in range(nk):
            for _ in range(6):
                out.append((rng.choice(STEPS), rng.choice([-2, -1, 0, 0, 1, 2]), k, [], rng.choice(basses + [None] * 10)))
        for st in STEPS:
            for al in range(-3, 4):
                out.append((st, al, rng.randrange(nk), [], None))
    # a few extreme alterations (the root regex allows any number of accidentals)
    for al in (-13, -12, -7, 5, 11, 12, 25):
        for k in (0, 3, 7, 9, 20):
            out.append((rng.choice(STEPS), al, k, [], None))
    return out


def chord_mod_symbols(chk, rng):
    """symbols with 1..3 scale-degree modifications (incl. illegal ones: add of a present degree, removal of an absent one)"""
    from note_seq import chord_symbols_lib as csl
    nk = len(csl._CHORD_KINDS_BY_ABBREV)
    modtab = list(csl._DEGREE_MODIFICATIONS)
    kinds = list(csl._CHORD_KINDS_BY_ABBREV)
    out = []
    for _ in range(chk.n(800, 30000)):
        k = rng.choice([0, 0, 3, 3, 1, 4, 10, 13, 6, 8, 67, 62] + [rng.randrange(nk)] * 4)
        mods = []
        present = set(csl._parse_degree(d)[0] for d in csl._CHORD_KINDS_BY_ABBREV[kinds[k]])
        for _ in range(rng.choice([1, 1, 2, 3])):
            mi = rng.randrange(len(modtab))
            deg = rng.choice([1, 3, 5, 3, 5, 7, 2, 4, 6, 9, 11, 13, rng.randrange(0, 16)])
            if rng.random() < 0.5:    # leave the triad alone half of the time, so that encodable symbols dominate
                deg = rng.choice([2, 4, 6, 7, 9, 11, 13])
            if rng.random() < 0.85:   # mostly legal: add an absent degree, remove a present one
                fn = csl._DEGREE_MODIFICATIONS[modtab[mi]][0].__name__
                if fn == '_add_scale_degree' and deg in present:
                    deg = rng.choice([d for d in (2, 3, 4, 5, 6, 7, 9, 11, 13) if d not in present] or [14])
                if fn == '_subtract_scale_degree' and deg not in present and present:
                    deg = rng.choice(sorted(present))
                if fn == '_add_scale_degree':
                    present.add(deg)
                elif fn == '_subtract_scale_degree':
                    present.discard(deg)
                else:
                    present.add(deg)
            paren = True if modtab[mi] in ('#', 'b') else rng.random() < 0.6
            mods.append((mi, deg, paren))
        out.append((rng.choice(STEPS), rng.choice([-1, 0, 0, 1]), k, mods,
                    rng.choice([None, None, (rng.choice(STEPS), rng.choice([-1, 0, 1]))])))
    return out


def chord_double_alt_symbols(chk, rng):
    """alterations stacked on one scale degree: for EVERY kind abbreviation, the 3rd, the 5th and every degree the
    kind itself already alters (b3 of minor, #5 of augmented, b5 of diminished, b7, b9, #11 ...) get one '#'/'b'
    alteration on top (C+(b5), Cm(#3): major triads; C+(#5), Cm(b3), Co(b5): no triads) and all four pairs of two
    alterations (C(b5)(#5) is C; C(b5)(b5) is not a triad); plus random three-step histories on one degree mixing
    alteration, removal and re-addition"""
    from note_seq import chord_symbols_lib as csl
    kinds = list(csl._CHORD_KINDS_BY_ABBREV)
    modtab = list(csl._DEGREE_MODIFICATIONS)
    alt = [modtab.index(m) for m in ('#', 'b')]
    no, adds = modtab.index('no'), [modtab.index(m) for m in ('add', 'add#', 'addb')]
    out = []

    def root():
        return rng.choice(STEPS), rng.choice([-1, 0, 0, 1])
    for k, ab in enumerate(kinds):
        own = [csl._parse_degree(d) for d in csl._CHORD_KINDS_BY_ABBREV[ab]]
        degs = sorted({3, 5} | {d for d, a in own if a != 0})
        for deg in degs:
            for a in alt:
                st, al = root()
                out.append((st, al, k, [(a, deg, True)], None))
            for a in alt:
                for b in alt:
                    if chk.thorough or deg in (3, 5) or rng.random() < 0.3:
                        st, al = root()
                        out.append((st, al, k, [(a, deg, True), (b, deg, True)], None))
    for _ in range(chk.n(300, 12000)):
        k = rng.choice([0, 3, 1, 4, 10, 13, 6, 8] + [rng.randrange(len(kinds))] * 3)
        deg = rng.choice([3, 5, 3, 5, 7, 9, 1])
        mods = []
        for _ in range(rng.choice([2, 3, 3, 4])):
            r = rng.random()
            mi = rng.choice(alt) if r < 0.7 else no if r < 0.85 else rng.choice(adds)
            mods.append((mi, deg if rng.random() < 0.85 else rng.choice([3, 5, 7]), True))
        st, al = root()
        out.append((st, al, k, mods, rng.choice([None, None, (rng.choice(STEPS), rng.choice([-1, 0, 1]))])))
    return out


def sym_string(sym):
    from note_seq import chord_symbols_lib as csl
    st, al, k, mods, bass = sym
    kinds = list(csl._CHORD_KINDS_BY_ABBREV)
    modtab = list(csl._DEGREE_MODIFICATIONS)
    s = st + acc(al) + kinds[k]
    for (mi, deg, paren) in mods:
        s += ('(%s%d)' if paren else '%s%d') % (modtab[mi], deg)
    if bass:
        s += '/' + bass[0] + acc(bass[1])
    return s


def sym_wire(sym):
    st, al, k, mods, _ = sym
    return '%s %d %d %s' % (st, al, k, wl('%d %d' % (mi, deg) for (mi, deg, _) in mods))


def fresh_str(x):
    """a str equal to x that is a different object (never interned)"""
    y = ''.join(list(x))
    return y if y is not x else (x + ' ')[:-1]


# The chord grammar of the property, written down independently of the library's tables: every kind abbreviation the
# chord-symbol grammar documents, with the triad its root, 3rd and 5th form.  A table edit in the library that loses or
# re-reads one of these spellings is then seen by the encode direction (the library-derived grammar follows the table).
GRAMMAR_KINDS = {
    'major': ['', 'maj', 'M', '7', 'maj7', 'M7', '6', '9', 'maj9', 'M9', '6/9', '11', 'maj11', 'M11', '13', 'maj13', 'M13'],
    'minor': ['m', 'min', '-', 'm7', 'min7', '-7', 'mmaj7', 'mM7', 'minmaj7', 'minM7', '-maj7', '-M7', 'm(maj7)', 'm(M7)',
              'min(maj7)', 'min(M7)', '-(maj7)', '-(M7)', 'm6', 'min6', '-6', 'm9', 'min9', '-9', 'm11', 'min11', '-11',
              'm13', 'min13', '-13'],
    'augmented': ['+', 'aug', '+7', 'aug7', '+9', 'aug9'],
    'diminished': ['o', 'dim', 'o7', 'dim7', 'm7b5', '-7b5', '/o', '/o7'],
    'other': ['sus2', 'sus', 'sus4', 'sus7', '7sus', 'ped', '5'],
}


def chord_encoders():
    from note_seq import chords_encoder_decoder as ced
    return {'mm': ced.MajorMinorChordOneHotEncoding(), 'tri': ced.TriadChordOneHotEncoding()}


def chord_requests(chk, rng, add):
    from note_seq import chord_symbols_lib as csl, chords_encoder_decoder as ced
    encs = chord_encoders()
    for which, enc in encs.items():
        n = enc.num_classes
        add('chords', which + '_enc_nc', '%s %s' % exc_name(enc.encode_event, ced.NO_CHORD), ('cn', which), hist=which + ':enc-no-chord')
        # the same symbol as a string that is EQUAL to the constant but not the same object (read from a file / an annotation)
        add('chords', which + '_enc_nc', '%s %s' % exc_name(enc.encode_event, fresh_str(ced.NO_CHORD)), ('cn-fresh', which),
            hist=which + ':enc-no-chord-equal-not-identical')
        for i in range(-n - 2, 2 * n + 3):
            r = exc_name(enc.decode_event, i)
            if r[0] == 'err':
                res = 'err %s' % r[1]
            elif r[1] == ced.NO_CHORD:
                res = 'ok %s' % ced.NO_CHORD
            else:
                # string layer on a decoded name: how the real regex splits it, and the real root / quality
                root_s, kind_s, mods_s, bass_s = csl._split_chord_symbol(r[1])
                res = 'ok %s %s | ok %d %d' % (root_s, kind_s or '_', csl.chord_symbol_root(r[1]), csl.chord_symbol_quality(r[1]))
                if mods_s or bass_s or root_s + kind_s != r[1]:
                    res += ' (split %r)' % ((root_s, kind_s, mods_s, bass_s),)
            add('chords', '%s_dec %d' % (which, i), res, ('cd', which, i),
                hist=which + (':dec' if 0 <= i < n else ':dec-out-of-range'))
    gram = chord_grammar(chk, rng)
    modsyms = chord_mod_symbols(chk, rng) + chord_double_alt_symbols(chk, rng)
    chk.notes['chord_grammar_symbols'] = len(gram)
    chk.notes['chord_symbols_with_modifications'] = len(modsyms)
    for sym in gram + modsyms:
        fig = sym_string(sym)
        w = sym_wire(sym)
        tag = 'mods' if sym[3] else 'grammar'
        if sym[3] and stacked_alteration(sym):
            tag = 'stacked-alteration'
        if not sym[4]:   # root/quality of the real parser vs the structured model (bass never matters)
            def rq():
                return '%d %d' % (csl.chord_symbol_root(fig), csl.chord_symbol_quality(fig))
            add('chords', 'sym_rq ' + w, '%s %s' % exc_name(rq), ('rq', fig), hist=tag + ':root-quality')
        for which, enc in encs.items():
            add('chords', '%s_enc %s' % (which, w), '%s %s' % exc_name(enc.encode_event, fig), ('ce', which, fig),
                hist='%s:%s-enc' % (which, tag))
    return gram, modsyms


# ------------------------------------------------------------------------------------ density
DENS_POOL = [0.1, 0.25, 1 / 3, 0.5, 1.0, 1.5, 2.0, 3.3, 4.0, 8.0, 15.0, 16.0, 32.0, 64.0, 1e-9, 1e9, 0.30000000000000004, 0.3]


def density_encoding(bounds):
    from note_seq import performance_controls as pc
    return pc.NoteDensityPerformanceControlSignal.NoteDensityOneHotEncoding(bounds)


def density_configs(chk, rng):
    """(kind, boundaries, values): legal = strictly increasing positive boundaries; values include every boundary and
    its two neighbouring floats.  Pure (no call into the implementation)."""
    import math
    cfgs = [('legal', [1.0, 2.0, 4.0, 8.0, 16.0, 32.0, 64.0]), ('legal', []), ('legal', [0.5]), ('legal', [1, 2, 3])]
    for t in range(chk.n(60, 2500)):
        n = rng.choice([0, 1, 2, 3, 5, 8, 12])
        vals = [rng.choice(DENS_POOL) if rng.random() < 0.6 else rng.uniform(0.01, 50.0) for _ in range(n)]
        if t % 4 != 3:
            cfgs.append(('legal', sorted(set(vals))))
        else:   # malformed: unsorted, repeated, zero or negative boundaries
            vals += rng.choice([[0.0], [-1.0], vals[:1], [2.0, 2.0]])
            rng.shuffle(vals)
            cfgs.append(('malformed', vals))
    out = []
    for kind, bounds in cfgs:
        xs = [0.0, 0, 15.0, 1e12]
        for b in bounds:
            xs += [b, math.nextafter(b, math.inf), math.nextafter(b, -math.inf)]
        top = max([1.0] + [float(b) for b in bounds])
        xs += [rng.uniform(0.0, 1.3 * top) for _ in range(6)] + [rng.choice(DENS_POOL), rng.randrange(0, 70)]
        xs = [x for x in xs if x >= 0 or kind == 'malformed']
        out.append((kind, bounds, xs))
    return out


def density_requests(chk, cfgs, add):
    from note_seq import performance_controls as pc
    # the encoder as the control signal builds it (the class is nested in NoteDensityPerformanceControlSignal)
    sig = pc.NoteDensityPerformanceControlSignal(window_size_seconds=3.0, density_bin_ranges=cfgs[0][1])
    via_signal = sig.encoder._one_hot_encoding  # pylint: disable=protected-access
    for ci, (kind, bounds, xs) in enumerate(cfgs):
        enc = via_signal if ci == 0 else density_encoding(bounds)
        bw = wl(rat(b) for b in bounds)
        n = enc.num_classes
        for i in range(-n - 2, n + 3):
            r = exc_name(enc.decode_event, i)
            add('density', 'dens_dec %s %d' % (bw, i), 'ok %s' % rat(r[1]) if r[0] == 'ok' else 'err %s' % r[1],
                ('nd', bw, i), hist='dec:%s%s' % (kind, '' if 0 <= i < n else ':out-of-range'))
        for x in xs:
            r = exc_name(enc.encode_event, x)
            add('density', 'dens_enc %s %s' % (bw, rat(x)), 'ok %s %d' % (r[1], n) if r[0] == 'ok' else 'err %s' % r[1],
                ('ne', bw, rat(x)), hist='enc:%s%s' % (kind, ':at-boundary' if any(x == b for b in bounds) else ''))


# ------------------------------------------------------------------------------------ oracle
def oracle(chk, ranges, ns, grid, drum_sets, dens_cfgs):
    """the property statement evaluated directly on the implementation; an exception raised by
    the implementation on a valid argument is a failure of the property, not of the machinery."""
    for part in (_oracle_corpus, _oracle_melody, _oracle_velocity, _oracle_performance, _oracle_drums, _oracle_chords, _oracle_density):
        try:
            part(chk, ranges=ranges, ns=ns, grid=grid, drum_sets=drum_sets, dens_cfgs=dens_cfgs)
        except Exception as e:  # pylint: disable=broad-except
            chk.fail('implementation raised %s: %s on a valid index/event (see input)' % (type(e).__name__, e), dict(_CUR))


_CUR = {}


def cur(**kw):
    _CUR.clear()
    _CUR.update(kw)
    return dict(kw)


def _oracle_corpus(chk, **_):
    """committed regression inputs (corpus/C09): each is evaluated with the same evaluator as a replay"""
    import contextlib
    import io
    from note_seq import melody_encoder_decoder as med, performance_lib as pl, drums_encoder_decoder as ded
    from note_seq import performance_encoder_decoder as ped
    for name, case in corpus_cases(PID):
        obj = case.get('input', case)
        chk.count('corpus', name, True, hist=obj.get('enc'))
        cur(**obj)
        buf = io.StringIO()
        with contextlib.redirect_stdout(buf):
            rc = _replay(obj, obj.get('enc'), med, pl, ded, ped)
        if rc:
            chk.fail('corpus case %s: %s' % (name, ' / '.join(buf.getvalue().strip().split('\n')[:2])), dict(obj))


def _oracle_melody(chk, ranges, **_):
    from note_seq import melody_encoder_decoder as med
    for (a, b) in ranges:
        enc = med.MelodyOneHotEncoding(a, b)
        n = enc.num_classes
        for i in range(n):
            chk.count('oracle', None)
            _CUR.clear(); _CUR.update({'enc': 'melody', 'min': a, 'max': b, 'index': i})
            if enc.encode_event(enc.decode_event(i)) != i:
                chk.fail('melody encode(decode(i)) != i', {'enc': 'melody', 'min': a, 'max': b, 'index': i})
                break
        for e in [-2, -1] + list(range(a, b)):
            _CUR.clear(); _CUR.update({'enc': 'melody', 'min': a, 'max': b, 'event': e})
            j = enc.encode_event(e)
            if not (0 <= j < n) or enc.decode_event(j) != e:
                chk.fail('melody decode(encode(e)) != e or out of range', {'enc': 'melody', 'min': a, 'max': b, 'event': e})
                break


def _oracle_velocity(chk, ns, **_):
    from note_seq import performance_lib as pl
    for nbin in ns:
        prev = 0
        for v in range(1, 128):
            chk.count('oracle', None)
            _CUR.clear(); _CUR.update({'enc': 'velocity', 'v': v, 'bins': nbin})
            b = pl.velocity_to_bin(v, nbin)
            if not (1 <= b <= nbin) or b < prev:
                chk.fail('velocity_to_bin out of range or not monotone', {'enc': 'velocity', 'v': v, 'bins': nbin})
                break
            prev = b
        for b in range(1, nbin + 1):
            if pl.velocity_to_bin(pl.velocity_bin_to_velocity(b, nbin), nbin) != b:
                chk.fail('bin_to_velocity is not a right inverse', {'enc': 'velocity', 'bin': b, 'bins': nbin})
                break


def _oracle_performance(chk, grid, **_):
    from note_seq import performance_encoder_decoder as ped
    for (bins, ms, lo, hi) in grid:
        enc = ped.PerformanceOneHotEncoding(bins, ms, lo, hi)
        for i in range(enc.num_classes):
            chk.count('oracle', None)
            _CUR.clear(); _CUR.update({'enc': 'performance', 'cfg': [bins, ms, lo, hi], 'index': i})
            if enc.encode_event(enc.decode_event(i)) != i:
                chk.fail('performance encode(decode(i)) != i', {'enc': 'performance', 'cfg': [bins, ms, lo, hi], 'index': i})
                break
        # encode direction: every valid event of the configuration (note on/off in the pitch range, shifts
        # 1..max_shift_steps, and every velocity bin velocity_to_bin can produce for this bin count) must land in
        # [0, num_classes) and decode to itself — independent of what the class itself says num_classes is
        msg = perf_encode_check(bins, ms, lo, hi)
        if msg:
            chk.fail(msg[0], msg[1])


def perf_valid_events(bins, ms, lo, hi):
    from note_seq import performance_lib as pl
    PE = pl.PerformanceEvent
    evs = [(PE.NOTE_ON, p) for p in (lo, hi, (lo + hi) // 2)] + [(PE.NOTE_OFF, p) for p in (lo, hi)]
    evs += [(PE.TIME_SHIFT, v) for v in sorted({1, ms, (1 + ms) // 2})]
    if bins > 0:
        evs += [(PE.VELOCITY, b) for b in sorted({pl.velocity_to_bin(v, bins) for v in (1, 64, 127)})]
    return evs


def perf_encode_check(bins, ms, lo, hi):
    from note_seq import performance_encoder_decoder as ped, performance_lib as pl
    enc = ped.PerformanceOneHotEncoding(bins, ms, lo, hi)
    n = enc.num_classes
    seen = {}
    for (ty, v) in perf_valid_events(bins, ms, lo, hi):
        _CUR.clear(); _CUR.update({'enc': 'performance', 'cfg': [bins, ms, lo, hi], 'event': [ty, v]})
        try:
            j = enc.encode_event(pl.PerformanceEvent(ty, v))
            d = enc.decode_event(j) if 0 <= j < n else None
        except Exception as e:  # pylint: disable=broad-except
            return ('performance: valid event (type %d, value %d) raised %s' % (ty, v, type(e).__name__), dict(_CUR))
        if not 0 <= j < n or (d.event_type, d.event_value) != (ty, v) or seen.setdefault(j, (ty, v)) != (ty, v):
            return ('performance: valid event (type %d, value %d) -> index %r outside [0,%d) / not decoded back / collides'
                    % (ty, v, j, n), dict(_CUR))
    return None


def drum_check(table, obj):
    """property statement for one drum replay object (table None = the shipped default). Returns a failure text or None."""
    from note_seq import drums_encoder_decoder as ded
    enc = ded.MultiDrumOneHotEncoding(drum_type_pitches=table)
    strict = ded.MultiDrumOneHotEncoding(drum_type_pitches=table, ignore_unknown_drums=False)
    tab = ded.DEFAULT_DRUM_TYPE_PITCHES if table is None else table
    n = enc.num_classes
    if 'index' in obj:
        i = obj['index']
        ev = enc.decode_event(i)
        if enc.encode_event(ev) != i:
            return 'drum encode(decode(%d)) = %r != %d (decode gave %r)' % (i, enc.encode_event(ev), i, sorted(ev))
        if strict.encode_event(ev) != i:
            return 'drum strict encode(decode(i)) != i'
        return None
    s = frozenset(obj['pitches'])
    j = enc.encode_event(s)
    if not (isinstance(j, int) and 0 <= j < n):
        return 'drum encode(%r) = %r outside [0, %d)' % (sorted(s), j, n)
    canon = frozenset(c[0] for c in tab if s & set(c))   # first pitch of every class hit by s
    got = enc.decode_event(j)
    if got != canon:
        return 'drum decode(encode(%r)) = %r, canonical representative is %r' % (sorted(s), sorted(got), sorted(canon))
    if enc.encode_event(got) != j:
        return 'drum encode(decode(encode(s))) != encode(s) (not the same drum classes)'
    unknown = [p for p in s if not any(p in c for c in tab)]
    try:
        js = strict.encode_event(s)
        if unknown:
            return 'ignore_unknown_drums=False accepted the unknown pitches %r' % unknown
        if js != j:
            return 'ignore_unknown_drums=False changed the class of a fully known set'
    except ded.DrumsEncodingError:
        if not unknown:
            return 'DrumsEncodingError for a set of known pitches %r' % sorted(s)
    return None


def _oracle_drums(chk, drum_sets, **_):
    rng = chk.subrng('oracle-drums')
    from note_seq import drums_encoder_decoder as ded
    n = ded.MultiDrumOneHotEncoding().num_classes
    cases = [(None, {'index': i}) for i in range(n)]
    sets = [[p] for p in range(128)] + list(drum_sets)   # singletons first: smallest failing inputs
    for _ in range(chk.n(500, 20000)):
        sets.append(sorted(set(rng.randrange(0, 128) for _ in range(rng.randrange(0, 10)))))
    cases += [(None, {'pitches': list(ps)}) for ps in sets]
    for _ in range(chk.n(40, 800)):   # other legal configurations: pairwise-disjoint non-empty tables
        table = gen_drum_table(rng, 'disjoint', 9)
        m = 2 ** len(table)
        idxs = range(m) if m <= 64 else rng.sample(range(m), 64)
        cases += [(table, {'index': i}) for i in idxs]
        pool = sorted(set(p for c in table for p in c)) + [1, 2]
        cases += [(table, {'pitches': sorted(set(rng.choice(pool) for _ in range(rng.randrange(0, 7))))}) for _ in range(20)]
    for table, obj in cases:
        chk.count('oracle', None)
        rep = cur(enc='drums', **obj)
        if table is not None:
            rep['table'] = table
            _CUR['table'] = table
        bad = drum_check(table, obj)
        if bad:
            chk.fail(bad, rep)
            break


STEP_PC = {'C': 0, 'D': 2, 'E': 4, 'F': 5, 'G': 7, 'A': 9, 'B': 11}


def kind_quality(kind):
    """triad quality of a chord kind read off the degree names of `_CHORD_KINDS` (independent of the parser):
    major (1 3 5), minor (1 b3 5), augmented (1 3 #5), diminished (1 b3 b5), anything else = other"""
    from note_seq import chord_symbols_lib as csl
    degs = csl._CHORD_KINDS_BY_ABBREV[kind]
    third = [d for d in degs if d.lstrip('#b') == '3']
    fifth = [d for d in degs if d.lstrip('#b') == '5']
    if '1' not in degs or len(third) != 1 or len(fifth) != 1:
        return csl.CHORD_QUALITY_OTHER
    return {('3', '5'): csl.CHORD_QUALITY_MAJOR, ('b3', '5'): csl.CHORD_QUALITY_MINOR,
            ('3', '#5'): csl.CHORD_QUALITY_AUGMENTED, ('b3', 'b5'): csl.CHORD_QUALITY_DIMINISHED}.get(
                (third[0], fifth[0]), csl.CHORD_QUALITY_OTHER)


def own_degrees(kind, mods):
    """scale degrees {degree: alteration} a chord symbol denotes, from the kind's degree names in `_CHORD_KINDS` and
    the documented meaning of the modifications (add: a new degree; no: remove a degree; #/b: raise / lower a
    degree by a semitone ON TOP of what it already is, or add it altered).  None: a modification cannot be applied
    (adding a degree that is there, removing one that is not): not a chord symbol.  `mods` = [(type string, degree)]."""
    from note_seq import chord_symbols_lib as csl
    degs = {}
    for d in csl._CHORD_KINDS_BY_ABBREV[kind]:
        degs[int(d.lstrip('#b'))] = d.count('#') - d.count('b')
    for ty, deg in mods:
        if ty in ('add', 'add#', 'addb'):
            if deg in degs:
                return None
            degs[deg] = {'add': 0, 'add#': 1, 'addb': -1}[ty]
        elif ty == 'no':
            if deg not in degs:
                return None
            del degs[deg]
        elif ty in ('#', 'b'):
            degs[deg] = degs.get(deg, 0) + (1 if ty == '#' else -1)
        else:
            raise ValueError('modification type %r' % ty)
    return degs


def own_quality(degs):
    """triad quality from the pitch classes root / 3rd / 5th stand on, in semitones above the root: major (0,4,7),
    minor (0,3,7), augmented (0,4,8), diminished (0,3,6); anything else (or a missing 1st / 3rd / 5th) is no triad"""
    from note_seq import chord_symbols_lib as csl
    if any(d not in degs for d in (1, 3, 5)):
        return csl.CHORD_QUALITY_OTHER
    return {(0, 4, 7): csl.CHORD_QUALITY_MAJOR, (0, 3, 7): csl.CHORD_QUALITY_MINOR, (0, 4, 8): csl.CHORD_QUALITY_AUGMENTED,
            (0, 3, 6): csl.CHORD_QUALITY_DIMINISHED}.get((degs[1], 4 + degs[3], 7 + degs[5]), csl.CHORD_QUALITY_OTHER)


def sym_expect(sym):
    """[root pitch class, triad quality] the structured symbol denotes (None: not a chord symbol)"""
    from note_seq import chord_symbols_lib as csl
    kinds = list(csl._CHORD_KINDS_BY_ABBREV)
    modtab = list(csl._DEGREE_MODIFICATIONS)
    degs = own_degrees(kinds[sym[2]], [(modtab[mi], deg) for (mi, deg, _) in sym[3]])
    if degs is None:
        return None
    return [(STEP_PC[sym[0]] + sym[1]) % 12, own_quality(degs)]


def stacked_alteration(sym):
    """does a '#'/'b' modification of this symbol hit a degree that is already altered at that point"""
    from note_seq import chord_symbols_lib as csl
    kinds = list(csl._CHORD_KINDS_BY_ABBREV)
    modtab = list(csl._DEGREE_MODIFICATIONS)
    done = []
    for (mi, deg, _) in sym[3]:
        degs = own_degrees(kinds[sym[2]], done)
        if degs is None:
            return False
        if modtab[mi] in ('#', 'b') and degs.get(deg, 0) != 0:
            return True
        done.append((modtab[mi], deg))
    return False


def chord_check(which, obj):
    from note_seq import chord_symbols_lib as csl, chords_encoder_decoder as ced
    enc = chord_encoders()[which]
    n = enc.num_classes
    allowed = (csl.CHORD_QUALITY_MAJOR, csl.CHORD_QUALITY_MINOR)
    if which == 'tri':
        allowed += (csl.CHORD_QUALITY_AUGMENTED, csl.CHORD_QUALITY_DIMINISHED)
    if 'index' in obj:
        i = obj['index']
        ev = enc.decode_event(i)
        j = enc.encode_event(ev)
        if j != i:
            return '%s chord encode(decode(%d)) = encode(%r) = %r' % (which, i, ev, j)
        return None
    fig = obj['symbol']
    if fig == ced.NO_CHORD:
        for f2, how in ((ced.NO_CHORD, 'the constant'), (fresh_str(fig), 'an equal string that is not the constant object')):
            try:
                j = enc.encode_event(f2)
            except Exception as e:  # pylint: disable=broad-except
                return 'NO_CHORD (%s) is not encoded: %s: %s' % (how, type(e).__name__, e)
            if j != 0 or enc.decode_event(j) != ced.NO_CHORD:
                return 'NO_CHORD (%s) does not round-trip' % how
        return None
    fig = fresh_str(fig)
    root, quality = csl.chord_symbol_root(fig), csl.chord_symbol_quality(fig)
    if 'expect' in obj and [root, quality] != list(obj['expect']):
        try:
            got = 'class %r' % (enc.encode_event(fig),)
        except ced.ChordEncodingError:
            got = 'ChordEncodingError'
        names = {csl.CHORD_QUALITY_MAJOR: 'a major triad', csl.CHORD_QUALITY_MINOR: 'a minor triad', csl.CHORD_QUALITY_AUGMENTED: 'an augmented triad',
                 csl.CHORD_QUALITY_DIMINISHED: 'a diminished triad', csl.CHORD_QUALITY_OTHER: 'no triad'}
        return ('chord %r is read with root/quality (%d, %d) and encodes to %s; its root, 3rd and 5th stand on pitch class %d and %s '
                '(root/quality %r)' % (fig, root, quality, got, obj['expect'][0], names.get(obj['expect'][1], '?'), list(obj['expect'])))
    try:
        j = enc.encode_event(fig)
    except ced.ChordEncodingError:
        if quality in allowed:
            return '%s chord %r of quality %d rejected' % (which, fig, quality)
        return None
    if quality not in allowed:
        return '%s chord %r of quality %d accepted as class %r' % (which, fig, quality, j)
    if not (isinstance(j, int) and 0 <= j < n):
        return '%s chord encode(%r) = %r outside [0, %d)' % (which, fig, j, n)
    back = enc.decode_event(j)
    if back == ced.NO_CHORD or csl.chord_symbol_root(back) != root or csl.chord_symbol_quality(back) != quality:
        return '%s chord decode(encode(%r)) = %r has a different root or triad quality' % (which, fig, back)
    if enc.encode_event(back) != j:
        return '%s chord %r: canonical representative %r encodes elsewhere' % (which, fig, back)
    return None


def _oracle_chords(chk, **_):
    from note_seq import chord_symbols_lib as csl, chords_encoder_decoder as ced
    rng = chk.subrng('oracle-chords')
    kinds = list(csl._CHORD_KINDS_BY_ABBREV)
    for which, enc in chord_encoders().items():
        seen = {}
        for i in range(enc.num_classes):
            chk.count('oracle', None)
            rep = cur(enc='chord', which=which, index=i)
            bad = chord_check(which, rep)
            ev = enc.decode_event(i)
            if not bad and ev in seen:
                bad = '%s chord classes %d and %d decode to the same event %r' % (which, seen[ev], i, ev)
            seen[ev] = i
            if bad:
                chk.fail(bad, rep)
                break
        # the documented grammar, independent of the library's tables: every kind spelling on every root
        qual = {'major': csl.CHORD_QUALITY_MAJOR, 'minor': csl.CHORD_QUALITY_MINOR, 'augmented': csl.CHORD_QUALITY_AUGMENTED,
                'diminished': csl.CHORD_QUALITY_DIMINISHED, 'other': csl.CHORD_QUALITY_OTHER}
        stop = False
        for qn, abbrevs in GRAMMAR_KINDS.items():
            for ab in abbrevs:
                roots = [(st, al) for st in STEPS for al in ((-2, -1, 0, 1, 2) if chk.thorough else (0, rng.choice([-2, -1, 1, 2])))]
                for st, al in roots:
                    chk.count('oracle', None)
                    chk.count('oracle-chords', None, hist=['documented-grammar:' + qn])
                    rep = cur(enc='chord', which=which, symbol=st + acc(al) + ab, expect=[(STEP_PC[st] + al) % 12, qual[qn]])
                    try:
                        bad = chord_check(which, rep)
                    except csl.ChordSymbolError as e:
                        bad = 'chord symbol %r of the documented grammar (kind %r) is rejected: %s' % (rep['symbol'], ab, e)
                    if bad:
                        chk.fail(bad, rep)
                        stop = True
                        break
                if stop:
                    break
            if stop:
                break
        syms = ([(s, True) for s in chord_grammar(chk, rng)] + [(s, False) for s in chord_double_alt_symbols(chk, rng)]
                + [(s, False) for s in chord_mod_symbols(chk, rng)])
        syms.append(None)
        for item in syms:
            chk.count('oracle', None)
            if item is None:
                rep = cur(enc='chord', which=which, symbol=ced.NO_CHORD)
            else:
                sym, plain = item
                rep = cur(enc='chord', which=which, symbol=sym_string(sym))
                if plain:   # what the symbol was built from: root letter/alteration and kind abbreviation
                    rep['expect'] = [(STEP_PC[sym[0]] + sym[1]) % 12, kind_quality(kinds[sym[2]])]
                    _CUR['expect'] = rep['expect']
                else:       # ... and the modifications: the degrees they leave, as pitch classes above the root
                    exp = sym_expect(sym)
                    if exp is not None:
                        rep['expect'] = exp
                        _CUR['expect'] = exp
                        chk.count('oracle-chords', None, hist=['stacked-alteration' if stacked_alteration(sym) else 'modified', 'quality:%d' % exp[1]])
            try:
                bad = chord_check(which, rep)
            except csl.ChordSymbolError:
                if item is not None and (item[1] or 'expect' in rep):
                    raise        # a grammar symbol / a symbol whose modifications can all be applied must parse
                continue         # illegal modification: not a valid event
            if bad:
                chk.fail(bad, rep)
                break


def density_check(bounds, obj):
    enc = density_encoding(bounds)
    n = enc.num_classes
    if n != len(bounds) + 1:
        return 'num_classes = %r for %d boundaries' % (n, len(bounds))
    if 'index' in obj:
        i = obj['index']
        j = enc.encode_event(enc.decode_event(i))
        if j != i:
            return 'density encode(decode(%d)) = encode(%r) = %r' % (i, enc.decode_event(i), j)
        return None
    x = obj['value']
    j = enc.encode_event(x)
    if not (isinstance(j, int) and 0 <= j < n):
        return 'density encode(%r) = %r outside [0, %d)' % (x, j, n)
    v = enc.decode_event(j)
    lower = 0.0 if j == 0 else bounds[j - 1]
    if v != lower or not v <= x or (j < len(bounds) and not x < bounds[j]):
        return ('density %r -> class %d -> %r: not the lower bound of the bin containing the value (boundaries %r)'
                % (x, j, v, bounds))
    return None


def _oracle_density(chk, dens_cfgs, **_):
    d = density_encoding([1.0]).default_event
    if d != 0.0:
        chk.fail('NoteDensityOneHotEncoding.default_event = %r' % d, cur(enc='density', bounds=[1.0], value=0.0))
    nfail = 0
    for kind, bounds, xs in dens_cfgs:
        if kind != 'legal' or nfail >= 3:
            continue
        cases = [{'index': i} for i in range(len(bounds) + 1)] + [{'value': x} for x in xs]
        for obj in cases:
            chk.count('oracle', None)
            rep = cur(enc='density', bounds=list(bounds), **obj)
            bad = density_check(bounds, obj)
            if bad:
                chk.fail(bad, rep)
                nfail += 1
                break


def replay(chk, obj):
    from note_seq import melody_encoder_decoder as med, performance_lib as pl, drums_encoder_decoder as ded
    from note_seq import performance_encoder_decoder as ped
    print('replay', obj)
    e = obj.get('enc')
    try:
        return _replay(obj, e, med, pl, ded, ped)
    except Exception as ex:  # pylint: disable=broad-except
        print('implementation raised %s: %s' % (type(ex).__name__, ex))
        print('PROPERTY FAILS')
        return 1


def _replay(obj, e, med, pl, ded, ped):
    bad = False
    if e == 'melody':
        enc = med.MelodyOneHotEncoding(obj['min'], obj['max'])
        if 'index' in obj:
            r = enc.encode_event(enc.decode_event(obj['index']))
            print('encode(decode(%d)) = %r' % (obj['index'], r))
            bad = r != obj['index']
        else:
            j = enc.encode_event(obj['event'])
            print('encode(%d) = %r, decode = %r, num_classes = %d' % (obj['event'], j, enc.decode_event(j), enc.num_classes))
            bad = not (0 <= j < enc.num_classes) or enc.decode_event(j) != obj['event']
    elif e == 'velocity':
        if 'v' in obj:
            b = [pl.velocity_to_bin(v, obj['bins']) for v in range(1, 128)]
            print('bins', b)
            bad = any(not 1 <= x <= obj['bins'] for x in b) or b != sorted(b)
        else:
            r = pl.velocity_to_bin(pl.velocity_bin_to_velocity(obj['bin'], obj['bins']), obj['bins'])
            print('to_bin(from_bin(%d)) = %d' % (obj['bin'], r))
            bad = r != obj['bin']
    elif e == 'performance':
        if 'event' in obj:
            msg = perf_encode_check(*obj['cfg'])
            print(msg[0] if msg else 'every valid event encodes into range and decodes back')
            bad = msg is not None
        else:
            enc = ped.PerformanceOneHotEncoding(*obj['cfg'])
            r = enc.encode_event(enc.decode_event(obj['index']))
            print('encode(decode(%d)) = %r' % (obj['index'], r))
            bad = r != obj['index']
    elif e == 'drums':
        msg = drum_check(obj.get('table'), obj)
        print(msg or 'round trip as the property states')
        bad = msg is not None
    elif e == 'chord':
        msg = chord_check(obj['which'], obj)
        print(msg or 'round trip as the property states')
        bad = msg is not None
    elif e == 'density':
        msg = density_check(obj['bounds'], obj)
        print(msg or 'round trip as the property states')
        bad = msg is not None
    else:
        print('unknown replay object')
        return 2
    print('PROPERTY FAILS' if bad else 'property holds on this input')
    return 1 if bad else 0
