"""C09 — every one-hot event encoding is a bijection onto its class range (DESIGN 6.9)."""
import itertools

from gen.translit import translate_functions, Untranslatable
from harness.common import lean_list

PID = 'C09'
MODULES = ['NoteSeqVerif.Props.C09']
EXE = 'drv_c09'
THEOREMS = [
    'NSV.C09.melody_decode_encode', 'NSV.C09.melody_encode_decode', 'NSV.C09.melody_encode_rejects',
    'NSV.C09.velocity_bin_range', 'NSV.C09.velocity_bin_mono', 'NSV.C09.velocity_bin_right_inverse',
    'NSV.C09.ranges_decode_encode', 'NSV.C09.ranges_encode_decode',
    'NSV.C09.perf_decode_encode', 'NSV.C09.perf_encode_decode', 'NSV.C09.perf_default_in_range',
    'NSV.C09.drum_decode_encode_default',
]


def generate(chk):
    """Generated/C09.lean from the working tree: transliterated functions + tables."""
    from note_seq import melody_encoder_decoder as med, performance_lib as pl, drums_encoder_decoder as ded
    from note_seq import constants
    M = med.MelodyOneHotEncoding
    try:
        t1, _ = translate_functions([
            (M.encode_event, 'melEncode', ['self_min_note', 'self_max_note']),
            (M.decode_event, 'melDecode', ['self_min_note']),
            (M.num_classes.fget, 'melNumClasses', ['self_min_note', 'self_max_note']),
        ], med)
        t2, _ = translate_functions([
            (pl._velocity_bin_size, 'velocityBinSize', None),
            (pl.velocity_to_bin, 'velocityToBin', None),
            (pl.velocity_bin_to_velocity, 'velocityBinToVelocity', None),
        ], pl)
        t2 = t2.split('\n\n', 1)[1]  # drop the second copy of the prelude
        chk.translit['melody_onehot+velocity_bins'] = 'regenerated from source'
    except Untranslatable as e:
        chk.translit['melody_onehot+velocity_bins'] = 'BROKEN: %s' % e
        chk.broken.append('translator:C09 (%s)' % e)
        return
    PE = pl.PerformanceEvent
    table = ded.DEFAULT_DRUM_TYPE_PITCHES
    txt = ('/-! GENERATED from /repo on every run by harness/c09.py — do not edit. -/\n'
           'namespace NSV.C09.Gen\n' + t1 + '\n' + t2 + '\n'
           'def MIN_MIDI_PITCH : Int := %d\ndef MAX_MIDI_PITCH : Int := %d\n' % (constants.MIN_MIDI_PITCH, constants.MAX_MIDI_PITCH)
           + 'def NOTE_ON : Nat := %d\ndef NOTE_OFF : Nat := %d\ndef TIME_SHIFT : Nat := %d\ndef VELOCITY : Nat := %d\n'
           % (PE.NOTE_ON, PE.NOTE_OFF, PE.TIME_SHIFT, PE.VELOCITY)
           + 'def drumTable : List (List Nat) := %s\n' % lean_list(lean_list(str(p) for p in row) for row in table)
           + 'end NSV.C09.Gen\n')
    chk.regenerate('NoteSeqVerif/Generated/C09.lean', txt)


def exc_name(f, *a):
    try:
        return ('ok', f(*a))
    except Exception as e:  # pylint: disable=broad-except
        return ('err', type(e).__name__)


def run(chk):
    from note_seq import melody_encoder_decoder as med, performance_lib as pl, drums_encoder_decoder as ded
    from note_seq import performance_encoder_decoder as ped
    generate(chk)
    chk.prove(MODULES, THEOREMS, [EXE],
              extra_trusted=['gen/translit.py (Python->Lean transliteration of melody one-hot and velocity-bin functions)',
                             'math.ceil(a/b) on floats read as exact ceiling (validated by correspondence for all 127 bin counts)'])
    chk.rule = ('melody: (min,max) ranges x indices/events incl. out-of-range; velocity: v x bins; performance: '
                '(bins,max_shift,pitch range) x all indices and events; drums: class indices and pitch sets. '
                'non-trivial = distinct (configuration, argument) whose result is a value (not bad-op)')
    rng = chk.subrng('corr')
    reqs, impl = [], []

    def add(stream, req, res, key):
        reqs.append((stream, req, key))
        impl.append(res)

    # ---- melody
    if chk.thorough:
        ranges = [(a, b) for a in range(0, 128) for b in range(a + 1, 129)]
    else:
        ranges = [(rng.randrange(0, 128), 0) for _ in range(150)]
        ranges = [(a, rng.randrange(a + 1, 129)) for a, _ in ranges] + [(0, 128), (0, 1), (127, 128), (48, 84)]
    for (a, b) in ranges:
        enc = med.MelodyOneHotEncoding(a, b)
        n = enc.num_classes
        idxs = set([0, 1, 2, n - 1, n // 2]) if chk.thorough else set(range(n)) if n < 20 else set(rng.sample(range(n), 12)) | {0, 1, 2, n - 1}
        for i in sorted(x for x in idxs if 0 <= x < n):
            add('melody', 'mel_dec %d %d' % (a, i), 'ok %d' % enc.decode_event(i), ('md', a, b, i))
        evs = set([-3, -2, -1, 0, a - 1, a, b - 1, b, 127, 128]) | set(rng.sample(range(-4, 131), 4))
        for e in sorted(evs):
            r = exc_name(enc.encode_event, e)
            add('melody', 'mel_enc %d %d %d' % (a, b, e), '%s %s' % r, ('me', a, b, e))
    # illegal configurations must be rejected by the constructor (legal = theorem hypothesis)
    for (a, b) in [(-1, 5), (0, 129), (5, 5), (6, 5)]:
        r = exc_name(med.MelodyOneHotEncoding, a, b)
        chk.count('melody-config', ('cfg', a, b), True, 'rejected' if r[0] == 'err' else 'accepted')
        if r[0] != 'err':
            chk.disagree('melody-config', [a, b], 'accepted', 'rejected (MelCfg)')
    # ---- velocity
    vs = range(1, 128)
    ns = range(1, 128) if chk.thorough else sorted(set(rng.sample(range(1, 128), 30)) | {1, 2, 127, 126, 64, 32})
    for nbin in ns:
        for v in vs:
            add('velocity', 'vel %d %d' % (v, nbin),
                'ok %d %d' % (pl.velocity_to_bin(v, nbin), pl.velocity_bin_to_velocity(v, nbin)), ('v', v, nbin))
    # ---- performance
    grid = []
    if chk.thorough:
        for bins in list(range(0, 128, 9)) + [1, 127]:
            for ms in [1, 2, 3, 100, 128, 1000]:
                for (lo, hi) in [(0, 127), (21, 108), (60, 60), (0, 0), (127, 127), (36, 84)]:
                    grid.append((bins, ms, lo, hi))
    else:
        for _ in range(25):
            lo = rng.randrange(0, 128)
            grid.append((rng.choice([0, 0, 1, 2, 32, 127, rng.randrange(0, 128)]), rng.choice([1, 2, 100, rng.randrange(1, 129)]),
                         lo, rng.randrange(lo, 128)))
        grid += [(0, 100, 0, 127), (32, 100, 21, 108), (1, 1, 5, 5)]
    PE = pl.PerformanceEvent
    for (bins, ms, lo, hi) in grid:
        enc = ped.PerformanceOneHotEncoding(bins, ms, lo, hi)
        n = enc.num_classes
        cfg = '%d %d %d %d' % (bins, ms, lo, hi)
        add('performance', 'perf_n ' + cfg, 'ok %d' % n, ('pn', cfg))
        idxs = range(-1, n + 2) if (chk.thorough or n < 400) else sorted(set(rng.sample(range(n), 200)) | {-1, 0, n - 1, n, n + 1})
        for i in idxs:
            r = exc_name(enc.decode_event, i)
            add('performance', 'perf_dec %s %d' % (cfg, i),
                'ok %d %d' % (r[1].event_type, r[1].event_value) if r[0] == 'ok' else 'err %s' % r[1], ('pd', cfg, i))
        for ty in (1, 2, 3, 4):
            for v in sorted({lo, hi, 1, ms, max(bins, 1), (lo + hi) // 2}):
                try:
                    ev = PE(ty, v)
                except ValueError:
                    continue
                r = exc_name(enc.encode_event, ev)
                add('performance', 'perf_enc %s %d %d' % (cfg, ty, v), '%s %s' % r, ('pe', cfg, ty, v))
        d = enc.default_event
        if not (0 <= enc.encode_event(d) < n):
            chk.fail('default_event encodes outside [0,num_classes)', {'config': cfg})
    # ---- drums
    denc = ded.MultiDrumOneHotEncoding()
    for i in range(denc.num_classes):
        add('drums', 'drum_dec %d' % i, 'ok ' + ' '.join(map(str, [len(denc.decode_event(i))] + sorted(denc.decode_event(i)))), ('dd', i))
    for _ in range(chk.n(300, 5000)):
        ps = sorted(set(rng.randrange(20, 90) for _ in range(rng.randrange(0, 7))))
        add('drums', 'drum_enc ' + ' '.join(map(str, ps)), 'ok %d' % denc.encode_event(frozenset(ps)), ('de', tuple(ps)))

    # ---- run the model on the same requests and diff
    model = chk.driver(EXE, [r for (_, r, _) in reqs])
    for (stream, req, key), a, b in zip(reqs, impl, model):
        if stream == 'drums' and req.startswith('drum_dec') and b.startswith('ok'):
            t = b.split()
            b = 'ok ' + ' '.join([t[1]] + sorted(t[2:], key=int))
        chk.count(stream, key, nontrivial=(b != 'bad-op'), hist=a.split()[0] if stream != 'performance' else req.split()[0] + ':' + a.split()[0])
        if a != b:
            chk.disagree(stream, req, a, b)
    for s in ('mel_dec 48 5', 'mel_enc 48 84 60', 'vel 100 32', 'perf_dec 32 100 21 108 300', 'drum_dec 37'):
        i = [r for (_, r, _) in reqs].index(s) if s in [r for (_, r, _) in reqs] else None
        if i is not None:
            chk.sample({'request': s, 'impl': impl[i], 'model': model[i]})
    chk.sample({'request': reqs[0][1], 'impl': impl[0], 'model': model[0]})

    # ---- property oracle on the real code (independent of the model)
    oracle(chk, ranges, ns, grid)
    chk.exhaustive = chk.thorough


def oracle(chk, ranges, ns, grid):
    """the property statement evaluated directly on the implementation; an exception raised by
    the implementation on a valid argument is a failure of the property, not of the machinery."""
    try:
        _oracle(chk, ranges, ns, grid)
    except Exception as e:  # pylint: disable=broad-except
        chk.fail('implementation raised %s: %s on a valid index/event (see input)' % (type(e).__name__, e), dict(_CUR))


_CUR = {}


def _oracle(chk, ranges, ns, grid):
    from note_seq import melody_encoder_decoder as med, performance_lib as pl, drums_encoder_decoder as ded
    from note_seq import performance_encoder_decoder as ped
    for (a, b) in ranges:
        enc = med.MelodyOneHotEncoding(a, b)
        n = enc.num_classes
        for i in range(n):
            chk.count('oracle', None)
            _CUR.clear(); _CUR.update({'enc': 'melody', 'min': a, 'max': b, 'index': i})
            if enc.encode_event(enc.decode_event(i)) != i:
                chk.fail('melody encode(decode(i)) != i', {'enc': 'melody', 'min': a, 'max': b, 'index': i})
                break
        for e in [-2, -1] + list(range(a, b)):
            _CUR.clear(); _CUR.update({'enc': 'melody', 'min': a, 'max': b, 'event': e})
            j = enc.encode_event(e)
            if not (0 <= j < n) or enc.decode_event(j) != e:
                chk.fail('melody decode(encode(e)) != e or out of range', {'enc': 'melody', 'min': a, 'max': b, 'event': e})
                break
    for nbin in ns:
        prev = 0
        for v in range(1, 128):
            chk.count('oracle', None)
            _CUR.clear(); _CUR.update({'enc': 'velocity', 'v': v, 'bins': nbin})
            b = pl.velocity_to_bin(v, nbin)
            if not (1 <= b <= nbin) or b < prev:
                chk.fail('velocity_to_bin out of range or not monotone', {'enc': 'velocity', 'v': v, 'bins': nbin})
                break
            prev = b
        for b in range(1, nbin + 1):
            if pl.velocity_to_bin(pl.velocity_bin_to_velocity(b, nbin), nbin) != b:
                chk.fail('bin_to_velocity is not a right inverse', {'enc': 'velocity', 'bin': b, 'bins': nbin})
                break
    for (bins, ms, lo, hi) in grid:
        enc = ped.PerformanceOneHotEncoding(bins, ms, lo, hi)
        for i in range(enc.num_classes):
            chk.count('oracle', None)
            _CUR.clear(); _CUR.update({'enc': 'performance', 'cfg': [bins, ms, lo, hi], 'index': i})
            if enc.encode_event(enc.decode_event(i)) != i:
                chk.fail('performance encode(decode(i)) != i', {'enc': 'performance', 'cfg': [bins, ms, lo, hi], 'index': i})
                break
    denc = ded.MultiDrumOneHotEncoding()
    for i in range(denc.num_classes):
        chk.count('oracle', None)
        _CUR.clear(); _CUR.update({'enc': 'drums', 'index': i})
        if denc.encode_event(denc.decode_event(i)) != i:
            chk.fail('drum encode(decode(i)) != i', {'enc': 'drums', 'index': i})
            break


def replay(chk, obj):
    from note_seq import melody_encoder_decoder as med, performance_lib as pl, drums_encoder_decoder as ded
    from note_seq import performance_encoder_decoder as ped
    print('replay', obj)
    e = obj.get('enc')
    bad = False
    try:
        return _replay(obj, e, med, pl, ded, ped)
    except Exception as ex:  # pylint: disable=broad-except
        print('implementation raised %s: %s' % (type(ex).__name__, ex))
        print('PROPERTY FAILS')
        return 1


def _replay(obj, e, med, pl, ded, ped):
    bad = False
    if e == 'melody':
        enc = med.MelodyOneHotEncoding(obj['min'], obj['max'])
        if 'index' in obj:
            r = enc.encode_event(enc.decode_event(obj['index']))
            print('encode(decode(%d)) = %r' % (obj['index'], r))
            bad = r != obj['index']
        else:
            j = enc.encode_event(obj['event'])
            print('encode(%d) = %r, decode = %r, num_classes = %d' % (obj['event'], j, enc.decode_event(j), enc.num_classes))
            bad = not (0 <= j < enc.num_classes) or enc.decode_event(j) != obj['event']
    elif e == 'velocity':
        if 'v' in obj:
            b = [pl.velocity_to_bin(v, obj['bins']) for v in range(1, 128)]
            print('bins', b)
            bad = any(not 1 <= x <= obj['bins'] for x in b) or b != sorted(b)
        else:
            r = pl.velocity_to_bin(pl.velocity_bin_to_velocity(obj['bin'], obj['bins']), obj['bins'])
            print('to_bin(from_bin(%d)) = %d' % (obj['bin'], r))
            bad = r != obj['bin']
    elif e == 'performance':
        enc = ped.PerformanceOneHotEncoding(*obj['cfg'])
        r = enc.encode_event(enc.decode_event(obj['index']))
        print('encode(decode(%d)) = %r' % (obj['index'], r))
        bad = r != obj['index']
    elif e == 'drums':
        enc = ded.MultiDrumOneHotEncoding()
        r = enc.encode_event(enc.decode_event(obj['index']))
        print('encode(decode(%d)) = %r' % (obj['index'], r))
        bad = r != obj['index']
    print('PROPERTY FAILS' if bad else 'property holds on this input')
    return 1 if bad else 0
